#!/usr/bin/env python3
"""Generates /verif/MANIFEST.json from the table below (single source of truth)."""
import json, subprocess, sys

HOOK_COMMITS = subprocess.run(
    ["git", "-C", "/repo", "log", "--format=%H %s", "--grep=^verif hook"],
    capture_output=True, text=True).stdout.strip().splitlines()

# id -> (level, technique, text, note, design_ref)
CHECKS = {}

def add(pid, level, technique, text, note):
    CHECKS[pid] = dict(level=level, technique=technique, text=text, note=note)

exec(open('/verif/bin/manifest_table.py').read())

props = [json.loads(l)["id"] for l in open('/verif/properties.jsonl')]
checks = []
na = []
for pid in props:
    if pid in CHECKS:
        c = CHECKS[pid]
        checks.append({
            "property_id": pid,
            "quick_cmd": f"bin/check {pid} --tier quick",
            "thorough_cmd": f"bin/check {pid} --tier thorough",
            "evidence_file": f"/verif/evidence/{pid}.json",
            "replay_cmd_template": f"bin/check {pid} --replay {{path}}",
            "engine": "vcheck",
            "level_claimed": {"category": c["level"], "text": c["text"], "design_ref": f"DESIGN.md §6 {pid}"},
            "level_note": c["note"],
            "technique": c["technique"],
        })
    else:
        na.append({"property_id": pid, "reason": NOT_YET.get(pid, "check not built yet in this revision; planned as property-based test per DESIGN.md §6 (not claimed until it exists)")})

manifest = {
    "version": 1,
    "setup_cmd": "bin/setup",
    "hooks": {
        "guard": "cargo feature `verif` (aquatic_common, aquatic_udp, aquatic_http, aquatic_ws)",
        "enable": "the harness depends on /repo/crates/* by path with features = [\"verif\"]; bin/check rebuilds from /repo's working tree",
        "baseline_off_cmd": "cd /repo && CARGO_NET_OFFLINE=true cargo test --workspace --no-fail-fast --offline",
        "source_commits": [l.split()[0] for l in HOOK_COMMITS][::-1],
        "add_only": True,
    },
    "engines": [
        {"name": "vcheck", "path": "/verif/harness", "serves_properties": sorted(CHECKS.keys()),
         "kind_free_text": "Rust binary: seeded proptest TestRunner (ChaCha, fixed seeds derived from VERIF_SEED), vec(op)+interpreter histories against independent reference models/codecs, exhaustive small-scope enumeration, shrinking to JSON replay files; cargo-fuzz (libFuzzer) targets under /verif/fuzz for byte-level inputs"},
    ],
    "checks": checks,
    "not_applicable": na,
    "notes": "Exit codes: 0 held, 1 violation (VIOLATION line), 2 undecided (build failure, generator degenerated, watchdog). Known findings: /verif/known_findings.json. Seeds: VERIF_SEED (default 0); tier: --tier or VERIF_TIER.",
}
json.dump(manifest, open('/verif/MANIFEST.json', 'w'), indent=1)
print("checks:", [c["property_id"] for c in checks])
print("not_applicable:", [n["property_id"] for n in na])
