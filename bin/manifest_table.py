NOT_YET = {}
add("C01", "exploration", "model-based property testing (proptest histories vs reference swarm model)",
    "Generated announce/scrape/clean histories are executed against aquatic_udp's TorrentMaps and an independent reference tracker; replies, the observable peer set and the statistics counters are compared after every step. Gives confidence over several hundred thousand to millions of histories that cross the inline<->heap switch, not a proof.",
    "Trusts the reference model (models.rs) as the reading of the property; storage is driven through its public API exactly as the socket/cleaning workers call it; RNG outcomes are sampled through seeded SmallRng.")
