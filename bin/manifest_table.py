NOT_YET = {}
add("C01", "exploration", "model-based property testing (proptest histories vs reference swarm model)",
    "Generated announce/scrape/clean histories are executed against aquatic_udp's TorrentMaps and an independent reference tracker; replies, the observable peer set and the statistics counters are compared after every step. Gives confidence over several hundred thousand to millions of histories that cross the inline<->heap switch, not a proof.",
    "Trusts the reference model (models.rs) as the reading of the property; storage is driven through its public API exactly as the socket/cleaning workers call it; RNG outcomes are sampled through seeded SmallRng.")
add("C02", "exploration", "property testing with scripted-RNG enumeration (grid sweep) + seeded sampling vs reference membership model",
    "Peer selection of all three trackers is run for enumerated shapes (size, limit, maximum, requester position, build pattern); for HTTP storage and the WS selection function every outcome of the two random offset draws is enumerated through a scripted RNG (exhaustive for swarm size <= 20 quick / 40 thorough); UDP and WS storage are sampled by seed. Each returned list is checked for soundness, distinctness, requester exclusion and the exact size rule.",
    "Trusts the reference membership model; exhaustive claim limited to the `grid` sub-check and its size bound; UDP's SmallRng cannot be scripted (identical algorithm enumerated via HTTP).")
add("C05", "exploration", "property testing of ConnectionValidator against a reference acceptance rule (boundary-biased times, bit-flip forgeries)",
    "The real validator, with its clock set through a hook, is compared in both directions with the rule 'same canonical IP and t0+age>t1 and t0<=t1+60' on boundary-biased (age, t0, t1) and must reject every single-bit-altered id, ids for one-bit-different addresses, foreign-key ids and random ids.",
    "Clock is set through verif_set_seconds_since_start; forgeries accepted are re-tried under two fresh keys so a 2^-32 MAC collision cannot raise an alarm; wire-level behaviour is C06's.")
add("C07", "exploration", "model-based property testing (proptest histories vs reference swarm model, mock clock)",
    "Generated announce/scrape/clean histories against aquatic_http's swarm storage (re-exported under feature verif) and the reference tracker, compared after every step incl. torrent count after each clean.",
    "Trusts the reference model; storage reached through a feature-gated re-export; clean() driven by the thread-local mock clock.")
add("C08", "exploration", "model-based property testing (stateful histories over connections/workers vs WebTorrent reference model)",
    "Generated open/announce/scrape/close/clean histories over 3 socket workers with colliding connection ids and 3 shared peer ids against aquatic_ws's storage and model W; every produced message, its addressee, the counts and the stored entries are compared after every step.",
    "A harness shim reproduces the socket worker's per-connection bookkeeping (validated end to end by C17); mock clock; trusts model W.")
add("C09", "exploration", "model-based property testing (signalling-weighted histories vs WebTorrent reference model)",
    "Same driver as C08 with offers/answers dominating: forwarded offers are checked by a validity predicate (count, distinct stored receivers, own connection, i-th content), answers are forwarded iff the model holds an unconsumed unexpired expectation.",
    "Same shim and mock clock as C08; which receivers are chosen is left open (validity predicate).")
add("C10", "exploration", "model-based property testing with boundary-time generators under a mock clock",
    "Histories that place cleaning passes one second before, at and after live deadlines in inline and heap representations on all three storages, plus ValidUntil arithmetic under the mock clock.",
    "Worker time sampling enters UDP/HTTP storage as the explicit valid_until argument; now+age < 2^32.")
add("C11", "exploration", "property testing: generated list files/fault positions vs reference parser; storage histories with list swaps vs reference models",
    "Reload sequences with decorated and faulty files (every fault kind at generated line positions, missing file) through update_access_list in all modes, decisions read through the shared list and a pre-existing worker cache; storage histories on all three trackers where the next clean must remove exactly the forbidden torrents.",
    "Announce gating at the socket workers and SIGUSR1 delivery are covered by the e2e sub-check when present; at storage level forbidden announces are withheld by the harness.")
add("C13", "exploration", "differential/round-trip property testing against an independent BEP 15 codec",
    "write_bytes compared byte for byte with an independent encoder, parse_bytes of independently encoded datagrams compared field by field, parse(write(x)) == x, and every listed malformation (all truncation lengths, bad action/event/protocol id, port 0, empty/ragged hash list) against an independent acceptance rule.",
    "Trusts codecs.rs as the transcription of BEP 15 (+ IPv6 18-byte peers).")
add("C14", "exploration", "differential/round-trip property testing against an independent query writer, identifier decoder and canonical bencode codec",
    "Requests round-trip through the library, are parsed from independently written query strings (shuffled order, unknown keys, raw/%XX/%xx bytes), identifiers are judged by a reference decoder in both directions, replies are byte-compared with an independent canonical bencode encoder and re-parsed.",
    "Keys > 100 encoded chars, scrape `downloaded` != 0 and counts > i64::MAX are outside the domain.")
add("C15", "exploration", "round-trip property testing + hand-built JSON against a reference identifier rule",
    "Every message kind round-trips through text and binary frames for arbitrary SDP and ids; encoder output is inspected with serde_json; hand-built JSON with identifier strings of 0..40 chars in every id-bearing field is accepted iff exactly 20 chars <= U+00FF.",
    "Hand-built JSON uses raw UTF-8 or \\u escapes (incl. surrogate pairs).")
add("C03", "exploration", "property testing: canonicalisation vs std, constructed header layouts through the real parser into real storage, metamorphic in-request-ip histories",
    "Address canonicalisation compared with std over mapped and near-miss addresses; HTTP requests built from generated header layouts (several occurrences, comma lists, blanks, victim ip= parameters) go through the real parse_request into real storage and are read back by an observer; UDP storage histories with arbitrary in-request ip fields and v4/v6/mapped sources agree with a model keyed by canonical source IP. Socket-level configurations are covered by the e2e sub-check when present.",
    "The peer address passed to HTTP storage is computed as connection.rs does; reverse-proxy requests without a valid header panic by documented design and are not generated.")
add("C06", "exploration", "stateful property testing over loopback sockets against running trackers (reference decoder + swarm model, transaction-id attribution, raw-socket source port 0)",
    "Generated datagram histories from six loopback sockets against running mio and io_uring trackers; every datagram carries a unique transaction id, replies are attributed by it and compared with an independent BEP 15 decoder and the swarm model: at most one reply, only to the sender, none without an id valid for the source IP, exact scrape truncation. Source port 0 is sent through a raw socket with ordinary-port controls.",
    "Timing only bounds waits (fence connect per datagram); a missed fence is reported as undecided (exit 2), never as violation. ENOBUFS resend path unreachable on loopback.")
add("C16", "exploration", "stateful property testing over TCP against running trackers (strict HTTP framing reader + canonical bencode reader + one reference swarm model)",
    "Generated request histories over up to six open connections against running aquatic_http instances for several socket/swarm worker counts; replies are read by a strict framing reader and a strict bencode reader and compared with one reference tracker; malformed/oversized requests go to other connections.",
    "REUSEPORT distribution and TCP segmentation are sampled; sequential within a history, concurrent across harness threads.")
add("C20", "exploration", "model-based property testing of statistics/export + fault enumeration of export steps (process abort at every probe, reader at every probe)",
    "Histories with statistics, per-client tallies and exports on are compared with the model after every clean; the export is crashed (child process abort) and observed (reader) at every individual step for generated scenarios and four path shapes, and the configured path must always hold the complete old or complete new export.",
    "Crash = process abort (no power-loss semantics); the statistics worker's fold rule is reproduced in the harness.")
