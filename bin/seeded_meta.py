#!/usr/bin/env python3
"""Writes /verif/seeded/<id>/meta.json from the table below (one entry per seeded change that I
confirmed myself with bin/seeded-verify) and trims the suite logs. Run after adding an entry."""
import json, os, re, sys

V = os.path.dirname(os.path.dirname(os.path.abspath(__file__)))

def caught(check, sub, kind, tier="quick", note=""):
    d = {"check": check, "tier": tier, "subcheck": sub, "kind": kind}
    if note:
        d["note"] = note
    return d

T = {
 "C01": dict(
  worktree="/tmp/seed2-C01",
  summary="LargePeerMap::clean_and_get_num_peers: `if !keep && config.statistics.peer_clients { if peer.is_seeder { num_seeders -= 1 } ... }` - the cached seeder counter of the heap representation is only decremented for expired seeders when statistics.peer_clients is on (off by default)",
  needs="a torrent in the heap representation (> 2 peers) with a seeder that expires in a cleaning pass while the torrent survives, statistics.peer_clients = false; then any later announce or scrape reports one seeder too many (and leechers underflow once enough peers leave)",
  demo="demo/crates/udp/tests/seeded_demo.rs",
  caught_by=[caught("C01", "hist", "panic", note="arithmetic overflow in num_seeders_leechers under the harness's overflow checks; with checks off the counts differ from model S"),
             caught("C10", "udp", "panic")],
 ),
 "C02": dict(
  worktree="/tmp/seed2-C02",
  summary="LargePeerMap::extract_response_peers draws both random offsets from inclusive ranges (`from..=to`); with `to = max(1, middle - n/2)` the first slice can reach the first element of the second half",
  needs="heap representation holding exactly limit+1 other peers, even limit, and the random offsets (1, middle): the reply then lists one peer twice (probability 1/4 per announce in that configuration, never otherwise)",
  demo="demo/crates/udp/tests/seeded_demo.rs",
  caught_by=[caught("C02", "random", "peer-list-duplicate")],
 ),
 "C04": None,  # written by hand earlier
 "C06": dict(
  worktree="/tmp/seed2-C06",
  summary="Request::parse_bytes (scrape): `max_scrape_torrents.min(info_hashes.len() as u8)` - the number of requested hashes wraps modulo 256 before the limit is applied",
  needs="a well-formed scrape with a valid connection id and 256..=325 info hashes (datagram of 5136..6516 bytes; the receive buffer takes 8192): the reply lists N mod 256 torrents instead of the first 70",
  demo="demo/crates/udp_protocol/tests/seeded_demo.rs and demo/crates/udp/tests/seeded_demo.rs",
  caught_by=[caught("C06", "datagrams", "scrape-content", note="only after the generator was extended to scrapes of up to 408 hashes (missed before: longest scrape was 80 hashes)"),
             caught("C13", "boundaries", "roundtrip-mismatch", note="after the boundary list was extended to 255/256/257/325/326/408/409 hashes")],
  extra="the existing test `test_access_list_deny` (aquatic_udp) failed once in my suite run with `recv response: Resource temporarily unavailable` - a 1 s receive time-out of that test under load average ~100 (six sub-agents compiling); re-run of the suite with the change at low load: see suite-with-change.log",
 ),
 "C08": dict(
  worktree="/tmp/seed-C08",
  summary="ws TorrentData::insert_or_update_peer: fast path for `update`/absent events from stored peers only refreshes valid_until and returns - seeder/leecher status of the earlier announce is kept",
  needs="a stored peer re-announcing with event update (or none) and a different `left = 0` status than before (a leecher finishing without sending `completed`, or a seeder announcing left > 0)",
  demo="demo.diff (unit test in crates/ws/src/workers/swarm/storage.rs)",
  caught_by=[caught("C08", "hist", "announce-counts")],
 ),
 "C09": dict(
  worktree="/tmp/seed-C09",
  summary="ws TorrentData::clean_and_get_num_peers drops only the expired *prefix* of a peer's outstanding offers (take_while + drain) assuming insertion order = expiry order; handle_answer's swap_remove and re-sending an offer id break that order",
  needs="two offers by one peer, time passing, then either an answer to the older one (swap_remove moves the newer in front) or a re-sent offer id, then expiry of the remaining older offer, a cleaning pass, and an answer to the expired offer - which is then forwarded",
  demo="demo.diff (unit test in crates/ws/src/workers/swarm/storage.rs)",
  caught_by=[caught("C09", "small-scope", "answer-forwarded-without-offer", note="missed by the random `signalling` histories (03:23 run in mutants/RESULTS.txt); caught after the exhaustive small-scope enumeration of offer / tick / clean / answer sequences was added"),
             caught("C10", "ws-offers-small-scope", "answer-forwarded-without-offer")],
 ),
 "C10": dict(
  worktree="/tmp/seed2-C10",
  summary="udp LargePeerMap::clean_and_get_num_peers: fast path clears the whole map when the *last* IndexMap entry has expired (assuming last = newest), statistics.peer_clients off",
  needs="heap representation, a `stopped` announce whose swap_remove moves the newest peer into the middle so that an older peer becomes last, then a cleaning pass between the older and the newer deadline: the unexpired peer is removed",
  demo="demo/crates/udp/tests/seeded_demo.rs",
  caught_by=[caught("C10", "udp", "stats-totals"), caught("C01", "hist", "stats-totals")],
 ),
 "C11": None,
 "C16": dict(
  worktree="/tmp/seed2-C16",
  summary="http Connection::write_response no longer blanks the 8-byte Content-Length field of the reused per-connection response buffer",
  needs="keep-alive connection, an earlier reply whose Content-Length has more decimal digits than a later one (e.g. 153 bytes then 83 bytes -> `Content-Length: 833`)",
  demo="demo/crates/http/tests/seeded_demo.rs",
  caught_by=[caught("C16", "http", "reply-malformed")],
 ),
 "C17": dict(
  worktree="/tmp/seed-C17",
  summary="ws TorrentData::handle_answer builds the forwarded answer's OutMessageMeta with `..request_sender_meta.into()`: out_message_consumer_id (socket worker of the target connection) comes from the answering peer instead of the offering peer",
  needs="two or more socket workers, offerer and answerer connected to different ones (the kernel's SO_REUSEPORT choice), and a connection with the same slot key in the wrong worker for misdelivery (otherwise the answer is dropped)",
  demo="demo/crates/ws/tests/seeded_demo.rs",
  caught_by=[caught("C17", "ws", "message-missing", note="first run reported exit 2 (the shrunk case did not fail again - the kernel had put both connections on one worker); the engine now confirms violations against running trackers by up to 6 re-runs and the check is caught"),
             caught("C09", "signalling", "answer-misaddressed", note="storage level: the meta data of the forwarded answer is compared with the offerer's")],
 ),
 "C19": dict(
  worktree="/tmp/seed2-C19",
  summary="aquatic_udp::run: the supervision loop's sleep between `is_finished` rounds starts at 100 ms and doubles up to 30 s (was a fixed 5 s)",
  needs="a worker dying later than ~12.7 s after start-up and more than 10 s before the next round (12.7-15.5 s, 25.5-41.1 s, 51.1-71.1 s, ...); start-up failures are noticed faster than before",
  demo="demo/crates/udp/tests/seeded_demo.rs",
  caught_by=[],  # filled below from RESULTS
 ),
 "C20": dict(
  worktree="/tmp/seed-C20",
  summary="udp LargePeerMap::clean_and_get_num_peers: `if peer.is_seeder { num_seeders -= 1 } else if config.statistics.peer_clients { push PeerRemoved }` - expired seeders of the heap representation are never un-tallied",
  needs="statistics.peer_clients on, a seeder expiring from a torrent in the heap representation; per-client tallies then stay one too high for ever",
  demo="demo/crates/udp/tests/seeded_demo.rs",
  caught_by=[caught("C20", "histories", "client-tallies")],
 ),
}

def main():
    results = open(os.path.join(V, "mutants/RESULTS.txt")).read().splitlines()
    for pid, t in T.items():
        if t is None:
            continue
        d = os.path.join(V, "seeded", pid)
        vr = os.path.join(d, "verify-result.txt")
        if not os.path.exists(vr):
            print("skip", pid, "(not verified yet)")
            continue
        res = open(vr).read().strip()
        lines = [l for l in results if re.search(r"\b%s(\+C\d\d)*-seeded\d" % pid, l) or re.search(r"C\d\d\+%s-seeded\d" % pid, l) or ("seeded-%s" % pid.lower()) in l]
        meta = {
            "property": pid,
            "source": "written by an independent sub-agent given only the property text and pointers into the repository (worktree %s)" % t["worktree"],
            "summary": t["summary"],
            "needs": t["needs"],
            "demo": t["demo"] + ": fails with the change, passes without",
            "caught_by": t["caught_by"],
            "confirmed_by_me": {
                "how": "bin/seeded-verify in scratch worktree /var/tmp/verif-seed of /repo HEAD: demo on unchanged tree, demo with patch, `cargo test --workspace --no-fail-fast --offline` with patch",
                "result": res,
                "logs": ["demo-without-change.log", "demo-with-change.log", "suite-with-change.log"],
            },
            "ran_against_my_checks": "bin/mutants-bg (scratch worktree /var/tmp/verif-mut): patch applied, harness rebuilt, quick tier of the named checks",
            "results_lines": lines,
        }
        if t.get("extra"):
            meta["note"] = t["extra"]
        json.dump(meta, open(os.path.join(d, "meta.json"), "w"), indent=1)
        # trim the suite log to its summary lines
        sl = os.path.join(d, "suite-with-change.log")
        if os.path.exists(sl) and os.path.getsize(sl) > 20000:
            keep = [l for l in open(sl, errors="replace") if re.search(r"test result|Running|FAILED|failed|^passed|^exit|panicked", l)]
            open(sl, "w").write("(trimmed to summary lines)\n" + "".join(keep))
        print("wrote", pid)

if __name__ == "__main__":
    main()
