#!/usr/bin/env python3
"""Writes /verif/seeded/<id>/meta.json from the table below (one entry per seeded change that I
confirmed myself with bin/seeded-verify) and trims the suite logs. Run after adding an entry."""
import json, os, re, sys

V = os.path.dirname(os.path.dirname(os.path.abspath(__file__)))

def caught(check, sub, kind, tier="quick", note=""):
    d = {"check": check, "tier": tier, "subcheck": sub, "kind": kind}
    if note:
        d["note"] = note
    return d

T = {
 "C01": dict(
  worktree="/tmp/seed2-C01",
  summary="LargePeerMap::clean_and_get_num_peers: `if !keep && config.statistics.peer_clients { if peer.is_seeder { num_seeders -= 1 } ... }` - the cached seeder counter of the heap representation is only decremented for expired seeders when statistics.peer_clients is on (off by default)",
  needs="a torrent in the heap representation (> 2 peers) with a seeder that expires in a cleaning pass while the torrent survives, statistics.peer_clients = false; then any later announce or scrape reports one seeder too many (and leechers underflow once enough peers leave)",
  demo="demo/crates/udp/tests/seeded_demo.rs",
  caught_by=[caught("C01", "hist", "panic", note="arithmetic overflow in num_seeders_leechers under the harness's overflow checks; with checks off the counts differ from model S"),
             caught("C10", "udp", "panic")],
 ),
 "C02": dict(
  worktree="/tmp/seed2-C02",
  summary="LargePeerMap::extract_response_peers draws both random offsets from inclusive ranges (`from..=to`); with `to = max(1, middle - n/2)` the first slice can reach the first element of the second half",
  needs="heap representation holding exactly limit+1 other peers, even limit, and the random offsets (1, middle): the reply then lists one peer twice (probability 1/4 per announce in that configuration, never otherwise)",
  demo="demo/crates/udp/tests/seeded_demo.rs",
  caught_by=[caught("C02", "random", "peer-list-duplicate")],
 ),
 "C03": dict(
  worktree="/tmp/seed3-C03",
  summary="http Connection::run: in reverse-proxy mode the peer address taken from the first request's header is kept for the lifetime of the connection (`opt_stable_peer_addr.insert(..)`) instead of being derived from each request's header",
  needs="runs_behind_reverse_proxy = true, keep-alive, and two or more announces of different clients on one upstream connection: the later ones are stored under the first client's IP",
  demo="demo/crates/http/tests/seeded_demo.rs",
  caught_by=[caught("C03", "e2e", "stored-address-wrong", note="missed at first (the proxy case of the e2e sub-check opened a fresh connection per announce; the header sub-check computes the address per request in the harness). Caught after the proxy case was extended by 4-7 announces of different clients alternating over two kept-alive upstream connections")],
 ),
 "C05": dict(
  worktree="/tmp/seed3-C05",
  summary="ConnectionValidator::hash feeds the MAC one 20-byte block `elapsed || 128-bit address`, an IPv4 address right-aligned with a zero prefix: IPv4 a.b.c.d and the distinct IPv6 address ::a.b.c.d get the same MAC",
  needs="an id issued to IPv4 a.b.c.d presented from IPv6 ::a.b.c.d (96 zero bits + the same 32 bits), or the reverse; every other address pair is unaffected",
  demo="demo.diff (unit tests in crates/udp/src/workers/socket/validator.rs)",
  caught_by=[caught("C05", "window", "other-ip-accepted", note="missed by the check as it stood (random other addresses and every one-bit neighbour, all of the same family). Caught after must-reject candidates were added that carry the issuing address's bytes in another representation (other family, zero padding on either side, IPv4-compatible / SIIT / NAT64 / 6to4 embeddings, reversed, halves swapped)")],
 ),
 "C07": dict(
  worktree="/tmp/seed3-C07",
  summary="http TorrentData::upsert_peer_and_get_response_peers (heap representation only) skips remove_peer when the event is `started`: counts include the announcer, its own address can be handed back, and num_seeders drifts up on every repeated `started` with left = 0",
  needs="a torrent in the heap representation and a peer that is already stored announcing `started` again",
  demo="demo.diff (unit tests in crates/http/src/workers/swarm/storage.rs)",
  caught_by=[caught("C07", "hist", "announce-counts")],
 ),
 "C12": dict(
  worktree="/tmp/seed3-C12",
  summary="http_protocol urldecode_20_bytes decodes %xx through a 256-entry table indexed with `char as usize`, dropping the is_ascii check of the two chars after '%': a char >= U+0100 in a hex position indexes out of bounds",
  needs="an info_hash or peer_id in which '%' is followed (in either hex position) by a valid UTF-8 character >= U+0100, e.g. `info_hash=%4\\u0100...`; %zz, Latin-1 after %, truncated escapes and invalid UTF-8 do not trigger it",
  demo="demo.diff (unit test in crates/http_protocol/src/request.rs)",
  caught_by=[caught("C12", "mutations", "parser-panic")],
 ),
 "C13": dict(
  worktree="/tmp/seed3-C13",
  summary="udp_protocol Request::parse_bytes (scrape) cuts the remaining bytes to max_scrape_torrents * 20 before the cast to [InfoHash], so the multiple-of-20 check only sees the kept part",
  needs="a scrape whose hash list is not a multiple of 20 bytes and at least max_scrape_torrents * 20 bytes long (any non-empty ragged list when the limit is 0); shorter ragged lists are still rejected",
  demo="demo/crates/udp_protocol/tests/seeded_demo.rs",
  caught_by=[caught("C13", "boundaries", "decode-accepted-malformed")],
 ),
 "C14": dict(
  worktree="/tmp/seed3-C14",
  summary="http_protocol urldecode_20_bytes slices value.as_bytes() at a position counted in characters: after a raw character U+0080..U+00FF (2 UTF-8 bytes) every later %xx of the identifier is read from the wrong offset",
  needs="one identifier containing a raw (unescaped) character in U+0080..U+00FF and, later, a percent escape: rejected or silently decoded to other bytes; all-raw, all-escaped and ASCII+escape identifiers are unaffected",
  demo="demo/crates/http_protocol/tests/seeded_demo.rs",
  caught_by=[caught("C14", "codec", "independent-text-rejected")],
 ),
 "C15": dict(
  worktree="/tmp/seed3-C15",
  summary="ws_protocol TwentyByteVisitor::visit_str fast path: a string of exactly 20 UTF-8 *bytes* is taken as the identifier as is",
  needs="an identifier string of fewer than 20 characters whose UTF-8 encoding is 20 bytes long (e.g. ten times U+00FF, or 18 ASCII + U+0100): accepted although it is not 20 characters <= U+00FF; round-trips unaffected",
  demo="demo/crates/ws_protocol/tests/seeded_demo.rs",
  caught_by=[caught("C15", "codec", "id-accepted-malformed", note="caught by the generator as it stood before I read the change (measured separately: violation after 4581 cases, an 8-char string of 20 UTF-8 bytes); a dedicated class 'UTF-8 length 20/40 but not 20 chars' was added anyway so that the case does not depend on chance")],
 ),
 "C18": dict(
  worktree="/tmp/seed3-C18",
  summary="http REQUEST_BUFFER_SIZE 2048 -> 4096 while RESPONSE_BUFFER_SIZE stays 8192 and max_scrape_torrents is not validated: a request can now carry 131 info hashes, a reply with >= 117 files does not fit",
  needs="protocol.max_scrape_torrents >= 117 (default 100 still fits) and a scrape of >= 117 mostly unescaped hashes (3.6-4 KiB request): connection closed without a reply, configuration accepted",
  demo="demo/crates/http/tests/seeded_demo.rs",
  caught_by=[caught("C18", "configs", "reply-dropped", note="missed at first: the longest HTTP scrape was hard-coded as 65 hashes / 2040 request bytes under limits 1, 50, 100. Caught after the check was changed to find the request length the running tracker accepts by bisection (padded one-hash scrape) and to send the scrapes with the most hashes that fit, under limits from 1 to usize::MAX")],
 ),
 "C04": None,  # written by hand earlier
 "C06": dict(
  worktree="/tmp/seed2-C06",
  summary="Request::parse_bytes (scrape): `max_scrape_torrents.min(info_hashes.len() as u8)` - the number of requested hashes wraps modulo 256 before the limit is applied",
  needs="a well-formed scrape with a valid connection id and 256..=325 info hashes (datagram of 5136..6516 bytes; the receive buffer takes 8192): the reply lists N mod 256 torrents instead of the first 70",
  demo="demo/crates/udp_protocol/tests/seeded_demo.rs and demo/crates/udp/tests/seeded_demo.rs",
  caught_by=[caught("C06", "datagrams", "scrape-content", note="only after the generator was extended to scrapes of up to 408 hashes (missed before: longest scrape was 80 hashes)"),
             caught("C13", "boundaries", "roundtrip-mismatch", note="after the boundary list was extended to 255/256/257/325/326/408/409 hashes")],
  extra="in my first suite run with the change the existing test `test_access_list_deny` (aquatic_udp) failed with `recv response: Resource temporarily unavailable` - its 1 s receive time-out under load average ~100 (six sub-agents compiling), unrelated to the change; the whole verification was repeated at lower load and the suite passed (the logs kept are of that second run)",
 ),
 "C08": dict(
  worktree="/tmp/seed-C08",
  summary="ws TorrentData::insert_or_update_peer: fast path for `update`/absent events from stored peers only refreshes valid_until and returns - seeder/leecher status of the earlier announce is kept",
  needs="a stored peer re-announcing with event update (or none) and a different `left = 0` status than before (a leecher finishing without sending `completed`, or a seeder announcing left > 0)",
  demo="demo.diff (unit test in crates/ws/src/workers/swarm/storage.rs)",
  caught_by=[caught("C08", "hist", "announce-counts")],
 ),
 "C09": dict(
  worktree="/tmp/seed-C09",
  summary="ws TorrentData::clean_and_get_num_peers drops only the expired *prefix* of a peer's outstanding offers (take_while + drain) assuming insertion order = expiry order; handle_answer's swap_remove and re-sending an offer id break that order",
  needs="two offers by one peer, time passing, then either an answer to the older one (swap_remove moves the newer in front) or a re-sent offer id, then expiry of the remaining older offer, a cleaning pass, and an answer to the expired offer - which is then forwarded",
  demo="demo.diff (unit test in crates/ws/src/workers/swarm/storage.rs)",
  caught_by=[caught("C09", "small-scope", "answer-forwarded-without-offer", note="missed by the random `signalling` histories (03:23 run in mutants/RESULTS.txt); caught after the exhaustive small-scope enumeration of offer / tick / clean / answer sequences was added"),
             caught("C10", "ws-offers-small-scope", "answer-forwarded-without-offer")],
 ),
 "C10": dict(
  worktree="/tmp/seed2-C10",
  summary="udp LargePeerMap::clean_and_get_num_peers: fast path clears the whole map when the *last* IndexMap entry has expired (assuming last = newest), statistics.peer_clients off",
  needs="heap representation, a `stopped` announce whose swap_remove moves the newest peer into the middle so that an older peer becomes last, then a cleaning pass between the older and the newer deadline: the unexpired peer is removed",
  demo="demo/crates/udp/tests/seeded_demo.rs",
  caught_by=[caught("C10", "udp", "stats-totals"), caught("C01", "hist", "stats-totals")],
 ),
 "C11": None,
 "C16": dict(
  worktree="/tmp/seed2-C16",
  summary="http Connection::write_response no longer blanks the 8-byte Content-Length field of the reused per-connection response buffer",
  needs="keep-alive connection, an earlier reply whose Content-Length has more decimal digits than a later one (e.g. 153 bytes then 83 bytes -> `Content-Length: 833`)",
  demo="demo/crates/http/tests/seeded_demo.rs",
  caught_by=[caught("C16", "http", "reply-malformed")],
 ),
 "C17": dict(
  worktree="/tmp/seed-C17",
  summary="ws TorrentData::handle_answer builds the forwarded answer's OutMessageMeta with `..request_sender_meta.into()`: out_message_consumer_id (socket worker of the target connection) comes from the answering peer instead of the offering peer",
  needs="two or more socket workers, offerer and answerer connected to different ones (the kernel's SO_REUSEPORT choice), and a connection with the same slot key in the wrong worker for misdelivery (otherwise the answer is dropped)",
  demo="demo/crates/ws/tests/seeded_demo.rs",
  caught_by=[caught("C17", "ws", "message-missing", note="first run reported exit 2 (the shrunk case did not fail again - the kernel had put both connections on one worker); the engine now confirms violations against running trackers by up to 6 re-runs and the check is caught"),
             caught("C09", "signalling", "answer-misaddressed", note="storage level: the meta data of the forwarded answer is compared with the offerer's")],
 ),
 "C19": dict(
  worktree="/tmp/seed2-C19",
  summary="aquatic_udp::run: the supervision loop's sleep between `is_finished` rounds starts at 100 ms and doubles up to 30 s (was a fixed 5 s)",
  needs="a worker dying later than ~12.7 s after start-up and more than 10 s before the next round (12.7-15.5 s, 25.5-41.1 s, 51.1-71.1 s, ...); start-up failures are noticed faster than before",
  demo="demo/crates/udp/tests/seeded_demo.rs",
  caught_by=[caught("C19", "faults", "tracker-kept-running", note="missed twice: first the grid only injected faults within seconds of start-up; then two fixed late uptimes (17 s, 45 s) both fell between the change's blind windows. Caught after 'any moment of its life' became a ladder of uptimes (every 3 s from 11 s to 53 s, offset by the seed; every second up to 130 s in the thorough tier)")],
 ),
 "C20": dict(
  worktree="/tmp/seed-C20",
  summary="udp LargePeerMap::clean_and_get_num_peers: `if peer.is_seeder { num_seeders -= 1 } else if config.statistics.peer_clients { push PeerRemoved }` - expired seeders of the heap representation are never un-tallied",
  needs="statistics.peer_clients on, a seeder expiring from a torrent in the heap representation; per-client tallies then stay one too high for ever",
  demo="demo/crates/udp/tests/seeded_demo.rs",
  caught_by=[caught("C20", "histories", "client-tallies")],
 ),
}

# ---- second round (one more change per property, the first round's idea excluded in the prompt)
T.update({
 "C01b": dict(
  worktree="/tmp/seed4-C01",
  summary="udp PeerMap::announce: when the removed entry has the same peer id as the request the new entry is built as `Peer { is_seeder, ..removed_peer }`, silently keeping the old valid_until",
  needs="the same (IP, port, peer id) announcing twice with a later deadline the second time, and a cleaning pass between the two deadlines: the peer is dropped although its latest announce has not expired",
  demo="demo/crates/udp/tests/seeded_demo.rs",
  caught_by=[caught("C01", "hist", "stats-totals")],
 ),
 "C02b": dict(
  worktree="/tmp/seed4-C02",
  summary="udp PeerMap::announce (heap representation): a `started` announce no longer removes the announcer's old entry before the reply is built, so a stored peer announcing `started` again can be handed its own address",
  needs="heap representation (>= 3 peers), the requester already stored under the same ip:port, event `started`, and - when others > limit - random offsets covering its slot",
  demo="demo/crates/udp/tests/seeded_demo.rs",
  caught_by=[caught("C02", "random", "peer-list-contains-requester"), caught("C01", "hist", "announce-counts", note="with this change the first C01 run did not end within 20 min: proptest stepped back through up to a million flat-map regenerations after the shrink budget - since then max_flat_map_regens = 2000 and a shrinking budget of 120 s; the run now reports the violation after 42 s")],
 ),
 "C03b": dict(
  worktree="/tmp/seed4-C03",
  summary="CanonicalSocketAddr::new uses `ip.to_ipv4()` (guarded by !is_loopback) instead of the ::ffff:a.b.c.d pattern: the deprecated IPv4-compatible block ::a.b.c.d is folded into IPv4 as well",
  needs="a source address in ::/96 other than ::1 and :: (UDP datagram source, HTTP TCP peer or reverse-proxy header address); every other address behaves as before",
  demo="demo/crates/udp/tests/seeded_demo.rs and demo/crates/http/tests/seeded_demo.rs",
  caught_by=[caught("C03", "canonical", "canonical-addr")],
 ),
 "C04b": dict(
  worktree="/tmp/seed4-C04",
  summary="udp TorrentMapShards::announce: get-or-create of the peer map is a plain read() lookup followed, on a miss, by write().insert(new Arc) - two announces of one unknown torrent can both miss and the second insert replaces the first thread's map",
  needs="two threads announcing the same info hash that is not (or no longer) in the map, interleaved read-miss, read-miss, insert, insert: an acknowledged announce is lost; sequential use and known torrents unaffected",
  demo="demo/crates/udp/tests/seeded_demo.rs (4 announcers released together per round, scraper, cleaner)",
  caught_by=[caught("C04", "stress", "not-linearizable", note="the new lock-free gap has no probe point, so the owned-schedule enumeration cannot reach it; the free-running bursts do, and since decision-log row 26 one sound observation decides")],
 ),
 "C05b": dict(
  worktree="/tmp/seed4-C05",
  summary="ConnectionValidator::connection_id_valid compares in u32: `client_elapsed.checked_add(max_connection_age).is_some_and(..)` - an expiry time that overflows u32 now means 'rejected' instead of 'never expires'",
  needs="issue time + max_connection_age > u32::MAX: max_connection_age near u32::MAX with an id issued at second >= 1, or an ordinary age with an issue time in the last seconds of the u32 clock",
  demo="demo.diff (unit tests in crates/udp/src/workers/socket/validator.rs)",
  caught_by=[caught("C05", "window", "valid-id-rejected")],
 ),
 "C06b": dict(
  worktree="/tmp/seed4-C06",
  summary="udp handle_request (mio and io_uring): the access-list lookup runs before the connection-id check, so an announce for a refused info hash gets the 'Info hash not allowed' error reply whatever its connection id",
  needs="access list in deny or allow mode, an announce for a refused hash, and a connection id that is not valid for the source (forged, zero, stale, issued to another address)",
  demo="demo/crates/udp/tests/seeded_demo.rs",
  caught_by=[caught("C06", "datagrams", "reply-without-valid-id-or-to-malformed", note="missed at first (no tracker of the C06 pool ran with an access list; C11's end-to-end round only uses valid ids). Caught after trackers with deny / allow list files covering every case's torrents were added to the pool")],
 ),
 "C07b": dict(
  worktree="/tmp/seed4-C07",
  summary="http LargePeerMap::clean_and_get_num_peers: the retain closure no longer decrements the cached num_seeders when an expired seeder is dropped",
  needs="heap representation (>= 5 peers), a cleaning pass that removes a seeder while another peer of the torrent survives, then any announce or scrape of it",
  demo="demo.diff (unit tests in crates/http/src/workers/swarm/storage.rs)",
  caught_by=[caught("C07", "hist", "panic", note="arithmetic overflow in num_seeders_leechers under the harness's overflow checks")],
 ),
})

T.update({
 "C08b": dict(
  worktree="/tmp/seed4-C08",
  summary="ws ConnectionReader::handle_announce_request (socket worker): for an occupied entry and event `stopped` the per-connection record of the torrent is removed *before* the peer id is compared, so a `stopped` announce with another peer id is no longer refused and erases the clean-up record of the first id",
  needs="one connection: announce (T, P), announce (T, P2 != P, stopped), close - P stays stored and counted until it ages out; invisible at storage level",
  demo="demo/crates/ws/tests/seeded_demo.rs",
  caught_by=[caught("C17", "ws", "second-peer-id-not-refused", note="C08 itself drives the storage through a harness shim of the socket worker's bookkeeping and cannot see a change in connection.rs (exit 0); the end-to-end check C17 covers the same clause (clean-up on close) against the real socket workers")],
 ),
 "C09b": dict(
  worktree="/tmp/seed4-C09",
  summary="ws TorrentMap::handle_announce_request truncates the offers to the request's `numwant` before forwarding them (first attempt of this agent was byte-for-byte the round-1 C17 change and was rejected)",
  needs="an announce with offers and a numwant that is present and smaller than min(offers, max_offers, other peers) - clients send numwant = number of offers",
  demo="demo.diff (unit test in crates/ws/src/workers/swarm/storage.rs)",
  caught_by=[caught("C09", "signalling", "offers-too-few", note="missed by construction before: the harness always sent numwant = number of offers. Caught after WS histories got numwant variants (absent, 0, 1, usize::MAX, one less than the offers)")],
 ),
 "C10b": dict(
  worktree="/tmp/seed4-C10",
  summary="ws handle_offers: `expecting_answers.entry(..).or_insert(valid_until)` - a re-sent offer that is still pending keeps its first deadline",
  needs="the same peer announcing the same offer id again at least one clock second later, the same receiver chosen, no answer in between, a cleaning pass in [t_first + max_offer_age, t_last + max_offer_age) and the answer after it",
  demo="demo.diff (unit test in crates/ws/src/workers/swarm/storage.rs)",
  caught_by=[caught("C10", "ws", "answer-not-forwarded"), caught("C09", "signalling", "answer-not-forwarded")],
 ),
 "C11b": dict(
  worktree="/tmp/seed4-C11",
  summary="AccessListArcSwap::update skips the swap when `new.difference(old)` is empty - a reload whose new list is a subset of the list in force is silently ignored",
  needs="a successful reload that only removes entries (or empties the file): allow mode keeps admitting the removed hash and cleaning keeps its torrent, deny mode keeps refusing it",
  demo="demo.diff (unit tests in crates/common/src/access_list.rs) and demo/crates/udp/tests/access_list_reload.rs",
  caught_by=[caught("C11", "reload", "decision-differs")],
 ),
 "C12b": dict(
  worktree="/tmp/seed4-C12",
  summary="ws_protocol json_nesting_too_deep: the `escaped` flag is replaced by 'previous byte is not a backslash', so a string ending in an escaped backslash (\"C:\\\\\") leaves the scanner inside a string for the rest of the message and the depth limit never fires",
  needs="a message below 64 KiB with a string value ending in `\\\\` followed by a key whose value is nested tens of thousands deep: stack overflow (SIGABRT) in the recursive deserialiser on a 2 MiB worker stack",
  demo="demo/crates/ws_protocol/tests/seed_c12_demo.rs",
  caught_by=[caught("C12", "nesting", "stack-overflow-or-abort", note="missed at first (deep nesting was only generated plain or directly behind ordinary fields; 660000 libFuzzer runs did not find the combination either). Caught after lexical decoys were put in front of the nesting: strings ending in an escaped backslash, escaped quotes, brackets inside strings, \\u escapes, bencode strings made of structure letters; alternating and whitespace-separated shapes; the same inputs also over real sockets")],
 ),
 "C13b": dict(
  worktree="/tmp/seed4-C13",
  summary="udp_protocol Request::parse_bytes dispatches on the last byte of the action field only (`bytes.get(11)`): unknown actions congruent to 0 or 2 mod 256 parse as connect / scrape",
  needs="an unknown action such as 256, 65536, i32::MIN (-> connect) or 258, 0x01000002 (-> scrape) with a payload valid for that kind; 3, 4, 255, -1 are still rejected",
  demo="demo/crates/udp_protocol/tests/seeded_demo.rs",
  caught_by=[caught("C13", "codec", "decode-accepted-malformed")],
 ),
 "C14b": dict(
  worktree="/tmp/seed4-C14",
  summary="http_protocol Request::parse_http_get_path splits location and query with `rsplit_once('?')`: a raw '?' (0x3f) inside the query - e.g. as an identifier byte - makes the request unparsable",
  needs="the single byte 0x3f sent raw in info_hash, peer_id, key or an unknown key's value; %3f and every other raw byte still work; Request::write always escapes it",
  demo="demo/crates/http_protocol/tests/seeded_demo.rs",
  caught_by=[caught("C14", "codec", "identifier-rejected")],
 ),
 "C15b": dict(
  worktree="/tmp/seed4-C15",
  summary="ws_protocol AnnounceResponse: #[serde(default)] on complete / incomplete / interval - in the untagged OutMessage enum an error reply carrying action = announce and an info_hash now decodes as an AnnounceResponse with zeros",
  needs="an ErrorResponse with action announce and info_hash present (what the tracker sends for an answer whose offer expired) decoded through OutMessage; other error replies unaffected",
  demo="demo/crates/ws_protocol/tests/seeded_demo.rs",
  caught_by=[caught("C15", "codec", "roundtrip-mismatch")],
 ),
 "C16b": dict(
  worktree="/tmp/seed4-C16",
  summary="http read_request skips parse_request until `\\r\\n\\r\\n` is found - searching only the bytes of the latest read, not the accumulated buffer",
  needs="a request split across TCP segments inside its final four bytes, with a pause between the segments: never parsed, no reply until the idle cleaner closes the connection",
  demo="demo/crates/http/tests/seeded_demo.rs",
  caught_by=[caught("C16", "http", "no-reply")],
 ),
 "C17b": dict(
  worktree="/tmp/seed4-C17",
  summary="ws ConnectionReader::handle_announce_request: new first match arm `Entry::Occupied(entry) if event == Stopped => entry.remove()` shadows the peer-id comparison (independently written, same mechanism as C08b)",
  needs="one connection: announce (T, P1), announce (T, P2 != P1, stopped), close or drop - no ConnectionClosed is sent for T, P1 stays in counts and offer routing until max_peer_age",
  demo="demo/crates/ws/tests/seeded_demo.rs",
  caught_by=[caught("C17", "ws", "second-peer-id-not-refused")],
 ),
 "C18b": dict(
  worktree="/tmp/seed4-C18",
  summary="udp start-up validation: `response_peer_len = if config.network.use_ipv4 { 6 } else { 18 }` - a dual-stack tracker validates max_response_peers with 6-byte peers and accepts up to 1362 instead of 454",
  needs="use_ipv4 and use_ipv6 both on (default), max_response_peers >= 456, more than 454 IPv6 peers in one torrent and an IPv6 announce asking for all: the 8228-byte reply does not fit the 8192-byte buffer and is dropped",
  demo="demo/crates/udp/tests/seeded_demo.rs",
  caught_by=[caught("C18", "configs", "reply-dropped", note="missed at first: every UDP configuration had both address families on, where the 18-byte peer size makes the tracker refuse all values near the IPv4 boundaries (338 / 1362), so the IPv4 arithmetic was never exercised. Caught after the IPv4 windows were run against trackers with use_ipv6 = false")],
 ),
 "C19b": dict(
  worktree="/tmp/seed4-C19",
  summary="aquatic_udp::run supervision loop: indices of all finished handles are collected first and then removed in ascending order - after the first removal the others are off by one, so a live neighbour is joined (run blocks for ever) or the index is out of range (panic)",
  needs="two or more workers found finished in the same supervision pass (passes are 5 s apart), e.g. socket_workers >= 2 with an address no socket worker can bind; a single dying worker is handled correctly",
  demo="demo/crates/udp/tests/seeded_demo.rs",
  caught_by=[caught("C19", "faults", "tracker-kept-running", note="missed by the quick tier at first: the grid contains the unbindable-address case with two socket workers, but the quick tier runs a seed-rotated third of the grid and seed 0 did not pick it (the thorough tier runs it). Cases in which several workers stop within one supervision pass (nothing can bind with 2-4 socket workers; the fault armed in every worker of a kind at once) are now always run in both tiers")],
 ),
 "C20b": dict(
  worktree="/tmp/seed4-C20",
  summary="udp PeerMap::announce: the 'peer id changed' branch compares only the first 8 bytes - a re-announce under a new id with the same client prefix sends no PeerRemoved(old) / PeerAdded(new); the statistics worker keys by the full id and ignores the later PeerRemoved(new)",
  needs="statistics.peer_clients on, one (ip, port) announcing with id A, then with B where A[..8] == B[..8] and A != B, then stopping or expiring: a phantom per-client tally remains",
  demo="demo/crates/udp/tests/seeded_demo.rs",
  caught_by=[caught("C20", "histories:regress", "client-tallies", note="missed at first: the generated peer ids all had different 8-byte client prefixes. Neighbouring generator indices now share the prefix (a client rotating its id); with that the kept F4 regression case (re-announce under a new id, then expiry) fails at once, and so do generated histories")],
 ),
})

# ---- third round: eight changes aimed at the HTTP / WebTorrent trackers and the parts of the
# multi-tracker properties that rounds 1-2 had not touched
T.update({
 "C02c": dict(
  worktree="/tmp/seed5-C02",
  summary="http upsert_peer_and_get_response_peers: absent / zero numwant means min(50, max_peers) instead of max_peers",
  needs="protocol.max_peers above 50 (default is exactly 50), an announce without numwant (or numwant=0) and more than 50 other members",
  demo="demo.diff (unit tests in crates/http/src/workers/swarm/storage.rs)",
  caught_by=[caught("C02", "random", "peer-list-incomplete"), caught("C07", "big-swarm", "observe-set", note="the big-swarm sub-check added after round 1")],
 ),
 "C03c": dict(
  worktree="/tmp/seed5-C03",
  summary="ws IpVersion::canonical_from_ip as an integer compare `(u128::from(addr) >> 32) as u64 == 0xffff`: the cast drops the top 32 bits of the 96-bit prefix, so X:Y:0:0:0:ffff:a:b counts as IPv4",
  needs="an IPv6 source of exactly that shape with X:Y non-zero (a uniformly random address hits it with probability 2^-64)",
  demo="demo.diff (unit tests in crates/ws/src/workers/swarm/storage.rs)",
  caught_by=[caught("C03", "canonical", "ws-ip-version")],
 ),
 "C10c": dict(
  worktree="/tmp/seed5-C10",
  summary="http LargePeerMap::clean_and_get_num_peers removes `drain(..partition_point(expired))`, assuming the map is ordered by deadline; swap_remove on re-announce breaks the order",
  needs="heap representation, a re-announce of a peer that is not the last entry, distinct deadlines, a cleaning pass between the deadlines of the out-of-order entries",
  demo="demo.diff (unit tests in crates/http/src/workers/swarm/storage.rs)",
  caught_by=[caught("C10", "http", "observe-set"), caught("C07", "hist", "observe-set")],
 ),
 "C11c": dict(
  worktree="/tmp/seed5-C11",
  summary="http TorrentMap::clean skips the per-torrent access-list lookup unless `mode.is_on() && list.len() > 0`: an empty allow list (which forbids everything) removes nothing",
  needs="http tracker, allow mode, torrents stored under a non-empty list, a successful reload to an empty (or blank-lines-only) file, then a cleaning pass",
  demo="demo.diff (unit tests in crates/http/src/workers/swarm/storage.rs)",
  caught_by=[caught("C11", "http-storage", "torrent-count-after-clean")],
 ),
 "C12c": dict(
  worktree="/tmp/seed5-C12",
  summary="peer_id crate, webtorrent(): version characters converted with `c.to_digit(10).unwrap()`; the accepting regex only guarantees digits for the first three",
  needs="a peer id `-WW` / `-WD` + three digits + a letter (e.g. -WW010r-...) reaching PeerId::client() (UDP statistics worker with peer_clients on; ws with metrics)",
  demo="demo/crates/peer_id/tests/c12_demo.rs",
  caught_by=[caught("C12", "mutations", "parser-panic")],
 ),
 "C18c": dict(
  worktree="/tmp/seed5-C18",
  summary="http max_peers_fitting_response_buffer picks the peer size from use_ipv4 (6 bytes) on a dual-stack tracker: max_peers up to 1322 accepted, an IPv6 announce among > ~448 IPv6 peers overflows the 8192-byte buffer (patch.diff is rebased on the F16 fix, which rewrote the same expression; the agent's original is patch-as-written-before-F16.diff)",
  needs="use_ipv4 and use_ipv6 on, max_peers in 441..1322, an IPv6 client and a swarm of more than ~448 IPv6 peers",
  demo="demo/crates/http/tests/seeded_demo.rs",
  caught_by=[caught("C18", "configs", "reply-dropped", note="both the patch as written (before F16) and the rebased one; the agent's notes also pointed at the remaining hole in the original validation that became finding F16")],
 ),
 "C19c": dict(
  worktree="/tmp/seed5-C19",
  summary="aquatic_http::run: the same 'collect the finished indices, then remove them in ascending order' refactor as C19b, in the HTTP tracker",
  needs="two or more workers finished within one 5 s sweep, e.g. socket_workers = 2 and an address that is already in use",
  demo="demo/crates/http/tests/seeded_demo.rs",
  caught_by=[caught("C19", "faults", "tracker-kept-running", note="by the simultaneous-death cases added after C19b")],
 ),
 "C20c": dict(
  worktree="/tmp/seed5-C20",
  summary="udp scrape export: `<path>.tmp` opened with OpenOptions write+create but without truncate",
  needs="an interrupted export that leaves a temporary file with content (kill between flush and rename, or in the middle of a large export), a restart with fewer torrents, and the next export: its head is the new lines, its tail the stale ones",
  demo="demo/crates/udp/tests/seeded_demo.rs",
  caught_by=[caught("C20", "crash-points", "export-partial-or-missing", note="missed at first: the crash-point sub-check judged the path right after the abort but never let the tracker export again. Caught after a restart with a smaller state and a second export to the same path were added to every abort case")],
 ),
})

# round 4 (fourth session): changes asked to sit in worker / glue code rather than in the storage
# modules; suffix d. Only entries whose verify-result.txt exists get a meta.json.
T.update({
 "C03d": dict(
  worktree="/tmp/seed7-C03",
  summary="mio UDP socket: `Socket<Ipv6>` canonicalises IPv4-mapped sources only when `!(set_only_ipv6 || ipv4_active())` (new `CanonicalSocketAddr::new_native` otherwise) - the belief that IPv4 traffic always goes to the IPv4 socket when there is one",
  needs="mio back end, IPv4 socket and a dual-stack IPv6 socket (set_only_ipv6 = false) that do not cover the same address/port (e.g. address_ipv4 = 127.0.0.1, address_ipv6 = [::]), and an IPv4 host reaching the IPv6 socket: it is stored as the IPv6 peer ::ffff:a.b.c.d",
  demo="demo/crates/udp/tests/seeded_demo.rs",
  caught_by=[caught("C03", "e2e", "stored-address-wrong", note="missed at first: the e2e socket configurations were IPv4 + IPv6-only, IPv4 only, IPv6 only and dual-stack alone. Caught after the configuration 'IPv4 socket on 127.0.0.1 next to a dual-stack IPv6 socket on [::]' was added, with an IPv4 client addressing 127.0.0.2")],
 ),
 "C05d": dict(
  worktree="/tmp/seed7-C05",
  summary="mio socket worker: `if events.is_empty() { continue; }` right after poll - idle wake-ups no longer advance iter_counter, so update_elapsed / the peer_valid_until refresh only run every 256 *busy* iterations",
  needs="mio back end and a quiet worker (fewer than 256 readable wake-ups during more than max_connection_age seconds), then re-use of an id issued before: it is still accepted; the same change makes peers announced on a quiet worker expire early (C10, found independently by the C10 agent, byte for byte the same patch)",
  demo="demo/crates/udp/tests/seeded_demo.rs",
  caught_by=[caught("C05", "wire-window", "expired-id-accepted-on-wire", note="caught by the sub-check added in this session before the change was read (ids against real time on running trackers); every earlier check set the validator's clock by hand and would have missed it"),
             caught("C10", "e2e-clock", "reannounce-did-not-refresh / peer-expired-early")],
 ),
 "C06d": dict(
  worktree="/tmp/seed7-C06",
  summary="mio socket: send_response takes &Response, resend_failed iterates the swapped-out queue by reference instead of draining it - the swap at the end puts every already-resent reply back into the queue",
  needs="mio back end, network.resend_buffer_max_len > 0 (default 0) and a reply whose sendto fails with EAGAIN / ENOBUFS (never on loopback): that reply is then sent again on every loop iteration for ever",
  demo="demo/crates/udp/tests/seeded_demo.rs",
  caught_by=[caught("C06", "send-faults", "reply-duplicated", note="missed by construction before this session (DESIGN listed the resend queue as unreachable on loopback). Caught after the send-faults sub-check was added: a child process hosting the tracker runs under strace, which makes chosen sendto calls fail")],
 ),
 "C11d": dict(
  worktree="/tmp/seed7-C11",
  summary="AccessListArcSwap::update returns Ok without reading the file when its modification time and size equal those of the file the list in force was loaded from",
  needs="a reload whose file differs in content but not in mtime and length (same number of entries; deployed with preserved / normalised mtimes, or replaced within one timestamp tick)",
  demo="demo/crates/udp/tests/seeded_demo.rs",
  caught_by=[caught("C11", "reload", "decision-differs", note="the generator class 'previous file with one entry replaced, deployed with a fixed modification time and renamed into place' had been added an hour before this run after reading the agent's notes; the older generator rewrote files in place within microseconds and would have caught it only when two independently drawn files happened to have the same length")],
 ),
 "C12d": dict(
  worktree="/tmp/seed7-C12",
  summary="http_protocol ResponsePeersIpv6Visitor: length check copied from the IPv4 visitor (`len % 6`), data split with chunks(18) / split_at(16)",
  needs="a tracker reply read by the client library whose peers6 string has a length that is a multiple of 6 but not of 18: slice index panic",
  demo="demo/crates/http_protocol/tests/seeded_demo.rs",
  caught_by=[caught("C12", "mutations", "parser-panic", note="missed at first (also by the libFuzzer stage): every generated reply had whole 18-byte entries and mutations broke the bencode length prefix instead of the entry size. Caught after replies with compact peer strings of every byte length (consistent length prefix) were added to the base messages and fuzz seeds")],
 ),
 "C13d": dict(
  worktree="/tmp/seed7-C13",
  summary="udp_protocol Request::parse_bytes: port 0 accepted when the event is 'stopped'",
  needs="an announce with event = 3 and port = 0",
  demo="demo/crates/udp_protocol/tests/seeded_demo.rs",
  caught_by=[caught("C13", "codec", "decode-accepted-malformed")],
 ),
 "C14d": dict(
  worktree="/tmp/seed7-C14",
  summary="http_protocol AnnounceResponse::write_bytes: compact peers batched through a 2048-byte stack buffer whose chunk size forgets the 2 port bytes; `write` on the slice truncates silently",
  needs="an announce reply with more than 341 IPv4 or more than 113 IPv6 peers",
  demo="demo/crates/http_protocol/tests/seeded_demo.rs",
  caught_by=[caught("C14", "codec", "encode-mismatch")],
 ),
 "C15d": dict(
  worktree="/tmp/seed7-C15",
  summary="ws_protocol InMessage::from_ws_message parses in a thread-local buffer that is cleared only after a successful parse",
  needs="one message that fails to deserialize: every later message decoded on that thread is appended to the garbage and rejected",
  demo="demo/crates/ws_protocol/tests/seeded_demo.rs",
  caught_by=[caught("C15", "codec", "id-rejected")],
 ),
 "C16d": dict(
  worktree="/tmp/seed7-C16",
  summary="http swarm worker: one `torrents.borrow_mut()` hoisted above the match and held across the awaits that send the reply",
  needs="socket_workers >= 2 and requests of two socket workers interleaving at one swarm worker (or the cleaning timer firing in the window): RefCell already borrowed, swarm worker dies",
  demo="demo/crates/http/tests/seeded_demo.rs",
  caught_by=[caught("C16", "http", "tracker-died")],
 ),
 "C17d": dict(
  worktree="/tmp/seed7-C17",
  summary="ws ConnectionReader::handle_announce_request: entry API replaced by HashMap::insert + comparison with the previous value - a refused second peer id overwrites the connection's clean-up record",
  needs="a connection that registered peer P1 for a torrent announces it with P2: refused and closed as before, but ConnectionClosed names P2 and P1's entry stays until it expires",
  demo="demo/crates/ws/tests/seeded_demo.rs",
  caught_by=[caught("C17", "ws", "closed-connection-left-peers", note="reported by the replay of the kept F12 regression case (second peer id on one connection) at the start of the run")],
 ),
 "C20d": dict(
  worktree="/tmp/seed7-C20",
  summary="udp cleaning phase 1: `peer_map.try_write()` and `continue` when the torrent is busy - the pass reports no peers and no export line for it",
  needs="a socket worker holding a torrent's peer-map lock at the instant the cleaning thread reaches it (microseconds per announce): only under concurrent announces on a hot torrent",
  demo="demo/crates/udp/tests/seeded_demo.rs",
  caught_by=[caught("C20", "constant-swarm-under-load", "totals-differ-under-load", note="missed at first: histories are single-threaded, the owned-schedule driver of C04 never parks a thread that holds a lock, and free-running bursts rarely hit the window. Caught after the constant-swarm sub-check was added (a fixed peer set re-announced by free-running threads while thousands of cleaning passes run; every pass must report exactly it); also run by C04")],
 ),
 "C02d": dict(
  worktree="/tmp/seed7-C02",
  summary="udp SmallPeerMap::extract_response_peers lost its limit parameter and returns every inline peer",
  needs="a torrent in the inline representation with two peers other than the announcer and an effective limit of 1 (numwant 1 or max_response_peers 1)",
  demo="demo/crates/udp/tests/seeded_demo.rs",
  caught_by=[caught("C02", "random", "peer-list-over-limit")],
 ),
 "C04d": dict(
  worktree="/tmp/seed7-C04",
  summary="udp scrape collects one shard read guard per requested hash up front and keeps them to the end: recursive read lock on a parking_lot RwLock",
  needs="a scrape naming two hashes of one shard (or two scrapes naming shards in opposite order) and a writer (announce of an unknown torrent, cleaning phase 2) arriving between the two acquisitions: deadlock",
  demo="demo/crates/udp/tests/seeded_demo.rs",
  caught_by=[caught("C04", "stress", "deadlock", note="the free-running bursts hit the window (scrape of two hashes of one shard against a pending writer); in the owned-schedule driver the probe scrape:next_hash now fires with a lock held, which that driver reports as undecided (running thread blocked on a parked one), not as a violation")],
 ),
 "C08d": dict(
  worktree="/tmp/seed7-C08",
  summary="ws storage: the ownership check is applied only while the stored entry's valid_until is still in the future",
  needs="an entry that has outlived max_peer_age but has not been cleaned yet, and an announce with its peer id from another connection in that window",
  demo="demo/crates/ws/tests/seeded_demo.rs",
  caught_by=[caught("C08", "hist", "non-owner-announce-answered")],
 ),
 "C09d": dict(
  worktree="/tmp/seed7-C09",
  summary="ws handle_offers trims the sender's expecting_answers map from the front to max_offers entries",
  needs="one peer accumulating more than max_offers forwarded, unanswered, unexpired offers over several announces, then an answer to one of the oldest",
  demo="demo/crates/ws/tests/seeded_demo.rs",
  caught_by=[caught("C09", "signalling / small-scope", "see results_lines")],
 ),
 "C18d": dict(
  worktree="/tmp/seed7-C18",
  summary="udp run(): the start-up validation of max_response_peers computes the largest announce reply with the 8-byte scrape header instead of the 20-byte announce header",
  needs="max_response_peers = 1363 (mio, IPv4) or the corresponding boundary values for IPv6 / io_uring: accepted, and the full reply is 12 bytes too long for the buffer",
  demo="demo/crates/udp/tests/seeded_demo.rs",
  caught_by=[caught("C18", "configs", "reply-dropped", note="missed at first: every UDP configuration had both address families on, where the 18-byte peer size makes the tracker refuse all values near the IPv4 boundaries (338 / 1362), so the IPv4 arithmetic was never exercised. Caught after the IPv4 windows were run against trackers with use_ipv6 = false")],
 ),
 "C19d": dict(
  worktree="/tmp/seed7-C19",
  summary="udp run(): workers notify the supervising thread after their closure has returned; the supervision loop blocks in recv_timeout(60 s) instead of polling every 5 s",
  needs="a worker that panics (the notification is ordinary code after f() and is skipped by unwinding), or the prometheus thread stopping: run() notices only at the 60 s fallback",
  demo="demo/crates/udp/tests/seeded_demo.rs",
  caught_by=[caught("C19", "faults", "tracker-kept-running")],
 ),
})

def main():
    results = open(os.path.join(V, "mutants/RESULTS.txt")).read().splitlines()
    for pid, t in T.items():
        if t is None:
            continue
        d = os.path.join(V, "seeded", pid)
        vr = os.path.join(d, "verify-result.txt")
        if not os.path.exists(vr):
            print("skip", pid, "(not verified yet)")
            continue
        res = open(vr).read().strip()
        prop = pid[:3]
        n = "4" if pid.endswith("d") else "3" if pid.endswith("c") else ("2" if pid.endswith("b") else "1")
        lines = [l for l in results if re.search(r"\b%s(\+C\d\d)*-seeded%s" % (prop, n), l) or re.search(r"C\d\d\+%s-seeded%s" % (prop, n), l) or (n == "1" and ("seeded-%s" % prop.lower()) in l)]
        meta = {
            "property": prop,
            "source": "written by an independent sub-agent given only the property text and pointers into the repository (worktree %s)" % t["worktree"],
            "summary": t["summary"],
            "needs": t["needs"],
            "demo": t["demo"] + ": fails with the change, passes without",
            "caught_by": t["caught_by"],
            "confirmed_by_me": {
                "how": "bin/seeded-verify in scratch worktree /var/tmp/verif-seed of /repo HEAD: demo on unchanged tree, demo with patch, `cargo test --workspace --no-fail-fast --offline` with patch",
                "result": res,
                "logs": ["demo-without-change.log", "demo-with-change.log", "suite-with-change.log"],
            },
            "ran_against_my_checks": "bin/mutants-bg (scratch worktree /var/tmp/verif-mut): patch applied, harness rebuilt, quick tier of the named checks",
            "results_lines": lines,
        }
        if t.get("extra"):
            meta["note"] = t["extra"]
        json.dump(meta, open(os.path.join(d, "meta.json"), "w"), indent=1)
        # trim the suite log to its summary lines
        sl = os.path.join(d, "suite-with-change.log")
        if os.path.exists(sl) and os.path.getsize(sl) > 20000:
            keep = [l for l in open(sl, errors="replace") if re.search(r"test result|Running|FAILED|failed|^passed|^exit|panicked", l)]
            open(sl, "w").write("(trimmed to summary lines)\n" + "".join(keep))
        print("wrote", pid)

if __name__ == "__main__":
    main()
