//! libFuzzer front end for the C12 entry functions (shared with the vcheck harness by path).

#[path = "../../harness/src/alloc.rs"]
pub mod alloc;
#[path = "../../harness/src/entries.rs"]
pub mod entries;

/// shim for the one helper entries.rs takes from the harness
pub mod udpdrv {
    use std::path::PathBuf;
    use std::sync::OnceLock;
    static TMPDIR: OnceLock<tempfile::TempDir> = OnceLock::new();
    pub fn thread_tmp_path(name: &str) -> PathBuf {
        TMPDIR
            .get_or_init(|| tempfile::Builder::new().prefix("vfuzz-").tempdir_in("/dev/shm").or_else(|_| tempfile::tempdir()).expect("tempdir"))
            .path()
            .join(name)
    }
}

#[global_allocator]
static GLOBAL: alloc::Counting = alloc::Counting;

/// One fuzz iteration: the input runs on a thread with the 2 MiB stack a tracker worker has, so
/// deep recursion overflows as it would in production; panics and allocation-bound violations
/// abort (libFuzzer then saves the input).
pub fn iteration(entry: &'static str, data: &[u8]) {
    entries::warm_up();
    let data = data.to_vec();
    let h = std::thread::Builder::new()
        .stack_size(2 * 1024 * 1024)
        .spawn(move || {
            let (_, allocated, largest) = alloc::measure(|| entries::run_entry(entry, &data));
            let bound = 128 * data.len() as u64 + 64 * 1024;
            if allocated > bound {
                panic!("allocation bound: {allocated} bytes (largest {largest}) for {} input bytes, bound {bound}", data.len());
            }
        })
        .expect("spawn");
    if h.join().is_err() {
        std::process::abort();
    }
}
