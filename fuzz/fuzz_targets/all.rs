#![no_main]
use libfuzzer_sys::fuzz_target;
use std::sync::OnceLock;

static ENTRY: OnceLock<&'static str> = OnceLock::new();

fn entry() -> &'static str {
    ENTRY.get_or_init(|| {
        let e = std::env::var("VFUZZ_ENTRY").unwrap_or_else(|_| "udp_request".to_string());
        vfuzz::entries::ENTRIES
            .iter()
            .copied()
            .find(|x| *x == e)
            .unwrap_or_else(|| panic!("unknown VFUZZ_ENTRY {e}"))
    })
}

fuzz_target!(|data: &[u8]| {
    vfuzz::iteration(entry(), data);
});
