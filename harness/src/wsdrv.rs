//! Driver for aquatic_ws's swarm storage (verif_api re-export) against the WebTorrent model W.
//! Shared by C08, C09, C10 (ws part), C11 (ws storage).
//!
//! A thin shim reproduces what the socket worker's ConnectionReader / ConnectionCleanupData do
//! between a connection and storage (per-connection info_hash -> peer_id map, refusal of a second
//! peer id, (info_hash, peer_id) pairs on close), so storage receives the calls a running tracker
//! would make. C17 runs the same kind of histories against a running tracker.

use std::collections::{BTreeMap, BTreeSet};
use std::sync::Arc;

use aquatic_common::access_list::{AccessList, AccessListArcSwap, AccessListMode};
use aquatic_common::ServerStartInstant;
use aquatic_ws::common::*;
use aquatic_ws::config::Config;
use aquatic_ws::workers::swarm::verif_api::TorrentMaps;
use aquatic_ws_protocol::common::*;
use aquatic_ws_protocol::incoming::*;
use aquatic_ws_protocol::outgoing::*;
use proptest::prelude::*;
use rand::rngs::SmallRng;
use rand::SeedableRng;
use serde::{Deserialize, Serialize};
use slotmap::{DenseSlotMap, Key};

use crate::engine::{CaseResult, Outcome, Violation};
use crate::models::{hash_for, Hash20};
use crate::udpdrv::hex;
use crate::{vensure, vfail};

pub const WS_TORRENTS: u8 = 3;
pub const WS_WORKERS: u8 = 3;

pub fn ws_hash(t: u8) -> Hash20 {
    hash_for(t, [0x00u8, 0x01, 0x02, 0x03, 0x04][(t as usize) % 5])
}
pub fn ws_pid(p: u8) -> Hash20 {
    let mut id = [b'p'; 20];
    id[19] = p;
    id[0] = 0xf0 + (p % 8); // non-ASCII byte: ids are binary
    id
}
pub fn ws_offer_id(o: u8) -> Hash20 {
    let mut id = [b'o'; 20];
    id[19] = o;
    id
}

#[derive(Debug, Clone, Serialize, Deserialize, PartialEq)]
pub enum WsOp {
    Open {
        worker: u8,
        v6: bool,
    },
    Announce {
        conn: u8,
        t: u8,
        pid: u8,
        /// 0 absent, 1 started, 2 stopped, 3 completed, 4 update
        event: u8,
        /// None, Some(0), Some(k)
        left: Option<u64>,
        /// offer ids; None = field absent
        offers: Option<Vec<u8>>,
        /// (addressed peer id, offer id)
        answer: Option<(u8, u8)>,
        /// use the peer id this connection already uses for the torrent, if any
        #[serde(default)]
        sticky: bool,
        /// the request's numwant field: 0 = number of offers (what clients send), 1 absent,
        /// 2 Some(0), 3 Some(1), 4 Some(usize::MAX), 5 one less than the number of offers
        #[serde(default)]
        numwant: u8,
    },
    /// the receiver of an earlier forwarded offer answers it (resolved by the interpreter from
    /// the offers actually forwarded so far); `keep` leaves it pending so it is answered twice
    AnswerPending {
        pick: u8,
        keep: bool,
    },
    Scrape {
        conn: u8,
        /// None = field absent; Some((single, torrents))
        hashes: Option<(bool, Vec<u8>)>,
    },
    Close {
        conn: u8,
    },
    Tick {
        dt: u32,
    },
    Clean {
        dt: u32,
    },
    SetAccessList {
        listed: Vec<u8>,
    },
}

#[derive(Debug, Clone, Serialize, Deserialize, PartialEq)]
pub struct WsCase {
    pub max_offers: usize,
    pub max_scrape_torrents: usize,
    pub max_peer_age: u32,
    pub max_offer_age: u32,
    pub rng_seed: u64,
    pub access_mode: u8,
    pub ops: Vec<WsOp>,
}

#[derive(Debug, Clone, Copy, PartialEq, Eq, PartialOrd, Ord)]
pub struct ConnRef {
    pub worker: u8,
    pub key: u64,
}

#[derive(Debug, Clone)]
struct WEntry {
    owner: ConnRef,
    seeder: bool,
    deadline: u64,
    expecting: BTreeMap<(Hash20, Hash20), u64>,
}

#[derive(Debug, Clone)]
struct Conn {
    r: ConnRef,
    id: ConnectionId,
    v6: bool,
    open: bool,
    announced: BTreeMap<Hash20, Hash20>,
}

fn event_of(e: u8) -> Option<AnnounceEvent> {
    match e % 5 {
        0 => None,
        1 => Some(AnnounceEvent::Started),
        2 => Some(AnnounceEvent::Stopped),
        3 => Some(AnnounceEvent::Completed),
        _ => Some(AnnounceEvent::Update),
    }
}

#[derive(Debug, Clone, Copy, Default)]
pub struct WsOracles {
    /// C09 detail: check the i-th forwarded offer carries the i-th offer's id and sdp etc.
    pub signalling: bool,
    pub access_list: bool,
}

pub fn run_ws_case(case: &WsCase, oracles: WsOracles) -> CaseResult {
    let mut out = Outcome::default();
    let mut config = Config::default();
    config.protocol.max_offers = case.max_offers;
    config.protocol.max_scrape_torrents = case.max_scrape_torrents;
    config.cleaning.max_peer_age = case.max_peer_age;
    config.cleaning.max_offer_age = case.max_offer_age;
    config.access_list.mode = match case.access_mode % 3 {
        0 => AccessListMode::Off,
        1 => AccessListMode::Allow,
        _ => AccessListMode::Deny,
    };
    let mode = case.access_mode % 3;
    let mut listed: BTreeSet<Hash20> = BTreeSet::new();
    let allowed = |listed: &BTreeSet<Hash20>, hsh: &Hash20| match mode {
        0 => true,
        1 => listed.contains(hsh),
        _ => !listed.contains(hsh),
    };
    let access_list = Arc::new(AccessListArcSwap::default());
    let mut maps = TorrentMaps::new(0);
    let mut rng = SmallRng::seed_from_u64(case.rng_seed);
    let start = ServerStartInstant::new();
    let mut slotmaps: Vec<DenseSlotMap<ConnectionId, ()>> =
        (0..WS_WORKERS).map(|_| DenseSlotMap::with_key()).collect();
    let mut conns: Vec<Conn> = Vec::new();
    let mut now: u64 = 0;
    // model W: (is_v4, hash) -> pid -> entry
    let mut model: BTreeMap<(bool, Hash20), BTreeMap<Hash20, WEntry>> = BTreeMap::new();
    // which (torrent, pid) have been used by which connections (labels)
    let mut used_by: BTreeMap<(bool, Hash20, Hash20), BTreeSet<ConnRef>> = BTreeMap::new();
    // offers forwarded so far: (receiver connection, torrent, offering peer, offer id, receiving peer)
    let mut pending: Vec<(ConnRef, Hash20, Hash20, Hash20, Hash20)> = Vec::new();

    struct ClockGuard;
    impl Drop for ClockGuard {
        fn drop(&mut self) {
            aquatic_common::verif::set_mock_seconds(None);
        }
    }
    let _g = ClockGuard;
    aquatic_common::verif::set_mock_seconds(Some(0));

    macro_rules! model_close {
        ($cr:expr) => {{
            let cr: ConnRef = $cr;
            let mut removed = 0;
            for t in model.values_mut() {
                let before = t.len();
                t.retain(|_, e| e.owner != cr);
                removed += before - t.len();
            }
            model.retain(|_, t| !t.is_empty());
            removed
        }};
    }

    for (step, op) in case.ops.iter().enumerate() {
        match op {
            WsOp::Open { worker, v6 } => {
                if conns.iter().filter(|c| c.open).count() >= 5 {
                    continue;
                }
                let w = *worker % WS_WORKERS;
                let id = slotmaps[w as usize].insert(());
                let r = ConnRef { worker: w, key: id.data().as_ffi() };
                if conns.iter().any(|c| c.open && c.r.key == r.key && c.r.worker != r.worker) {
                    out.label("equal-slot-keys-on-two-workers");
                }
                conns.push(Conn { r, id, v6: *v6, open: true, announced: BTreeMap::new() });
            }
            WsOp::Announce { .. } | WsOp::AnswerPending { .. } => {
                // resolve the operation to concrete values
                let resolved: Option<(usize, Hash20, Hash20, u8, Option<u64>, Option<Vec<u8>>, Option<(Hash20, Hash20)>)> = match op {
                    WsOp::Announce { conn, t, pid, event, left, offers, answer, sticky, .. } => {
                        let open: Vec<usize> = (0..conns.len()).filter(|i| conns[*i].open).collect();
                        if open.is_empty() {
                            None
                        } else {
                            let ci = open[*conn as usize % open.len()];
                            let hash = ws_hash(*t % WS_TORRENTS);
                            let mut pidb = ws_pid(*pid);
                            if *sticky {
                                if let Some(p) = conns[ci].announced.get(&hash) {
                                    pidb = *p;
                                }
                            }
                            Some((ci, hash, pidb, *event, *left, offers.clone(), answer.map(|(p, o)| (ws_pid(p), ws_offer_id(o)))))
                        }
                    }
                    WsOp::AnswerPending { pick, keep } => {
                        if pending.is_empty() {
                            None
                        } else {
                            // 255 = the most recently forwarded offer
                            let i = if *pick == 255 { pending.len() - 1 } else { *pick as usize % pending.len() };
                            let (rcv, hash, from_pid, offer_id, rcv_pid) = pending[i];
                            if !*keep {
                                pending.remove(i);
                            }
                            conns
                                .iter()
                                .position(|c| c.open && c.r == rcv)
                                .map(|ci| (ci, hash, rcv_pid, 0u8, None, None, Some((from_pid, offer_id))))
                        }
                    }
                    _ => None,
                };
                let (ci, hash, pidb, event, left, offers, answer) = match resolved {
                    Some(r) => r,
                    None => continue,
                };
                let numwant: u8 = match op {
                    WsOp::Announce { numwant, .. } => *numwant,
                    _ => 0,
                };
                let (event, left, offers, answer) = (&event, &left, &offers, &answer);
                let pid = &pidb[19];
                let t = &hash[19];
                let is_v4 = !conns[ci].v6;
                let cr = conns[ci].r;
                if oracles.access_list && !allowed(&listed, &hash) {
                    // socket worker answers with an error itself; storage is not called
                    out.label("announce-forbidden-skipped");
                    continue;
                }
                // --- shim: socket worker bookkeeping
                if let Some(prev) = conns[ci].announced.get(&hash) {
                    if *prev != pidb {
                        // error to client, connection closes, clean-up runs
                        out.label("second-peer-id-refused");
                        let pairs: Vec<(Hash20, Hash20)> =
                            conns[ci].announced.iter().map(|(h, p)| (*h, *p)).collect();
                        for (h, p) in pairs {
                            maps.handle_connection_closed(
                                InfoHash(h),
                                PeerId(p),
                                if is_v4 { IpVersion::V4 } else { IpVersion::V6 },
                                ConsumerId(cr.worker),
                                conns[ci].id,
                            );
                        }
                        slotmaps[cr.worker as usize].remove(conns[ci].id);
                        conns[ci].open = false;
                        let removed = model_close!(cr);
                        if removed > 0 {
                            out.label("close-owning");
                        }
                        check_counts(&maps, &model, step, &mut out)?;
                        continue;
                    }
                } else {
                    conns[ci].announced.insert(hash, pidb);
                }
                let ev = event_of(*event);
                let stopped = matches!(ev, Some(AnnounceEvent::Stopped));
                if stopped {
                    conns[ci].announced.remove(&hash);
                }
                used_by.entry((is_v4, hash, pidb)).or_default().insert(cr);
                if used_by[&(is_v4, hash, pidb)].len() >= 2 {
                    out.label("same-peer-id-two-conns");
                }
                // --- request
                let offer_list: Option<Vec<AnnounceRequestOffer>> = offers.as_ref().map(|v| {
                    v.iter()
                        .enumerate()
                        .map(|(i, o)| AnnounceRequestOffer {
                            offer: RtcOffer { t: RtcOfferType::Offer, sdp: format!("offer-{step}-{i}") },
                            offer_id: OfferId(ws_offer_id(*o)),
                        })
                        .collect()
                });
                let answer_sdp = format!("answer-{step}");
                let req = AnnounceRequest {
                    action: AnnounceAction::Announce,
                    info_hash: InfoHash(hash),
                    peer_id: PeerId(pidb),
                    bytes_left: left.map(|v| v.min(usize::MAX as u64) as usize),
                    event: ev,
                    offers: offer_list.clone(),
                    numwant: match numwant % 6 {
                        1 => None,
                        2 => Some(0),
                        3 => Some(1),
                        4 => Some(usize::MAX),
                        5 => offers.as_ref().map(|v| v.len().saturating_sub(1)),
                        _ => offers.as_ref().map(|v| v.len()),
                    },
                    answer: answer.map(|_| RtcAnswer { t: RtcAnswerType::Answer, sdp: answer_sdp.clone() }),
                    answer_to_peer_id: answer.map(|(p, _)| PeerId(p)),
                    answer_offer_id: answer.map(|(_, o)| OfferId(o)),
                };
                let meta = InMessageMeta {
                    out_message_consumer_id: ConsumerId(cr.worker),
                    connection_id: conns[ci].id,
                    ip_version: if is_v4 { IpVersion::V4 } else { IpVersion::V6 },
                    pending_scrape_id: None,
                };
                let mut msgs: Vec<(OutMessageMeta, OutMessage)> = Vec::new();
                maps.handle_announce_request(&config, &mut rng, &mut msgs, start, meta, req);

                // --- model
                let torrent = model.entry((is_v4, hash)).or_default();
                let foreign = torrent.get(&pidb).map(|e| e.owner != cr).unwrap_or(false);
                if foreign {
                    out.label("non-owner-announce");
                    out.checks += 1;
                    vensure!(
                        msgs.is_empty(),
                        "non-owner-announce-answered",
                        "step {step}: announce using peer id {} of torrent {} from connection {:?}, which does not own that entry (owner {:?}), produced output {:?}",
                        pid,
                        t,
                        cr,
                        torrent.get(&pidb).map(|e| e.owner),
                        msgs.iter().map(|(m, o)| (m.out_message_consumer_id.0, m.connection_id.data().as_ffi(), kind_of(o))).collect::<Vec<_>>()
                    );
                    model.retain(|_, t| !t.is_empty());
                    check_counts(&maps, &model, step, &mut out)?;
                    continue;
                }
                let seeder = matches!(left, Some(0));
                if stopped {
                    if torrent.remove(&pidb).is_some() {
                        out.label("stop-existing");
                    }
                } else {
                    let deadline = now + case.max_peer_age as u64;
                    match torrent.get_mut(&pidb) {
                        Some(e) => {
                            if e.seeder != seeder {
                                out.label("seeder-flag-flip");
                            }
                            e.seeder = seeder;
                            e.deadline = deadline;
                            out.label("reannounce");
                        }
                        None => {
                            torrent.insert(
                                pidb,
                                WEntry { owner: cr, seeder, deadline, expecting: BTreeMap::new() },
                            );
                        }
                    }
                }
                // split real output
                let mut offers_out = Vec::new();
                let mut answers_out = Vec::new();
                let mut errors_out = Vec::new();
                let mut responses_out = Vec::new();
                for (m, o) in msgs.iter() {
                    match o {
                        OutMessage::OfferOutMessage(x) => offers_out.push((m, x)),
                        OutMessage::AnswerOutMessage(x) => answers_out.push((m, x)),
                        OutMessage::ErrorResponse(x) => errors_out.push((m, x)),
                        OutMessage::AnnounceResponse(x) => responses_out.push((m, x)),
                        OutMessage::ScrapeResponse(_) => {
                            vfail!("unexpected-message", "step {step}: scrape response to an announce")
                        }
                    }
                }
                // offers
                let n_offers = offer_list.as_ref().map(|v| v.len()).unwrap_or(0);
                let others: BTreeSet<Hash20> =
                    torrent.keys().filter(|k| **k != pidb).copied().collect();
                let want_offers = if stopped { 0 } else { n_offers.min(case.max_offers).min(others.len()) };
                out.checks += 1;
                vensure!(
                    offers_out.len() == want_offers,
                    if offers_out.len() < want_offers { "offers-too-few" } else { "offers-too-many" },
                    "step {step}: {} offers forwarded, expected min(offers sent {}, max_offers {}, other peers {}){} = {}",
                    offers_out.len(),
                    n_offers,
                    case.max_offers,
                    others.len(),
                    if stopped { " but 0 for stopped" } else { "" },
                    want_offers
                );
                let mut receivers: BTreeSet<Hash20> = BTreeSet::new();
                for (i, (m, o)) in offers_out.iter().enumerate() {
                    out.checks += 1;
                    // find the receiving peer: the stored other peer whose owner is the addressed connection
                    let addressed = ConnRef { worker: m.out_message_consumer_id.0, key: m.connection_id.data().as_ffi() };
                    let candidates: Vec<Hash20> = others
                        .iter()
                        .filter(|p| torrent[*p].owner == addressed && !receivers.contains(*p))
                        .copied()
                        .collect();
                    vensure!(
                        !candidates.is_empty(),
                        "offer-misaddressed",
                        "step {step}: offer {i} addressed to {:?}, which owns no (further) other stored peer of this torrent and family (sender {:?}; others and owners: {:?})",
                        addressed,
                        cr,
                        others.iter().map(|p| (p[19], torrent[p].owner)).collect::<Vec<_>>()
                    );
                    vensure!(
                        addressed != cr || candidates.iter().any(|p| *p != pidb),
                        "offer-to-sender",
                        "step {step}: offer sent back to its sender"
                    );
                    vensure!(
                        o.peer_id.0 == pidb && o.info_hash.0 == hash,
                        "offer-wrong-tag",
                        "step {step}: offer tagged with peer id {:?} / info hash {:?}",
                        o.peer_id.0[19],
                        o.info_hash.0[19]
                    );
                    let src = &offer_list.as_ref().unwrap()[i];
                    vensure!(
                        o.offer_id == src.offer_id && o.offer == src.offer,
                        "offer-wrong-content",
                        "step {step}: forwarded offer {i} carries id {:?} sdp {:?}, the {i}-th offer sent was id {:?} sdp {:?}",
                        o.offer_id.0[19],
                        o.offer.sdp,
                        src.offer_id.0[19],
                        src.offer.sdp
                    );
                    // one connection may own several peer ids of a torrent only if it announced
                    // them for different torrents; within one torrent a connection owns one id,
                    // so the candidate is unique
                    let receiver = candidates[0];
                    receivers.insert(receiver);
                    let dl = now + case.max_offer_age as u64;
                    // record expectation in the sender's entry
                    torrent
                        .get_mut(&pidb)
                        .unwrap()
                        .expecting
                        .insert((receiver, src.offer_id.0), dl);
                    if pending.len() < 64 {
                        pending.push((addressed, hash, pidb, src.offer_id.0, receiver));
                    }
                }
                if want_offers > 0 {
                    out.label("offers-forwarded");
                }
                // answer
                if let (Some((to, oid)), false) = (answer, stopped) {
                    let to_pid = *to;
                    let key = (pidb, *oid);
                    let (to, oid) = (to[19], oid[19]);
                    let forwarded_expected = match torrent.get_mut(&to_pid) {
                        Some(target) => target.expecting.remove(&key).map(|_| target.owner),
                        None => None,
                    };
                    out.checks += 1;
                    match forwarded_expected {
                        Some(owner) => {
                            out.label("answer-forwarded");
                            vensure!(
                                answers_out.len() == 1,
                                "answer-not-forwarded",
                                "step {step}: answer to peer {} for offer {} was expected to be forwarded (stored, offered, unanswered, not expired) but {} answer messages were produced (errors: {})",
                                to,
                                oid,
                                answers_out.len(),
                                errors_out.len()
                            );
                            let (m, a) = &answers_out[0];
                            let addressed = ConnRef { worker: m.out_message_consumer_id.0, key: m.connection_id.data().as_ffi() };
                            vensure!(
                                addressed == owner,
                                "answer-misaddressed",
                                "step {step}: answer delivered to {:?}, offering peer's connection is {:?}",
                                addressed,
                                owner
                            );
                            vensure!(
                                a.peer_id.0 == pidb && a.info_hash.0 == hash && a.offer_id.0 == key.1 && a.answer.sdp == answer_sdp,
                                "answer-wrong-content",
                                "step {step}: forwarded answer has wrong peer id / info hash / offer id / sdp: {:?}",
                                a
                            );
                            vensure!(errors_out.is_empty(), "answer-forwarded-and-error", "step {step}: forwarded answer plus an error");
                        }
                        None => {
                            out.label("answer-rejected");
                            vensure!(
                                answers_out.is_empty(),
                                "answer-forwarded-without-offer",
                                "step {step}: answer to peer {} for offer {} was forwarded although no matching unanswered, unexpired offer from that peer to the answerer exists (or the peer is not stored)",
                                to,
                                oid
                            );
                            vensure!(errors_out.len() <= 1, "answer-many-errors", "step {step}: {} errors", errors_out.len());
                            for (m, _) in &errors_out {
                                let addressed = ConnRef { worker: m.out_message_consumer_id.0, key: m.connection_id.data().as_ffi() };
                                vensure!(addressed == cr, "error-misaddressed", "step {step}: error reply addressed to {:?}, answerer is {:?}", addressed, cr);
                            }
                        }
                    }
                } else {
                    vensure!(
                        answers_out.is_empty() && errors_out.is_empty(),
                        "unexpected-message",
                        "step {step}: answer/error message without an answer in the request"
                    );
                }
                // reply
                let seeders = torrent.values().filter(|e| e.seeder).count();
                let leechers = torrent.len() - seeders;
                out.checks += 1;
                vensure!(
                    responses_out.len() == 1,
                    "announce-reply-count",
                    "step {step}: {} announce replies for an announce that is not ignored",
                    responses_out.len()
                );
                let (m, r) = &responses_out[0];
                let addressed = ConnRef { worker: m.out_message_consumer_id.0, key: m.connection_id.data().as_ffi() };
                vensure!(addressed == cr, "reply-misaddressed", "step {step}: announce reply addressed to {:?}, sender is {:?}", addressed, cr);
                vensure!(
                    r.complete == seeders && r.incomplete == leechers && r.info_hash.0 == hash,
                    "announce-counts",
                    "step {step}: announce reply complete/incomplete {}/{}, reference {}/{} (including announcer) for {:?}",
                    r.complete,
                    r.incomplete,
                    seeders,
                    leechers,
                    op
                );
                vensure!(
                    r.announce_interval == config.protocol.peer_announce_interval,
                    "announce-interval",
                    "step {step}: interval"
                );
                model.retain(|_, t| !t.is_empty());
            }
            WsOp::Scrape { conn, hashes } => {
                let open: Vec<usize> = (0..conns.len()).filter(|i| conns[*i].open).collect();
                if open.is_empty() {
                    continue;
                }
                let ci = open[*conn as usize % open.len()];
                let is_v4 = !conns[ci].v6;
                let cr = conns[ci].r;
                let req = ScrapeRequest {
                    action: ScrapeAction::Scrape,
                    info_hashes: hashes.as_ref().map(|(single, v)| {
                        if *single && !v.is_empty() {
                            ScrapeRequestInfoHashes::Single(InfoHash(ws_hash(v[0])))
                        } else {
                            ScrapeRequestInfoHashes::Multiple(v.iter().map(|t| InfoHash(ws_hash(*t))).collect())
                        }
                    }),
                };
                let meta = InMessageMeta {
                    out_message_consumer_id: ConsumerId(cr.worker),
                    connection_id: conns[ci].id,
                    ip_version: if is_v4 { IpVersion::V4 } else { IpVersion::V6 },
                    pending_scrape_id: Some(PendingScrapeId(step as u8)),
                };
                let mut msgs = Vec::new();
                maps.handle_scrape_request(&config, &mut msgs, meta, req);
                out.checks += 1;
                match hashes {
                    None => {
                        vensure!(msgs.is_empty(), "scrape-none-answered", "step {step}: storage answered a scrape without hashes");
                    }
                    Some((single, v)) => {
                        let requested: Vec<Hash20> = if *single && !v.is_empty() {
                            vec![ws_hash(v[0])]
                        } else {
                            v.iter().map(|t| ws_hash(*t)).collect()
                        };
                        vensure!(msgs.len() == 1, "scrape-reply-count", "step {step}: {} replies to a scrape", msgs.len());
                        let (m, o) = &msgs[0];
                        let addressed = ConnRef { worker: m.out_message_consumer_id.0, key: m.connection_id.data().as_ffi() };
                        vensure!(addressed == cr, "reply-misaddressed", "step {step}: scrape reply addressed to {:?}, sender {:?}", addressed, cr);
                        vensure!(
                            m.pending_scrape_id.map(|p| p.0) == Some(step as u8),
                            "scrape-pending-id",
                            "step {step}: pending scrape id not echoed"
                        );
                        let files = match o {
                            OutMessage::ScrapeResponse(s) => &s.files,
                            other => vfail!("unexpected-message", "step {step}: scrape answered with {}", kind_of(other)),
                        };
                        let first: Vec<Hash20> = requested.iter().take(case.max_scrape_torrents).copied().collect();
                        for hsh in &first {
                            if let Some(t) = model.get(&(is_v4, *hsh)) {
                                if !t.is_empty() {
                                    let s = t.values().filter(|e| e.seeder).count();
                                    let got = files.get(&InfoHash(*hsh));
                                    vensure!(
                                        got.map(|g| (g.complete, g.incomplete)) == Some((s, t.len() - s)),
                                        "scrape-counts",
                                        "step {step}: torrent {} has stored peers ({} seeders, {} leechers) but the scrape lists {:?}",
                                        hsh[19],
                                        s,
                                        t.len() - s,
                                        got
                                    );
                                }
                            }
                        }
                        for (k, st) in files.iter() {
                            vensure!(
                                first.contains(&k.0),
                                "scrape-unrequested-torrent",
                                "step {step}: scrape lists torrent {} which is not among the first {} requested",
                                k.0[19],
                                case.max_scrape_torrents
                            );
                            let stored = model.get(&(is_v4, k.0)).map(|t| t.len()).unwrap_or(0);
                            if stored == 0 {
                                vensure!(
                                    st.complete == 0 && st.incomplete == 0,
                                    "scrape-nonzero-for-empty",
                                    "step {step}: torrent {} has no stored peers but the scrape reports {}/{}",
                                    k.0[19],
                                    st.complete,
                                    st.incomplete
                                );
                            }
                        }
                    }
                }
            }
            WsOp::Close { conn } => {
                let open: Vec<usize> = (0..conns.len()).filter(|i| conns[*i].open).collect();
                if open.is_empty() {
                    continue;
                }
                let ci = open[*conn as usize % open.len()];
                let cr = conns[ci].r;
                let is_v4 = !conns[ci].v6;
                let pairs: Vec<(Hash20, Hash20)> = conns[ci].announced.iter().map(|(h, p)| (*h, *p)).collect();
                // does this connection hold a pair whose stored entry belongs to someone else?
                for (hh, pp) in &pairs {
                    if let Some(e) = model.get(&(is_v4, *hh)).and_then(|t| t.get(pp)) {
                        if e.owner != cr {
                            out.label("close-of-non-owner-with-live-entry");
                        }
                    }
                }
                for (hh, pp) in pairs {
                    maps.handle_connection_closed(
                        InfoHash(hh),
                        PeerId(pp),
                        if is_v4 { IpVersion::V4 } else { IpVersion::V6 },
                        ConsumerId(cr.worker),
                        conns[ci].id,
                    );
                }
                slotmaps[cr.worker as usize].remove(conns[ci].id);
                conns[ci].open = false;
                let removed = model_close!(cr);
                if removed > 0 {
                    out.label("close-owning");
                }
            }
            WsOp::Tick { dt } => {
                now += *dt as u64;
                aquatic_common::verif::set_mock_seconds(Some(now as u32));
            }
            WsOp::Clean { dt } => {
                now += *dt as u64;
                aquatic_common::verif::set_mock_seconds(Some(now as u32));
                let mut expired_peers = 0;
                let mut expired_offers = 0;
                let mut at_deadline = false;
                for t in model.values_mut() {
                    for e in t.values_mut() {
                        let b = e.expecting.len();
                        if e.expecting.values().any(|d| *d == now + 1) || e.deadline == now + 1 {
                            out.label("clean-one-before-deadline");
                        }
                        if e.expecting.values().any(|d| *d + 1 == now) || e.deadline + 1 == now {
                            out.label("clean-one-after-deadline");
                        }
                        if e.expecting.values().any(|d| *d == now) {
                            out.label("clean-at-offer-deadline");
                        }
                        at_deadline |= e.expecting.values().any(|d| *d == now) || e.deadline == now;
                        e.expecting.retain(|_, d| *d > now);
                        expired_offers += b - e.expecting.len();
                    }
                    let b = t.len();
                    t.retain(|_, e| e.deadline > now);
                    expired_peers += b - t.len();
                }
                model.retain(|_, t| !t.is_empty());
                if oracles.access_list {
                    let n = model.len();
                    model.retain(|(_, hsh), _| allowed(&listed, hsh));
                    if model.len() < n {
                        out.label("forbidden-torrent-cleaned");
                    }
                }
                maps.clean(&config, &access_list, start);
                if expired_peers > 0 {
                    out.label("clean-expired-peer");
                }
                if expired_offers > 0 {
                    out.label("clean-expired-offer");
                }
                if at_deadline {
                    out.label("clean-at-deadline");
                }
                // after a clean, emptied torrents are really gone
                let (n4, _) = maps.verif_counts(InfoHash([0; 20]), IpVersion::V4);
                let (n6, _) = maps.verif_counts(InfoHash([0; 20]), IpVersion::V6);
                let w4 = model.keys().filter(|(f, _)| *f).count();
                let w6 = model.keys().filter(|(f, _)| !*f).count();
                out.checks += 1;
                vensure!(
                    (n4, n6) == (w4, w6),
                    "torrent-count-after-clean",
                    "step {step}: after clean(now={now}) storage holds (v4, v6) = ({n4}, {n6}) torrents, reference ({w4}, {w6})"
                );
            }
            WsOp::SetAccessList { listed: l } => {
                if oracles.access_list {
                    listed = l.iter().map(|t| ws_hash(*t % WS_TORRENTS)).collect();
                    let mut al = AccessList::default();
                    for hsh in &listed {
                        al.insert_from_line(&hex(hsh)).unwrap();
                    }
                    access_list.store(Arc::new(al));
                    out.label("access-list-swap");
                }
            }
        }
        check_counts(&maps, &model, step, &mut out)?;
    }
    let _ = oracles.signalling;
    Ok(out)
}

fn kind_of(o: &OutMessage) -> &'static str {
    match o {
        OutMessage::OfferOutMessage(_) => "offer",
        OutMessage::AnswerOutMessage(_) => "answer",
        OutMessage::AnnounceResponse(_) => "announce-response",
        OutMessage::ScrapeResponse(_) => "scrape-response",
        OutMessage::ErrorResponse(_) => "error",
    }
}

/// storage's (seeders, peers) per torrent == model, via the verif_counts accessor
fn check_counts(
    maps: &TorrentMaps,
    model: &BTreeMap<(bool, Hash20), BTreeMap<Hash20, WEntry>>,
    step: usize,
    out: &mut Outcome,
) -> Result<(), Violation> {
    for t in 0..WS_TORRENTS {
        for is_v4 in [true, false] {
            let hsh = ws_hash(t);
            let (_, got) = maps.verif_counts(InfoHash(hsh), if is_v4 { IpVersion::V4 } else { IpVersion::V6 });
            let want = model.get(&(is_v4, hsh)).map(|m| (m.values().filter(|e| e.seeder).count(), m.len()));
            let got_n = got.unwrap_or((0, 0));
            let want_n = want.unwrap_or((0, 0));
            out.checks += 1;
            if got_n != want_n {
                return Err(Violation::new(
                    "stored-entries-differ",
                    format!(
                        "after step {step}: torrent {t} ({}) stores (seeders, peers) = {:?}, reference {:?}",
                        if is_v4 { "v4" } else { "v6" },
                        got_n,
                        want_n
                    ),
                ));
            }
        }
    }
    Ok(())
}

// ---------------------------------------------------------------------------
// Generators
// ---------------------------------------------------------------------------

#[derive(Clone, Copy, Debug)]
pub struct WsGen {
    pub max_ops: usize,
    pub pids: u8,
    pub offer_ids: u8,
    pub max_offers_in_req: usize,
    /// weight of signalling (offers/answers) in announces
    pub signalling_w: u32,
    pub access_list: bool,
    /// weight multiplier of tick / clean operations
    pub time_w: u32,
}

pub fn ws_op(p: WsGen) -> BoxedStrategy<WsOp> {
    let open = (0..WS_WORKERS, prop_oneof![4 => Just(false), 1 => Just(true)])
        .prop_map(|(worker, v6)| WsOp::Open { worker, v6 });
    let offers = prop_oneof![
        4 => Just(None),
        1 => Just(Some(vec![])),
        p.signalling_w => proptest::collection::vec(0..p.offer_ids, 1..=p.max_offers_in_req.max(1)).prop_map(Some),
    ];
    let answer = prop_oneof![
        6 => Just(None),
        p.signalling_w => (0..p.pids, 0..p.offer_ids).prop_map(Some),
    ];
    let announce = (
        (0u8..8, 0..WS_TORRENTS, 0..p.pids),
        prop_oneof![3 => Just(0u8), 3 => Just(1u8), 3 => Just(2u8), 1 => Just(3u8), 2 => Just(4u8)],
        prop_oneof![2 => Just(None), 3 => Just(Some(0u64)), 3 => Just(Some(1u64)), 1 => any::<u64>().prop_map(Some)],
        offers,
        answer,
        prop_oneof![4 => Just(true), 1 => Just(false)],
        prop_oneof![5 => Just(0u8), 1 => Just(1u8), 1 => Just(2u8), 1 => Just(3u8), 1 => Just(4u8), 1 => Just(5u8)],
    )
        .prop_map(|((conn, t, pid), event, left, offers, answer, sticky, numwant)| WsOp::Announce {
            conn,
            t,
            pid,
            event,
            left,
            offers,
            answer,
            sticky,
            numwant,
        });
    let answer_pending = (any::<u8>(), prop_oneof![3 => Just(false), 1 => Just(true)])
        .prop_map(|(pick, keep)| WsOp::AnswerPending { pick, keep });
    let scrape = (
        0u8..8,
        prop_oneof![
            1 => Just(None),
            6 => (any::<bool>(), proptest::collection::vec(0..(WS_TORRENTS + 1), 0..6)).prop_map(Some)
        ],
    )
        .prop_map(|(conn, hashes)| WsOp::Scrape { conn, hashes });
    let close = (0u8..8).prop_map(|conn| WsOp::Close { conn });
    let tick = prop_oneof![Just(1u32), Just(2u32), 1u32..5].prop_map(|dt| WsOp::Tick { dt });
    let clean = prop_oneof![3 => Just(0u32), 3 => Just(1u32), 2 => 2u32..6].prop_map(|dt| WsOp::Clean { dt });
    if p.access_list {
        let set = proptest::collection::vec(0..WS_TORRENTS, 0..3).prop_map(|listed| WsOp::SetAccessList { listed });
        prop_oneof![3 => open, 14 => announce, p.signalling_w / 3 + 1 => answer_pending, 2 => scrape, 2 => close, p.time_w.max(1) => tick, 2 * p.time_w.max(1) => clean, 2 => set].boxed()
    } else {
        prop_oneof![3 => open, 14 => announce, p.signalling_w / 3 + 1 => answer_pending, 2 => scrape, 2 => close, p.time_w.max(1) => tick, 2 * p.time_w.max(1) => clean].boxed()
    }
}

pub fn ws_case(p: WsGen) -> BoxedStrategy<WsCase> {
    (
        prop_oneof![Just(0usize), Just(1usize), Just(2usize), Just(10usize)],
        prop_oneof![Just(0usize), Just(1usize), Just(2usize), Just(255usize)],
        prop_oneof![Just(2u32), Just(4u32), Just(100u32)],
        prop_oneof![Just(1u32), Just(3u32), Just(100u32)],
        any::<u64>(),
        if p.access_list { 0u8..3 } else { 0u8..1 },
        // every history starts with a few connections
        proptest::collection::vec((0..WS_WORKERS, prop_oneof![5 => Just(false), 1 => Just(true)]), 2..5),
        proptest::collection::vec(ws_op(p), 0..p.max_ops),
    )
        .prop_map(
            |(max_offers, max_scrape_torrents, max_peer_age, max_offer_age, rng_seed, access_mode, opens, ops)| {
                let mut all: Vec<WsOp> = opens
                    .into_iter()
                    .map(|(worker, v6)| WsOp::Open { worker, v6 })
                    .collect();
                all.extend(ops);
                WsCase {
                    max_offers,
                    max_scrape_torrents,
                    max_peer_age,
                    max_offer_age,
                    rng_seed,
                    access_mode,
                    ops: all,
                }
            },
        )
        .boxed()
}
