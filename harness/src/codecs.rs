//! Independent codecs written from the specifications (BEP 15, bencode), with literal offsets.
//! They share no code with aquatic's protocol crates.

use serde::{Deserialize, Serialize};

pub const BEP15_MAGIC: i64 = 0x0000_0417_2710_1980;

#[derive(Debug, Clone, PartialEq, Eq, Serialize, Deserialize)]
pub enum UReq {
    Connect {
        tid: i32,
    },
    Announce {
        cid: i64,
        tid: i32,
        info_hash: [u8; 20],
        peer_id: [u8; 20],
        downloaded: i64,
        left: i64,
        uploaded: i64,
        /// 0 none, 1 completed, 2 started, 3 stopped (BEP 15 numbering)
        event: i32,
        ip: [u8; 4],
        key: i32,
        numwant: i32,
        port: u16,
    },
    Scrape {
        cid: i64,
        tid: i32,
        hashes: Vec<[u8; 20]>,
    },
}

pub fn bep15_encode_request(r: &UReq) -> Vec<u8> {
    let mut b = Vec::new();
    match r {
        UReq::Connect { tid } => {
            b.extend_from_slice(&BEP15_MAGIC.to_be_bytes()); // 0..8
            b.extend_from_slice(&0i32.to_be_bytes()); // 8..12 action
            b.extend_from_slice(&tid.to_be_bytes()); // 12..16
        }
        UReq::Announce {
            cid,
            tid,
            info_hash,
            peer_id,
            downloaded,
            left,
            uploaded,
            event,
            ip,
            key,
            numwant,
            port,
        } => {
            b.extend_from_slice(&cid.to_be_bytes()); // 0
            b.extend_from_slice(&1i32.to_be_bytes()); // 8
            b.extend_from_slice(&tid.to_be_bytes()); // 12
            b.extend_from_slice(info_hash); // 16
            b.extend_from_slice(peer_id); // 36
            b.extend_from_slice(&downloaded.to_be_bytes()); // 56
            b.extend_from_slice(&left.to_be_bytes()); // 64
            b.extend_from_slice(&uploaded.to_be_bytes()); // 72
            b.extend_from_slice(&event.to_be_bytes()); // 80
            b.extend_from_slice(ip); // 84
            b.extend_from_slice(&key.to_be_bytes()); // 88
            b.extend_from_slice(&numwant.to_be_bytes()); // 92
            b.extend_from_slice(&port.to_be_bytes()); // 96
            debug_assert_eq!(b.len(), 98);
        }
        UReq::Scrape { cid, tid, hashes } => {
            b.extend_from_slice(&cid.to_be_bytes());
            b.extend_from_slice(&2i32.to_be_bytes());
            b.extend_from_slice(&tid.to_be_bytes());
            for h in hashes {
                b.extend_from_slice(h);
            }
        }
    }
    b
}

fn be32(b: &[u8], at: usize) -> i32 {
    i32::from_be_bytes([b[at], b[at + 1], b[at + 2], b[at + 3]])
}
fn be64(b: &[u8], at: usize) -> i64 {
    let mut a = [0u8; 8];
    a.copy_from_slice(&b[at..at + 8]);
    i64::from_be_bytes(a)
}
fn arr20(b: &[u8], at: usize) -> [u8; 20] {
    let mut a = [0u8; 20];
    a.copy_from_slice(&b[at..at + 20]);
    a
}

/// Reference BEP 15 request decoder. Err(reason) = must be rejected.
pub fn bep15_decode_request(b: &[u8], max_scrape: usize) -> Result<UReq, &'static str> {
    if b.len() < 16 {
        return Err("too few bytes");
    }
    match be32(b, 8) {
        0 => {
            if be64(b, 0) != BEP15_MAGIC {
                return Err("wrong protocol id");
            }
            Ok(UReq::Connect { tid: be32(b, 12) })
        }
        1 => {
            if b.len() < 98 {
                return Err("too few bytes");
            }
            let event = be32(b, 80);
            if !(0..=3).contains(&event) {
                return Err("unknown event");
            }
            let port = u16::from_be_bytes([b[96], b[97]]);
            if port == 0 {
                return Err("port 0");
            }
            Ok(UReq::Announce {
                cid: be64(b, 0),
                tid: be32(b, 12),
                info_hash: arr20(b, 16),
                peer_id: arr20(b, 36),
                downloaded: be64(b, 56),
                left: be64(b, 64),
                uploaded: be64(b, 72),
                event,
                ip: [b[84], b[85], b[86], b[87]],
                key: be32(b, 88),
                numwant: be32(b, 92),
                port,
            })
        }
        2 => {
            let rest = &b[16..];
            if rest.is_empty() {
                return Err("empty hash list");
            }
            if rest.len() % 20 != 0 {
                return Err("hash list not a multiple of 20");
            }
            let n = (rest.len() / 20).min(max_scrape);
            Ok(UReq::Scrape {
                cid: be64(b, 0),
                tid: be32(b, 12),
                hashes: (0..n).map(|i| arr20(rest, i * 20)).collect(),
            })
        }
        _ => Err("unknown action"),
    }
}

#[derive(Debug, Clone, PartialEq, Eq, Serialize, Deserialize)]
pub enum URsp {
    Connect {
        tid: i32,
        cid: i64,
    },
    Announce4 {
        tid: i32,
        interval: i32,
        leechers: i32,
        seeders: i32,
        peers: Vec<([u8; 4], u16)>,
    },
    Announce6 {
        tid: i32,
        interval: i32,
        leechers: i32,
        seeders: i32,
        peers: Vec<([u8; 16], u16)>,
    },
    Scrape {
        tid: i32,
        /// (seeders, completed, leechers) in BEP 15 order
        stats: Vec<(i32, i32, i32)>,
    },
    Error {
        tid: i32,
        message: String,
    },
}

pub fn bep15_encode_response(r: &URsp) -> Vec<u8> {
    let mut b = Vec::new();
    match r {
        URsp::Connect { tid, cid } => {
            b.extend_from_slice(&0i32.to_be_bytes());
            b.extend_from_slice(&tid.to_be_bytes());
            b.extend_from_slice(&cid.to_be_bytes());
        }
        URsp::Announce4 {
            tid,
            interval,
            leechers,
            seeders,
            peers,
        } => {
            b.extend_from_slice(&1i32.to_be_bytes());
            b.extend_from_slice(&tid.to_be_bytes());
            b.extend_from_slice(&interval.to_be_bytes());
            b.extend_from_slice(&leechers.to_be_bytes());
            b.extend_from_slice(&seeders.to_be_bytes());
            for (ip, port) in peers {
                b.extend_from_slice(ip);
                b.extend_from_slice(&port.to_be_bytes());
            }
        }
        URsp::Announce6 {
            tid,
            interval,
            leechers,
            seeders,
            peers,
        } => {
            b.extend_from_slice(&1i32.to_be_bytes());
            b.extend_from_slice(&tid.to_be_bytes());
            b.extend_from_slice(&interval.to_be_bytes());
            b.extend_from_slice(&leechers.to_be_bytes());
            b.extend_from_slice(&seeders.to_be_bytes());
            for (ip, port) in peers {
                b.extend_from_slice(ip);
                b.extend_from_slice(&port.to_be_bytes());
            }
        }
        URsp::Scrape { tid, stats } => {
            b.extend_from_slice(&2i32.to_be_bytes());
            b.extend_from_slice(&tid.to_be_bytes());
            for (s, c, l) in stats {
                b.extend_from_slice(&s.to_be_bytes());
                b.extend_from_slice(&c.to_be_bytes());
                b.extend_from_slice(&l.to_be_bytes());
            }
        }
        URsp::Error { tid, message } => {
            b.extend_from_slice(&3i32.to_be_bytes());
            b.extend_from_slice(&tid.to_be_bytes());
            b.extend_from_slice(message.as_bytes());
        }
    }
    b
}

/// Reference decoder for replies as a client receives them
pub fn bep15_decode_response(b: &[u8], ipv4: bool) -> Result<URsp, &'static str> {
    if b.len() < 8 {
        return Err("too short");
    }
    let tid = be32(b, 4);
    match be32(b, 0) {
        0 => {
            if b.len() != 16 {
                return Err("connect reply not 16 bytes");
            }
            Ok(URsp::Connect {
                tid,
                cid: be64(b, 8),
            })
        }
        1 => {
            if b.len() < 20 {
                return Err("announce reply too short");
            }
            let interval = be32(b, 8);
            let leechers = be32(b, 12);
            let seeders = be32(b, 16);
            let rest = &b[20..];
            if ipv4 {
                if rest.len() % 6 != 0 {
                    return Err("peer list not a multiple of 6");
                }
                Ok(URsp::Announce4 {
                    tid,
                    interval,
                    leechers,
                    seeders,
                    peers: rest
                        .chunks(6)
                        .map(|c| ([c[0], c[1], c[2], c[3]], u16::from_be_bytes([c[4], c[5]])))
                        .collect(),
                })
            } else {
                if rest.len() % 18 != 0 {
                    return Err("peer list not a multiple of 18");
                }
                Ok(URsp::Announce6 {
                    tid,
                    interval,
                    leechers,
                    seeders,
                    peers: rest
                        .chunks(18)
                        .map(|c| {
                            let mut ip = [0u8; 16];
                            ip.copy_from_slice(&c[..16]);
                            (ip, u16::from_be_bytes([c[16], c[17]]))
                        })
                        .collect(),
                })
            }
        }
        2 => {
            let rest = &b[8..];
            if rest.len() % 12 != 0 {
                return Err("scrape stats not a multiple of 12");
            }
            Ok(URsp::Scrape {
                tid,
                stats: rest
                    .chunks(12)
                    .map(|c| (be32(c, 0), be32(c, 4), be32(c, 8)))
                    .collect(),
            })
        }
        3 => Ok(URsp::Error {
            tid,
            message: String::from_utf8_lossy(&b[8..]).into_owned(),
        }),
        _ => Err("unknown action"),
    }
}

// ---------------------------------------------------------------------------
// bencode (canonical writer, strict reader)
// ---------------------------------------------------------------------------

#[derive(Debug, Clone, PartialEq, Eq)]
pub enum Ben {
    Int(i128),
    Bytes(Vec<u8>),
    List(Vec<Ben>),
    /// keys in the order they appear on the wire
    Dict(Vec<(Vec<u8>, Ben)>),
}

impl Ben {
    pub fn encode(&self, out: &mut Vec<u8>) {
        match self {
            Ben::Int(i) => {
                out.push(b'i');
                out.extend_from_slice(i.to_string().as_bytes());
                out.push(b'e');
            }
            Ben::Bytes(b) => {
                out.extend_from_slice(b.len().to_string().as_bytes());
                out.push(b':');
                out.extend_from_slice(b);
            }
            Ben::List(l) => {
                out.push(b'l');
                for x in l {
                    x.encode(out);
                }
                out.push(b'e');
            }
            Ben::Dict(d) => {
                // canonical: sorted by raw key bytes
                let mut d: Vec<&(Vec<u8>, Ben)> = d.iter().collect();
                d.sort_by(|a, b| a.0.cmp(&b.0));
                out.push(b'd');
                for (k, v) in d {
                    Ben::Bytes(k.clone()).encode(out);
                    v.encode(out);
                }
                out.push(b'e');
            }
        }
    }

    pub fn get(&self, key: &[u8]) -> Option<&Ben> {
        match self {
            Ben::Dict(d) => d.iter().find(|(k, _)| k == key).map(|(_, v)| v),
            _ => None,
        }
    }
}

/// Strict reader: canonical integers (no leading zeros, no -0), dictionary keys strictly
/// increasing, whole input consumed.
pub fn ben_parse_strict(b: &[u8]) -> Result<Ben, String> {
    let mut pos = 0;
    let v = ben_parse_at(b, &mut pos, 0)?;
    if pos != b.len() {
        return Err(format!("trailing bytes at {pos}"));
    }
    Ok(v)
}

fn ben_parse_at(b: &[u8], pos: &mut usize, depth: usize) -> Result<Ben, String> {
    if depth > 64 {
        return Err("too deep".into());
    }
    let c = *b.get(*pos).ok_or("eof")?;
    match c {
        b'i' => {
            *pos += 1;
            let start = *pos;
            while *b.get(*pos).ok_or("eof in int")? != b'e' {
                *pos += 1;
            }
            let s = std::str::from_utf8(&b[start..*pos]).map_err(|_| "int utf8")?;
            if s.is_empty()
                || s == "-0"
                || (s.len() > 1 && s.starts_with('0'))
                || (s.len() > 2 && s.starts_with("-0"))
                || !s.trim_start_matches('-').bytes().all(|c| c.is_ascii_digit())
            {
                return Err(format!("non-canonical int {s:?}"));
            }
            let i: i128 = s.parse().map_err(|_| format!("int {s:?}"))?;
            *pos += 1;
            Ok(Ben::Int(i))
        }
        b'0'..=b'9' => {
            let start = *pos;
            while *b.get(*pos).ok_or("eof in len")? != b':' {
                *pos += 1;
            }
            let s = std::str::from_utf8(&b[start..*pos]).map_err(|_| "len utf8")?;
            if (s.len() > 1 && s.starts_with('0')) || !s.bytes().all(|c| c.is_ascii_digit()) {
                return Err(format!("non-canonical length {s:?}"));
            }
            let n: usize = s.parse().map_err(|_| "len")?;
            *pos += 1;
            if *pos + n > b.len() {
                return Err("string runs past end".into());
            }
            let v = b[*pos..*pos + n].to_vec();
            *pos += n;
            Ok(Ben::Bytes(v))
        }
        b'l' => {
            *pos += 1;
            let mut l = Vec::new();
            while *b.get(*pos).ok_or("eof in list")? != b'e' {
                l.push(ben_parse_at(b, pos, depth + 1)?);
            }
            *pos += 1;
            Ok(Ben::List(l))
        }
        b'd' => {
            *pos += 1;
            let mut d: Vec<(Vec<u8>, Ben)> = Vec::new();
            while *b.get(*pos).ok_or("eof in dict")? != b'e' {
                let k = match ben_parse_at(b, pos, depth + 1)? {
                    Ben::Bytes(k) => k,
                    _ => return Err("dict key not a string".into()),
                };
                if let Some((last, _)) = d.last() {
                    if *last >= k {
                        return Err(format!(
                            "dict keys not sorted/unique: {:?} then {:?}",
                            String::from_utf8_lossy(last),
                            String::from_utf8_lossy(&k)
                        ));
                    }
                }
                let v = ben_parse_at(b, pos, depth + 1)?;
                d.push((k, v));
            }
            *pos += 1;
            Ok(Ben::Dict(d))
        }
        other => Err(format!("unexpected byte {other:#x} at {}", *pos)),
    }
}
