//! C18 — Every reply the tracker computes fits its buffers and is delivered whole (DESIGN.md §6 C18)

use std::net::{IpAddr, SocketAddr};
use std::time::Duration;

use serde::{Deserialize, Serialize};

use crate::checks::c16::ascii_hash;
use crate::codecs::*;
use crate::e2e::*;
use crate::engine::*;
use crate::{vensure, vfail};

pub const RULE: &str = "configurations: defaults, extremes (0, 1, 255 / 4000-5000) and dense windows (every value within +-3 quick / +-20 thorough) around where buffer arithmetic places a boundary - UDP max_response_peers near 112/338 (io_uring, v6/v4) and 454/1362 (mio) - the IPv4 values against trackers without IPv6, where 6-byte peers decide what is accepted -, max_scrape_torrents near 170 (io_uring) and up to 255; HTTP max_peers near 438 (v6) / 1322 (v4), scrapes of 50..65 distinct hashes under max_scrape_torrents in {1, 50, 100}, and - for max_scrape_torrents from 1 to usize::MAX on 1-3 swarm workers - the longest scrapes the running tracker's request buffer takes (the accepted request length is found by bisection with a padded one-hash scrape against the tracker itself, then scrapes of n_max, n_max-1, 0.9 n_max, limit and limit+1 distinct hashes are sent); both backends and address families. For each configuration the tracker is started; either run() refuses it at start-up, or the worst-case accepted requests are issued against it: one torrent is filled with max+1 peers of the family and an announce asks for the maximum; the longest scrape allowed (<= limit, <= what the request buffer takes). Oracle (the arithmetic only aims the generator and is never used by it): the client receives the complete reply - UDP datagram parses with the independent decoder and has min(max, swarm) peers / min(n, limit) entries; HTTP passes the strict framing and bencode readers and the connection survives. non-trivial = worst-case reply within 64 bytes of a buffer size, or the configuration refused; distinct = distinct configuration";

#[derive(Debug, Clone, Serialize, Deserialize, PartialEq)]
pub enum Case {
    Udp {
        uring: bool,
        v6: bool,
        max_response_peers: usize,
        max_scrape_torrents: u8,
        /// tracker with network.use_ipv6 = false (replies carry 6-byte peers only, so the limits the
        /// tracker may accept are three times higher than with both families on)
        #[serde(default)]
        v4_only: bool,
    },
    Http { v6: bool, max_peers: usize, max_scrape_torrents: usize, scrape_len: usize },
    /// the longest scrape the tracker's request buffer takes, found by probing the tracker itself
    HttpLongestScrape { swarm_workers: usize, max_scrape_torrents: usize },
    /// IPv4-only sockets behind a reverse proxy that reports IPv6 clients: the peers are IPv6
    /// (18 bytes each) whatever the listening sockets are
    HttpProxyV6Clients { max_peers: usize },
}

fn connect(c: &UdpClient) -> Result<i64, Violation> {
    c.send(&bep15_encode_request(&UReq::Connect { tid: 1 })).map_err(|e| Violation::new("inconclusive-send", e))?;
    match c.recv(crate::e2e::reply_wait()).map(|(b, _)| bep15_decode_response(&b, true)) {
        Some(Ok(URsp::Connect { cid, .. })) => Ok(cid),
        other => Err(Violation::new("inconclusive-connect", format!("{:?}", other))),
    }
}

pub fn prop(case: &Case) -> CaseResult {
    let mut out = Outcome::default();
    match case {
        Case::Udp { uring, v6, max_response_peers, max_scrape_torrents, v4_only } => {
            let (n, k) = (*max_response_peers, *max_scrape_torrents);
            let t = start_udp(|port| {
                let mut c = udp_config(port, if *v4_only && !*v6 { SocketMode::V4Only } else { SocketMode::Both }, *uring, 1);
                c.protocol.max_response_peers = n;
                c.protocol.max_scrape_torrents = k;
                c.cleaning.torrent_cleaning_interval = 100_000;
                c.cleaning.max_peer_age = 100_000;
                c
            });
            let t = match t {
                Ok(t) => t,
                Err(e) if e.contains("run() returned Err") => {
                    out.label("configuration-refused");
                    out.nontrivial = true;
                    return Ok(out);
                }
                Err(e) => return Err(Violation::new("inconclusive-tracker-start", e)),
            };
            out.label("configuration-accepted");
            let ip: IpAddr = if *v6 { "::1".parse().unwrap() } else { "127.0.0.1".parse().unwrap() };
            let c = UdpClient::new(ip, t.port).map_err(|e| Violation::new("inconclusive-client", e))?;
            let cid = connect(&c)?;
            let hash = [0x42u8; 20];
            let ann = |port: u16, numwant: i32, tid: i32| {
                bep15_encode_request(&UReq::Announce { cid, tid, info_hash: hash, peer_id: [1; 20], downloaded: 0, left: 1, uploaded: 0, event: 2, ip: [0; 4], key: 0, numwant, port })
            };
            // fill the torrent with max+1 peers (same source IP, different announced ports)
            let fill = n + 1;
            for i in 0..fill {
                c.send(&ann(1000 + i as u16, 1, 100 + i as i32)).map_err(|e| Violation::new("inconclusive-send", e))?;
                // keep the socket buffers shallow: read the (small) reply
                if c.recv(crate::e2e::reply_wait()).is_none() {
                    return Err(Violation::new("inconclusive-fill", format!("no reply while filling the swarm (announce {i})")));
                }
            }
            // worst-case announce
            c.send(&ann(60_000, n.min(i32::MAX as usize) as i32, 7)).map_err(|e| Violation::new("inconclusive-send", e))?;
            // fence
            c.send(&bep15_encode_request(&UReq::Connect { tid: 8 })).map_err(|e| Violation::new("inconclusive-send", e))?;
            let mut reply: Option<Vec<u8>> = None;
            loop {
                match c.recv(crate::e2e::reply_wait()) {
                    Some((b, _)) if b.len() >= 8 && i32::from_be_bytes(b[4..8].try_into().unwrap()) == 8 => break,
                    Some((b, _)) => reply = Some(b),
                    None => return Err(Violation::new("inconclusive-fence-timeout", "no fence reply")),
                }
            }
            out.checks += 1;
            let r = match reply {
                Some(r) => r,
                None => vfail!(
                    "reply-dropped",
                    "accepted configuration max_response_peers={n} ({}, {}): the reply to an announce asking for {n} peers of a swarm of {} was never delivered",
                    if *uring { "io_uring" } else { "mio" },
                    if *v6 { "IPv6" } else { "IPv4" },
                    fill
                ),
            };
            let peers = match bep15_decode_response(&r, !*v6) {
                Ok(URsp::Announce4 { peers, .. }) => peers.len(),
                Ok(URsp::Announce6 { peers, .. }) => peers.len(),
                other => vfail!("reply-malformed", "worst-case announce answered with {:?}", other),
            };
            let want_min = n.min(fill).saturating_sub(1);
            vensure!(peers >= want_min && peers <= n, "reply-cut-short", "announce reply carries {peers} peers; configuration allows {n}, swarm has {fill}");
            let buf = if *uring { 2048 } else { 8192 };
            if r.len() + 64 >= buf {
                out.label("reply-near-buffer-size");
                out.nontrivial = true;
            }
            // worst-case scrape: limit hashes (and one more than the limit)
            for count in [k as usize, (k as usize + 1).min(255)] {
                if count == 0 {
                    continue;
                }
                let hashes: Vec<[u8; 20]> = (0..count).map(|i| { let mut h = [0x43u8; 20]; h[1] = i as u8; h }).collect();
                c.send(&bep15_encode_request(&UReq::Scrape { cid, tid: 9, hashes })).map_err(|e| Violation::new("inconclusive-send", e))?;
                c.send(&bep15_encode_request(&UReq::Connect { tid: 10 })).map_err(|e| Violation::new("inconclusive-send", e))?;
                let mut reply: Option<Vec<u8>> = None;
                loop {
                    match c.recv(crate::e2e::reply_wait()) {
                        Some((b, _)) if b.len() >= 8 && i32::from_be_bytes(b[4..8].try_into().unwrap()) == 10 => break,
                        Some((b, _)) => reply = Some(b),
                        None => return Err(Violation::new("inconclusive-fence-timeout", "no fence reply")),
                    }
                }
                out.checks += 1;
                let r = match reply {
                    Some(r) => r,
                    None => vfail!(
                        "reply-dropped",
                        "accepted configuration max_scrape_torrents={k} ({}): the reply to a scrape of {count} hashes was never delivered",
                        if *uring { "io_uring" } else { "mio" }
                    ),
                };
                match bep15_decode_response(&r, true) {
                    Ok(URsp::Scrape { stats, .. }) => {
                        vensure!(stats.len() == count.min(k as usize), "reply-cut-short", "scrape of {count} hashes under limit {k} answered with {} entries", stats.len());
                    }
                    other => vfail!("reply-malformed", "worst-case scrape answered with {:?}", other),
                }
                if r.len() + 64 >= buf {
                    out.label("reply-near-buffer-size");
                    out.nontrivial = true;
                }
            }
            out.label(if *uring { "uring" } else { "mio" });
        }
        Case::HttpProxyV6Clients { max_peers } => {
            let n = *max_peers;
            let t = start_http(|port| {
                let mut c = http_config(port, 1, 1);
                c.network.use_ipv6 = false;
                c.network.runs_behind_reverse_proxy = true;
                c.protocol.max_peers = n;
                c.cleaning.torrent_cleaning_interval = 100_000;
                c.cleaning.max_peer_age = 100_000;
                c
            });
            let t = match t {
                Ok(t) => t,
                Err(e) if e.contains("run() returned Err") => {
                    out.label("configuration-refused");
                    out.nontrivial = true;
                    return Ok(out);
                }
                Err(e) => return Err(Violation::new("inconclusive-tracker-start", e)),
            };
            out.label("configuration-accepted");
            let ip: IpAddr = "127.0.0.1".parse().unwrap();
            let to: SocketAddr = (std::net::Ipv4Addr::LOCALHOST, t.port).into();
            let mut c = HttpClient::connect(ip, to).map_err(|e| Violation::new("inconclusive-connect", e))?;
            let hash = ascii_hash(79, 1);
            let hs = std::str::from_utf8(&hash).unwrap();
            let timeout = crate::e2e::reply_wait();
            let fill = n + 1;
            for i in 0..fill {
                let req = format!("GET /announce?info_hash={hs}&peer_id=-TR2940-abcdefghijkl&port={}&uploaded=0&downloaded=0&left=1&numwant=1&compact=1 HTTP/1.1\r\nHost: x\r\nX-Forwarded-For: 2001:db8::{:x}\r\n\r\n", 1000 + (i % 60000), 1 + i / 60000);
                c.send_segments(&[req.as_bytes()]).map_err(|e| Violation::new("inconclusive-send", e))?;
                match c.read_reply(timeout) {
                    HttpRead::Ok { .. } => {}
                    other => return Err(Violation::new("inconclusive-fill", format!("while filling the swarm (announce {i}): {:?}", other))),
                }
            }
            let req = format!("GET /announce?info_hash={hs}&peer_id=-TR2940-abcdefghijkl&port=60001&uploaded=0&downloaded=0&left=1&numwant={n}&compact=1 HTTP/1.1\r\nHost: x\r\nX-Forwarded-For: 2001:db8::ffff\r\n\r\n");
            c.send_segments(&[req.as_bytes()]).map_err(|e| Violation::new("inconclusive-send", e))?;
            out.checks += 1;
            let body = match c.read_reply(timeout) {
                HttpRead::Ok { body, .. } => body,
                other => vfail!(
                    "reply-dropped",
                    "accepted configuration max_peers={n} with use_ipv6=false behind a reverse proxy: the reply to an announce of an IPv6 client (address from the proxy header) asking for {n} peers of a swarm of {fill} IPv6 peers was not delivered: {:?}",
                    other
                ),
            };
            let tree = ben_parse_strict(&body[..body.len().saturating_sub(2)]).map_err(|e| Violation::new("reply-malformed", e))?;
            let got = match tree.get(b"peers6") {
                Some(Ben::Bytes(b)) => b.len() / 18,
                _ => vfail!("reply-malformed", "no peers6 in announce reply"),
            };
            vensure!(got + 1 >= n.min(fill) && got <= n, "reply-cut-short", "announce reply carries {got} IPv6 peers; configuration allows {n}, swarm has {fill}");
            if body.len() + 45 + 64 >= 8192 {
                out.label("reply-near-buffer-size");
                out.nontrivial = true;
            }
            out.label("http-proxy-v6-clients");
            out.label("http");
        }
        Case::HttpLongestScrape { swarm_workers, max_scrape_torrents } => {
            let t = start_http(|port| {
                let mut c = http_config(port, 1, *swarm_workers);
                c.protocol.max_scrape_torrents = *max_scrape_torrents;
                c.cleaning.torrent_cleaning_interval = 100_000;
                c.cleaning.max_peer_age = 100_000;
                c
            });
            let t = match t {
                Ok(t) => t,
                Err(e) if e.contains("run() returned Err") => {
                    out.label("configuration-refused");
                    out.nontrivial = true;
                    return Ok(out);
                }
                Err(e) => return Err(Violation::new("inconclusive-tracker-start", e)),
            };
            out.label("configuration-accepted");
            let ip: IpAddr = "127.0.0.1".parse().unwrap();
            let to: SocketAddr = (std::net::Ipv4Addr::LOCALHOST, t.port).into();
            let timeout = crate::e2e::reply_wait();
            let send = |req: &str| -> Result<HttpRead, Violation> {
                let mut c = HttpClient::connect(ip, to).map_err(|e| Violation::new("inconclusive-connect", e))?;
                c.send_segments(&[req.as_bytes()]).map_err(|e| Violation::new("inconclusive-send", e))?;
                Ok(c.read_reply(timeout))
            };
            let wide_hash = |i: usize| -> String {
                // 20 ASCII letters, distinct per i, first letter varies fastest (spreads over swarm workers)
                let mut s = String::new();
                let mut k = i;
                for _ in 0..4 {
                    s.push((b'a' + (k % 26) as u8) as char);
                    k /= 26;
                }
                s.push_str("LONGESTSCRAPEHASH");
                s.truncate(20);
                s
            };
            // 1. which request lengths does this tracker take? One-hash scrape padded by a header.
            let padded = |len: usize| -> String {
                let head = format!("GET /scrape?info_hash={} HTTP/1.1\r\nX-Pad: ", wide_hash(0));
                let tail = "\r\n\r\n";
                let pad = len.saturating_sub(head.len() + tail.len());
                format!("{head}{}{tail}", "p".repeat(pad))
            };
            let min_len = padded(0).len();
            vensure!(matches!(send(&padded(min_len))?, HttpRead::Ok { .. }), "inconclusive-probe", "the shortest scrape was not answered");
            let (mut lo, mut hi) = (min_len, 65_536usize); // lo answered, hi assumed not
            if matches!(send(&padded(hi))?, HttpRead::Ok { .. }) {
                lo = hi;
            }
            while hi - lo > 1 && lo < hi {
                let mid = (lo + hi) / 2;
                if matches!(send(&padded(mid))?, HttpRead::Ok { .. }) {
                    lo = mid;
                } else {
                    hi = mid;
                }
            }
            let longest_request = lo;
            // 2. the scrapes with the most hashes that such a request can carry
            let scrape = |n: usize| -> String {
                let q: Vec<String> = (0..n).map(|i| format!("info_hash={}", wide_hash(i))).collect();
                format!("GET /scrape?{} HTTP/1.1\r\n\r\n", q.join("&"))
            };
            let mut n_max = 1usize;
            while scrape(n_max + 1).len() <= longest_request {
                n_max += 1;
            }
            let mut ns = vec![n_max, n_max.saturating_sub(1).max(1), (n_max * 9 / 10).max(1)];
            if *max_scrape_torrents < n_max {
                ns.push(*max_scrape_torrents + 1);
                ns.push((*max_scrape_torrents).max(1));
            }
            ns.sort();
            ns.dedup();
            for n in ns {
                let req = scrape(n);
                out.checks += 1;
                let body = match send(&req)? {
                    HttpRead::Ok { body, .. } => body,
                    other => vfail!(
                        "reply-dropped",
                        "accepted configuration max_scrape_torrents={}: the tracker answers requests of up to {longest_request} bytes (probed with a padded one-hash scrape), but a scrape of {n} hashes in a {}-byte request got no complete reply: {:?}",
                        max_scrape_torrents,
                        req.len(),
                        other
                    ),
                };
                let tree = ben_parse_strict(&body[..body.len().saturating_sub(2)]).map_err(|e| Violation::new("reply-malformed", e))?;
                let entries = match tree.get(b"files") {
                    Some(Ben::Dict(d)) => d.len(),
                    _ => vfail!("reply-malformed", "no files dict in the reply to a scrape of {n} hashes"),
                };
                vensure!(entries == n.min(*max_scrape_torrents), "reply-cut-short", "scrape of {n} hashes under limit {} answered with {entries} entries", max_scrape_torrents);
                if body.len() + 45 + 64 >= 4096 {
                    out.label("scrape-reply-over-4k");
                }
            }
            out.nontrivial = true;
            out.label("http-longest-scrape");
            out.label("http");
        }
        Case::Http { v6, max_peers, max_scrape_torrents, scrape_len } => {
            let n = *max_peers;
            let t = start_http(|port| {
                let mut c = http_config(port, 1, 1);
                c.protocol.max_peers = n;
                c.protocol.max_scrape_torrents = *max_scrape_torrents;
                c.cleaning.torrent_cleaning_interval = 100_000;
                c.cleaning.max_peer_age = 100_000;
                c
            });
            let t = match t {
                Ok(t) => t,
                Err(e) if e.contains("run() returned Err") => {
                    out.label("configuration-refused");
                    out.nontrivial = true;
                    return Ok(out);
                }
                Err(e) => return Err(Violation::new("inconclusive-tracker-start", e)),
            };
            out.label("configuration-accepted");
            let ip: IpAddr = if *v6 { "::1".parse().unwrap() } else { "127.0.0.1".parse().unwrap() };
            let to: SocketAddr = if *v6 { (std::net::Ipv6Addr::LOCALHOST, t.port).into() } else { (std::net::Ipv4Addr::LOCALHOST, t.port).into() };
            let mut c = HttpClient::connect(ip, to).map_err(|e| Violation::new("inconclusive-connect", e))?;
            let hash = ascii_hash(77, 1);
            let hs = std::str::from_utf8(&hash).unwrap();
            let timeout = crate::e2e::reply_wait();
            let fill = n + 1;
            for i in 0..fill {
                let req = format!("GET /announce?info_hash={hs}&peer_id=-TR2940-abcdefghijkl&port={}&uploaded=0&downloaded=0&left=1&numwant=1&compact=1 HTTP/1.1\r\nHost: x\r\n\r\n", 1000 + i);
                c.send_segments(&[req.as_bytes()]).map_err(|e| Violation::new("inconclusive-send", e))?;
                match c.read_reply(timeout) {
                    HttpRead::Ok { .. } => {}
                    other => return Err(Violation::new("inconclusive-fill", format!("while filling the swarm (announce {i}): {:?}", other))),
                }
            }
            let req = format!("GET /announce?info_hash={hs}&peer_id=-TR2940-abcdefghijkl&port=60000&uploaded=0&downloaded=0&left=1&numwant={n}&compact=1 HTTP/1.1\r\nHost: x\r\n\r\n");
            c.send_segments(&[req.as_bytes()]).map_err(|e| Violation::new("inconclusive-send", e))?;
            out.checks += 1;
            let body = match c.read_reply(timeout) {
                HttpRead::Ok { body, .. } => body,
                other => vfail!(
                    "reply-dropped",
                    "accepted configuration max_peers={n} ({}): the reply to an announce asking for {n} peers of a swarm of {fill} was not delivered: {:?}",
                    if *v6 { "IPv6" } else { "IPv4" },
                    other
                ),
            };
            let tree = ben_parse_strict(&body[..body.len().saturating_sub(2)]).map_err(|e| Violation::new("reply-malformed", e))?;
            let got = match (tree.get(b"peers"), tree.get(b"peers6")) {
                (Some(Ben::Bytes(a)), Some(Ben::Bytes(b))) => a.len() / 6 + b.len() / 18,
                _ => vfail!("reply-malformed", "no peers in announce reply"),
            };
            let want_min = n.min(fill).saturating_sub(1);
            vensure!(got >= want_min && got <= n, "reply-cut-short", "announce reply carries {got} peers; configuration allows {n}, swarm has {fill}");
            if body.len() + 45 + 64 >= 8192 {
                out.label("reply-near-buffer-size");
                out.nontrivial = true;
            }
            // the connection must still be usable, and the longest scrape must be answered
            let count = (*scrape_len).min(65);
            let q: Vec<String> = (0..count).map(|i| format!("info_hash={}", std::str::from_utf8(&ascii_hash(78, i as u8)).unwrap())).collect();
            let req = format!("GET /scrape?{} HTTP/1.1\r\nHost: x\r\n\r\n", q.join("&"));
            if req.len() <= 2040 && count > 0 {
                c.send_segments(&[req.as_bytes()]).map_err(|e| Violation::new("inconclusive-send", e))?;
                out.checks += 1;
                let body = match c.read_reply(timeout) {
                    HttpRead::Ok { body, .. } => body,
                    other => vfail!(
                        "reply-dropped",
                        "accepted configuration max_scrape_torrents={}: the reply to a scrape of {count} hashes ({} request bytes) was not delivered: {:?}",
                        max_scrape_torrents,
                        req.len(),
                        other
                    ),
                };
                let tree = ben_parse_strict(&body[..body.len().saturating_sub(2)]).map_err(|e| Violation::new("reply-malformed", e))?;
                let entries = match tree.get(b"files") {
                    Some(Ben::Dict(d)) => d.len(),
                    _ => vfail!("reply-malformed", "no files dict"),
                };
                vensure!(entries == count.min(*max_scrape_torrents), "reply-cut-short", "scrape of {count} hashes under limit {} answered with {entries} entries", max_scrape_torrents);
                if body.len() + 45 + 64 >= 4096 {
                    out.label("scrape-reply-over-4k");
                    out.nontrivial = true;
                }
            }
            out.label("http");
        }
    }
    Ok(out)
}

fn window(center: usize, w: usize) -> Vec<usize> {
    (center.saturating_sub(w)..=center + w).collect()
}

pub fn cases(tier: Tier) -> Vec<Case> {
    let w = tier.pick(2, 20);
    let mut v = Vec::new();
    // UDP
    for (uring, v6, center) in [(true, true, 112), (true, false, 338), (false, true, 454), (false, false, 1362)] {
        let mut values = window(center, w);
        values.extend([0, 1, 30, 4500]);
        if tier == Tier::Thorough {
            values.extend([2, 100, 200, 1000]);
        }
        values.sort();
        values.dedup();
        for n in values {
            // the IPv4 boundaries only exist for a tracker without IPv6 (with both families on, the
            // 18-byte peer size decides what is accepted)
            v.push(Case::Udp { uring, v6, max_response_peers: n, max_scrape_torrents: 70, v4_only: !v6 });
            if !v6 && (n <= 30 || n == 4500) {
                v.push(Case::Udp { uring, v6, max_response_peers: n, max_scrape_torrents: 70, v4_only: false });
            }
        }
    }
    for uring in [true, false] {
        let mut ks: Vec<usize> = window(170, w);
        ks.extend([0, 1, 23, 24, 70, 254, 255]);
        ks.retain(|k| *k <= 255);
        ks.sort();
        ks.dedup();
        for k in ks {
            v.push(Case::Udp { uring, v6: false, max_response_peers: 30, max_scrape_torrents: k as u8, v4_only: k % 2 == 1 });
        }
    }
    // HTTP
    for (v6, center) in [(true, 440), (false, 1322)] {
        let mut values = window(center, w + 2);
        values.extend([0, 1, 50, 221, 222, 5000]);
        // beyond where an 8192 byte reply buffer can hold the reply, whatever the validation says
        values.extend(if v6 { [446usize, 447, 450, 460, 500, 876] } else { [1337usize, 1340, 1350, 1400, 2000, 2644] });
        values.sort();
        values.dedup();
        for n in values {
            v.push(Case::Http { v6, max_peers: n, max_scrape_torrents: 100, scrape_len: 65 });
        }
    }
    for limit in tier.pick(vec![1usize, 64, 100, 117, 255, 100_000], vec![1usize, 2, 50, 64, 65, 66, 100, 116, 117, 118, 130, 131, 132, 200, 255, 256, 1000, 100_000, usize::MAX]) {
        for swarm_workers in tier.pick(vec![1usize, 3], vec![1usize, 2, 3]) {
            v.push(Case::HttpLongestScrape { swarm_workers, max_scrape_torrents: limit });
        }
    }
    for n in tier.pick(vec![50usize, 438, 440, 441, 446, 460, 1322], vec![1usize, 50, 400, 436, 437, 438, 439, 440, 441, 442, 443, 446, 447, 460, 500, 876, 1322, 1323]) {
        v.push(Case::HttpProxyV6Clients { max_peers: n });
    }
    for scrape_len in tier.pick(vec![50usize, 56, 57, 58, 59, 64, 65], (50..=65).collect()) {
        for limit in [1usize, 50, 100] {
            v.push(Case::Http { v6: false, max_peers: 50, max_scrape_torrents: limit, scrape_len });
        }
    }
    v
}

pub fn run(ctx: &mut Ctx) {
    ctx.confirm_runs = 2;
    ctx.assume("any error returned by run() at start-up counts as 'configuration refused'; trackers that start are exercised over loopback with the C06/C16 clients and readers");
    ctx.assume("WS has no fixed reply buffer and is not anchored by the property");
    ctx.run_regress::<Case, _>("configs", prop);
    let saved = ctx.threads;
    ctx.threads = saved.min(6);
    ctx.run_enum("configs", cases(ctx.tier), true, prop);
    ctx.threads = saved;
    for l in ["configuration-refused", "configuration-accepted", "reply-near-buffer-size", "uring", "mio", "http", "http-longest-scrape", "http-proxy-v6-clients"] {
        ctx.require_label("configs", l, 0.02);
    }
}

pub fn replay(path: &str, _sub: &str, case: serde_json::Value) -> i32 {
    replay_one::<Case, _>("C18", path, case, prop)
}
