//! C12 — No network input can crash parsing or request handling (DESIGN.md §6 C12)

use std::process::Command;

use proptest::prelude::*;
use serde::{Deserialize, Serialize};

use crate::alloc::measure;
use crate::codecs::*;
use crate::engine::*;
use crate::entries::*;
use crate::{vensure, vfail};

pub const RULE: &str = "every engine feeds the same entry functions (udp_request, udp_response, http_request, http_path, http_response, ws_in text/binary, ws_out, peer_client, access_list_file, http_parse_request). (mutations) proptest builds a valid message for an entry (for tracker replies read by the client library also well-formed bencode whose compact peer strings have every byte length, not only whole 6- / 18-byte entries) and applies structure-aware mutations: truncation at any offset, extension, bit flips, field extremes spliced in, '=' / '&' / '%' in odd places, non-UTF-8 bytes, over-long identifiers, duplicated segments, JSON/bencode nesting; (random) raw random bytes up to the receive-buffer sizes; (nesting) deeply nested JSON / bencode (depth 10 .. 30000; plain, and behind lexical decoys - strings ending in an escaped backslash, escaped quotes, brackets inside strings, \\u escapes, bencode strings made of structure letters - in array, object, alternating and whitespace-separated shapes) run in child processes on a thread with the 2 MiB stack a worker thread has, so a stack overflow is seen as a killed child instead of killing the checker; (handlers) field extremes at storage level (numwant i32::MIN..MAX, left negative/usize::MAX, port extremes, max_response_peers/max_peers/max_offers in {0,1}, 0 and 10000 offers, scrapes of 0 and 10000 hashes); (corpus) committed inputs incl. every crash libFuzzer ever found; (fuzz) libFuzzer campaigns on the same entries, run by bin/check. Oracle: no panic / abort / overflow / out-of-bounds (the build has overflow checks and debug assertions on), bytes allocated by the call <= 128 x input length + 64 KiB (counting global allocator, per thread), rejected input yields an error value. non-trivial = the input is a mutation of a valid message or is accepted by the parser; distinct = distinct input bytes";

#[derive(Debug, Clone, Serialize, Deserialize)]
pub enum Mut {
    Truncate(u16),
    Extend(Vec<u8>),
    FlipBit(u16),
    SetByte(u16, u8),
    /// insert bytes at offset
    Insert(u16, Vec<u8>),
    /// duplicate the range [a, b) at its end
    Duplicate(u16, u16),
    /// replace the first occurrence of a decimal number by an extreme
    NumberExtreme(u8),
}

#[derive(Debug, Clone, Serialize, Deserialize)]
pub struct Case {
    pub entry: u8,
    /// which valid message to start from (per entry); 255 = start from `raw`
    pub base: u8,
    pub raw: Vec<u8>,
    pub muts: Vec<Mut>,
}

const EXTREMES: [&str; 10] = ["0", "-1", "18446744073709551615", "18446744073709551616", "9223372036854775808", "-9223372036854775809", "4294967296", "00000000000000000001", "1e308", "99999999999999999999999999999999999999"];

fn id_pct(b: u8) -> String {
    (0..20).map(|i| format!("%{:02x}", b.wrapping_add(i))).collect()
}

pub fn base_message(entry: &str, base: u8) -> Vec<u8> {
    match entry {
        "udp_request" => {
            let mut v = vec![70u8];
            v.extend(match base % 3 {
                0 => bep15_encode_request(&UReq::Connect { tid: 7 }),
                1 => bep15_encode_request(&UReq::Announce { cid: 1, tid: 2, info_hash: [3; 20], peer_id: [4; 20], downloaded: 5, left: 6, uploaded: 7, event: (base / 3 % 4) as i32, ip: [0; 4], key: 8, numwant: -1, port: 6881 }),
                _ => bep15_encode_request(&UReq::Scrape { cid: 1, tid: 2, hashes: (0..(base / 3 % 80 + 1)).map(|i| [i; 20]).collect() }),
            });
            v
        }
        "udp_response" => {
            let mut v = vec![base % 2];
            v.extend(match base % 5 {
                0 => bep15_encode_response(&URsp::Connect { tid: 1, cid: 2 }),
                1 => bep15_encode_response(&URsp::Announce4 { tid: 1, interval: 2, leechers: 3, seeders: 4, peers: (0..base / 5).map(|i| ([i, 1, 2, 3], 5)).collect() }),
                2 => bep15_encode_response(&URsp::Announce6 { tid: 1, interval: 2, leechers: 3, seeders: 4, peers: (0..base / 5).map(|i| ([i; 16], 5)).collect() }),
                3 => bep15_encode_response(&URsp::Scrape { tid: 1, stats: (0..base / 5).map(|i| (i as i32, 0, 1)).collect() }),
                _ => bep15_encode_response(&URsp::Error { tid: 1, message: "Info hash not allowed".into() }),
            });
            v
        }
        "http_request" | "http_parse_request" => {
            let path = String::from_utf8(base_message("http_path", base)).unwrap();
            let mut v = if entry == "http_parse_request" { vec![base / 7 % 2] } else { vec![] };
            v.extend(format!("GET {path} HTTP/1.1\r\nHost: example.com\r\nX-Forwarded-For: 1.2.3.4, 5.6.7.8\r\nUser-Agent: x\r\n\r\n").into_bytes());
            v
        }
        "http_path" => match base % 3 {
            0 => format!("/announce?info_hash={}&peer_id={}&port=12345&uploaded=1&downloaded=2&left=3&numwant=50&key=4ab4b877&compact=1&supportcrypto=1&event=started", id_pct(base), id_pct(7)).into_bytes(),
            1 => format!("/announce?info_hash=aaaaaaaaaaaaaaaaaaaa&peer_id=-TR2940-abcdefghijkl&port=1&uploaded=0&downloaded=0&left=0").into_bytes(),
            _ => format!("/scrape?{}", (0..(base / 3 % 20 + 1)).map(|i| format!("info_hash={}", id_pct(i))).collect::<Vec<_>>().join("&")).into_bytes(),
        },
        "http_response" => match base % 3 {
            0 => {
                let mut v = b"d8:completei1e10:incompletei2e8:intervali120e5:peers".to_vec();
                // compact peer strings of every byte length, each with a consistent length prefix:
                // whole entries (6 / 18 bytes each) as a tracker writes them, and ragged ones -
                // a length that is a multiple of one entry size but not of the other included
                let n = (base / 3 % 20) as usize;
                let ragged4 = if base >= 128 { (base % 7) as usize } else { 0 };
                let len6 = match base / 3 % 4 {
                    0 => 18,
                    1 => 18 * (base as usize / 12 % 5),
                    _ => base as usize / 5 % 50,
                };
                v.extend(format!("{}:", n * 6 + ragged4).into_bytes());
                v.extend(std::iter::repeat(7u8).take(n * 6 + ragged4));
                v.extend(format!("6:peers6{}:", len6).into_bytes());
                v.extend(std::iter::repeat(8u8).take(len6));
                v.extend(b"e");
                v
            }
            1 => {
                let mut v = b"d5:filesd".to_vec();
                for i in 0..(base / 3 % 10 + 1) {
                    v.extend(b"20:");
                    v.extend([i; 20]);
                    v.extend(b"d8:completei1e10:downloadedi0e10:incompletei2ee");
                }
                v.extend(b"ee");
                v
            }
            _ => b"d14:failure reason21:Info hash not allowede".to_vec(),
        },
        "ws_in_text" | "ws_in_binary" => match base % 4 {
            0 => br#"{"action":"announce","info_hash":"aaaaaaaaaaaaaaaaaaaa","peer_id":"bbbbbbbbbbbbbbbbbbbb","left":1,"event":"started","numwant":2,"offers":[{"offer":{"type":"offer","sdp":"v=0\r\n"},"offer_id":"cccccccccccccccccccc"},{"offer":{"type":"offer","sdp":"x"},"offer_id":"dddddddddddddddddddd"}]}"#.to_vec(),
            1 => br#"{"action":"announce","info_hash":"aaaaaaaaaaaaaaaaaaaa","peer_id":"bbbbbbbbbbbbbbbbbbbb","left":0,"answer":{"type":"answer","sdp":"y"},"to_peer_id":"eeeeeeeeeeeeeeeeeeee","offer_id":"cccccccccccccccccccc"}"#.to_vec(),
            2 => br#"{"action":"scrape","info_hash":["aaaaaaaaaaaaaaaaaaaa","ffffffffffffffffffff"]}"#.to_vec(),
            _ => br#"{"action":"scrape","info_hash":"aaaaaaaaaaaaaaaaaaaa"}"#.to_vec(),
        },
        "ws_out" => match base % 5 {
            0 => br#"{"action":"announce","info_hash":"aaaaaaaaaaaaaaaaaaaa","complete":1,"incomplete":2,"interval":120}"#.to_vec(),
            1 => br#"{"action":"scrape","files":{"aaaaaaaaaaaaaaaaaaaa":{"complete":1,"incomplete":2,"downloaded":0}}}"#.to_vec(),
            2 => br#"{"action":"announce","peer_id":"bbbbbbbbbbbbbbbbbbbb","info_hash":"aaaaaaaaaaaaaaaaaaaa","offer":{"type":"offer","sdp":"x"},"offer_id":"cccccccccccccccccccc"}"#.to_vec(),
            3 => br#"{"action":"announce","peer_id":"bbbbbbbbbbbbbbbbbbbb","info_hash":"aaaaaaaaaaaaaaaaaaaa","answer":{"type":"answer","sdp":"x"},"offer_id":"cccccccccccccccccccc"}"#.to_vec(),
            _ => br#"{"failure reason":"Invalid request","action":"announce","info_hash":"aaaaaaaaaaaaaaaaaaaa"}"#.to_vec(),
        },
        "peer_client" => match base % 6 {
            0 => b"-TR2940-abcdefghijkl".to_vec(),
            1 => b"M7-10-5--bcdefghijkl".to_vec(),
            2 => b"-qB4250-abcdefghijkl".to_vec(),
            3 => b"-WW0102-abcdefghijkl".to_vec(),
            4 => b"T03I-----abcdefghijk".to_vec(),
            _ => b"-UT355W-abcdefghijkl".to_vec(),
        },
        "access_list_file" => b"aaaaaaaaaaaaaaaaaaaaaaaaaaaaaaaaaaaaaaaa\nBBBBBBBBBBBBBBBBBBBBBBBBBBBBBBBBBBBBBBBB\r\n\n  cccccccccccccccccccccccccccccccccccccccc  \n".to_vec(),
        _ => vec![],
    }
}

pub fn build_input(case: &Case) -> (String, Vec<u8>) {
    let entry = ENTRIES[case.entry as usize % ENTRIES.len()];
    let mut data = if case.base == 255 { case.raw.clone() } else { base_message(entry, case.base) };
    for m in &case.muts {
        match m {
            Mut::Truncate(n) => {
                let n = *n as usize % (data.len() + 1);
                data.truncate(n);
            }
            Mut::Extend(b) => data.extend_from_slice(b),
            Mut::FlipBit(i) => {
                if !data.is_empty() {
                    let i = *i as usize % (data.len() * 8);
                    data[i / 8] ^= 1 << (i % 8);
                }
            }
            Mut::SetByte(i, b) => {
                if !data.is_empty() {
                    let i = *i as usize % data.len();
                    data[i] = *b;
                }
            }
            Mut::Insert(i, b) => {
                let i = *i as usize % (data.len() + 1);
                let tail = data.split_off(i);
                data.extend_from_slice(b);
                data.extend(tail);
            }
            Mut::Duplicate(a, b) => {
                if !data.is_empty() {
                    let a = *a as usize % data.len();
                    let b = a + (*b as usize % (data.len() - a) + 1).min(4096);
                    let seg = data[a..b.min(data.len())].to_vec();
                    let tail = data.split_off(b.min(data.len()));
                    data.extend_from_slice(&seg);
                    data.extend(tail);
                }
            }
            Mut::NumberExtreme(k) => {
                // replace the first run of ASCII digits after position k%len
                if !data.is_empty() {
                    let start = *k as usize % data.len();
                    if let Some(p) = data[start..].iter().position(|b| b.is_ascii_digit()) {
                        let p = start + p;
                        let e = data[p..].iter().position(|b| !b.is_ascii_digit()).map(|x| p + x).unwrap_or(data.len());
                        let ext = EXTREMES[*k as usize % EXTREMES.len()].as_bytes();
                        let tail = data.split_off(e);
                        data.truncate(p);
                        data.extend_from_slice(ext);
                        data.extend(tail);
                    }
                }
            }
        }
        if data.len() > 70_000 {
            data.truncate(70_000);
        }
    }
    (entry.to_string(), data)
}

pub fn judge(entry: &str, data: &[u8], out: &mut Outcome) -> Result<(), Violation> {
    warm_up();
    let (r, allocated, largest) = measure(|| catch_panic(|| run_entry(entry, data)));
    out.checks += 2;
    let o = match r {
        Ok(o) => o,
        Err(p) => {
            return Err(Violation::new(
                "parser-panic",
                format!("entry {entry} panicked on a {} byte input: {p}; input (hex, first 200 bytes) {}", data.len(), hexs(&data[..data.len().min(200)])),
            ))
        }
    };
    let bound = 128 * data.len() as u64 + 64 * 1024;
    vensure!(
        allocated <= bound,
        "allocation-bound",
        "entry {entry} allocated {allocated} bytes (largest single request {largest}) for a {} byte input; bound 128 x len + 64 KiB = {bound}; input (hex, first 120 bytes) {}",
        data.len(),
        hexs(&data[..data.len().min(120)])
    );
    if o.accepted {
        out.label("accepted");
        out.nontrivial = true;
        if o.roundtrip_equal == Some(false) {
            out.label("accepted-but-roundtrip-differs");
        }
    } else {
        out.label("rejected");
    }
    Ok(())
}

fn hexs(b: &[u8]) -> String {
    b.iter().map(|x| format!("{:02x}", x)).collect()
}

pub fn prop(case: &Case) -> CaseResult {
    let mut out = Outcome::default();
    let (entry, data) = build_input(case);
    judge(&entry, &data, &mut out)?;
    if case.base != 255 {
        out.nontrivial = true;
        out.label("mutated-valid-message");
    } else {
        out.label("raw-bytes");
    }
    out.label(&entry);
    Ok(out)
}

fn mutation() -> impl Strategy<Value = Mut> {
    let odd = prop_oneof![
        Just(b"=".to_vec()),
        Just(b"&".to_vec()),
        Just(b"&&==".to_vec()),
        Just(b"%".to_vec()),
        Just(b"%zz".to_vec()),
        Just(b"%f".to_vec()),
        Just(vec![0xff, 0xfe]),
        Just(vec![0xc3, 0x28]),
        Just(vec![0]),
        Just(b"\r\n".to_vec()),
        Just(b"\r\n\r\n".to_vec()),
        Just("\u{130}".as_bytes().to_vec()),
        Just(b"[[[[[[[[[[[[[[[[".to_vec()),
        Just(b"{\"a\":{\"a\":{\"a\":".to_vec()),
        Just(b"llllllllllllllll".to_vec()),
        Just(b"d1:ad1:ad1:a".to_vec()),
        Just(b"\"\\ud800\"".to_vec()),
        Just(b"99999999999999999999:".to_vec()),
        Just(b"i-0e".to_vec()),
        Just(b"aaaaaaaaaaaaaaaaaaaaaaaaaaaaaaaaaaaaaaaaa".to_vec()),
        proptest::collection::vec(any::<u8>(), 1..40),
    ];
    prop_oneof![
        3 => any::<u16>().prop_map(Mut::Truncate),
        2 => prop_oneof![odd.clone(), proptest::collection::vec(any::<u8>(), 1..400)].prop_map(Mut::Extend),
        3 => any::<u16>().prop_map(Mut::FlipBit),
        2 => (any::<u16>(), any::<u8>()).prop_map(|(i, b)| Mut::SetByte(i, b)),
        4 => (any::<u16>(), odd).prop_map(|(i, b)| Mut::Insert(i, b)),
        1 => (any::<u16>(), any::<u16>()).prop_map(|(a, b)| Mut::Duplicate(a, b)),
        2 => any::<u8>().prop_map(Mut::NumberExtreme),
    ]
}

fn case_strategy() -> impl Strategy<Value = Case> {
    prop_oneof![
        8 => (0u8..ENTRIES.len() as u8, 0u8..250, proptest::collection::vec(mutation(), 0..5)).prop_map(|(entry, base, muts)| Case { entry, base, raw: vec![], muts }),
        2 => (0u8..ENTRIES.len() as u8, prop_oneof![proptest::collection::vec(any::<u8>(), 0..64), proptest::collection::vec(any::<u8>(), 0..2048)]).prop_map(|(entry, raw)| Case { entry, base: 255, raw, muts: vec![] }),
    ]
}

// ---- nesting (child processes, 2 MiB stack) ---------------------------------------------------

#[derive(Debug, Clone, Serialize, Deserialize)]
pub struct NestCase {
    pub entry: String,
    /// 0 "[", 1 {"a":, 2 bencode "l", 3 bencode "d1:a", 4 JSON inside an announce's unknown field, 5 inside offers
    pub shape: u8,
    pub depth: u32,
    /// lexical decoy placed before the nested part (0 = none): content that a hand-written
    /// scanner in front of the recursive parser could mis-read - strings ending in an escaped
    /// backslash, escaped quotes, brackets inside strings, \u escapes, bencode strings made of
    /// structure letters, odd integers
    #[serde(default)]
    pub decoy: u8,
}

pub const JSON_DECOYS: [&str; 10] = [
    "",
    r#""k":"C:\\","#,
    r#""k":"\"","#,
    r#""k":"\\\"","#,
    r#""k":"]]]]]]]]}}}}}}}}","#,
    r#""k":"[[[[[[[[{{{{{{{{","#,
    r#""k\"":1,"#,
    r#""k":"\u005c","#,
    r#""k":"\u0022\\","#,
    r#""k":"\\","j":"\\\\","#,
];

pub const BENCODE_DECOYS: [&str; 7] = ["", "1:a5:lllll", "1:a5:eeeee", "1:a5:ddddd", "1:ai-1e", "1:a0:", "1:a3:i1e"];

pub fn nest_input(c: &NestCase) -> Vec<u8> {
    let d = c.depth as usize;
    if c.decoy != 0 {
        // decoys only make sense inside an enclosing object / dictionary
        return match c.shape % 8 {
            2 | 3 => {
                let mut v = b"d".to_vec();
                v.extend(BENCODE_DECOYS[c.decoy as usize % BENCODE_DECOYS.len()].as_bytes());
                v.extend(b"1:b");
                if c.shape % 8 == 2 {
                    v.extend(std::iter::repeat(b'l').take(d));
                    v.extend(std::iter::repeat(b'e').take(d));
                } else {
                    for _ in 0..d {
                        v.extend(b"d1:a");
                    }
                    v.extend(b"i1e");
                    v.extend(std::iter::repeat(b'e').take(d));
                }
                v.extend(b"e");
                v
            }
            s => {
                let mut v = br#"{"action":"announce","info_hash":"aaaaaaaaaaaaaaaaaaaa","peer_id":"bbbbbbbbbbbbbbbbbbbb","left":1,"#.to_vec();
                v.extend(JSON_DECOYS[c.decoy as usize % JSON_DECOYS.len()].as_bytes());
                v.extend(if s == 5 { &br#""offers":"#[..] } else { &br#""x":"#[..] });
                match s {
                    1 | 6 => {
                        for _ in 0..d {
                            v.extend(b"[{\"a\":");
                        }
                        v.extend(b"1");
                        for _ in 0..d {
                            v.extend(b"}]");
                        }
                    }
                    7 => {
                        for _ in 0..d {
                            v.extend(b"[ ");
                        }
                        for _ in 0..d {
                            v.extend(b"\n]");
                        }
                    }
                    _ => {
                        v.extend(std::iter::repeat(b'[').take(d));
                        v.extend(std::iter::repeat(b']').take(d));
                    }
                }
                v.extend(b"}");
                v
            }
        };
    }
    match c.shape % 6 {
        0 => [vec![b'['; d], vec![b']'; d]].concat(),
        1 => {
            let mut v = Vec::new();
            for _ in 0..d {
                v.extend(b"{\"a\":");
            }
            v.extend(b"1");
            v.extend(std::iter::repeat(b'}').take(d));
            v
        }
        2 => [vec![b'l'; d], vec![b'e'; d]].concat(),
        3 => {
            let mut v = Vec::new();
            for _ in 0..d {
                v.extend(b"d1:a");
            }
            v.extend(b"i1e");
            v.extend(std::iter::repeat(b'e').take(d));
            v
        }
        4 => {
            let mut v = br#"{"action":"announce","info_hash":"aaaaaaaaaaaaaaaaaaaa","peer_id":"bbbbbbbbbbbbbbbbbbbb","left":1,"x":"#.to_vec();
            v.extend(std::iter::repeat(b'[').take(d));
            v.extend(std::iter::repeat(b']').take(d));
            v.extend(b"}");
            v
        }
        _ => {
            let mut v = br#"{"action":"announce","info_hash":"aaaaaaaaaaaaaaaaaaaa","peer_id":"bbbbbbbbbbbbbbbbbbbb","left":1,"offers":"#.to_vec();
            v.extend(std::iter::repeat(b'[').take(d));
            v.extend(std::iter::repeat(b']').take(d));
            v.extend(b"}");
            v
        }
    }
}

/// `vcheck --c12-write-seeds <dir>`: valid messages per entry as libFuzzer seed corpus
pub fn write_seeds(args: &[String]) -> i32 {
    let dir = std::path::PathBuf::from(args.first().cloned().unwrap_or_default());
    for entry in ENTRIES {
        let d = dir.join(entry);
        let _ = std::fs::create_dir_all(&d);
        let mut seen = std::collections::BTreeSet::new();
        for base in 0..250u8 {
            let m = base_message(entry, base);
            if seen.insert(m.clone()) && seen.len() <= 40 {
                let _ = std::fs::write(d.join(format!("seed-{:03}", base)), &m);
            }
        }
    }
    0
}

pub fn child_main(args: &[String]) -> i32 {
    let c: NestCase = match args.first().and_then(|s| serde_json::from_str(s).ok()) {
        Some(c) => c,
        None => return 2,
    };
    let data = nest_input(&c);
    let entry = c.entry.clone();
    // the stack a tracker worker thread has (std default: 2 MiB)
    warm_up();
    let h = std::thread::Builder::new().stack_size(2 * 1024 * 1024).spawn(move || {
        let (r, allocated, _) = measure(|| catch_panic(|| run_entry(&entry, &data)));
        (r.map(|o| o.accepted), allocated, data.len())
    });
    match h.map(|h| h.join()) {
        Ok(Ok((Ok(acc), allocated, len))) => {
            println!("OK accepted={acc} allocated={allocated} len={len}");
            0
        }
        Ok(Ok((Err(p), _, _))) => {
            println!("PANIC {p}");
            1
        }
        _ => {
            println!("THREAD-FAILED");
            1
        }
    }
}

pub fn prop_nest(c: &NestCase) -> CaseResult {
    let mut out = Outcome::default();
    let exe = std::env::current_exe().map_err(|e| Violation::new("inconclusive-io", e.to_string()))?;
    let o = Command::new(exe).arg("--c12-child").arg(serde_json::to_string(c).unwrap()).output().map_err(|e| Violation::new("inconclusive-io", e.to_string()))?;
    let stdout = String::from_utf8_lossy(&o.stdout).to_string();
    out.checks += 1;
    use std::os::unix::process::ExitStatusExt;
    if let Some(sig) = o.status.signal() {
        vfail!(
            "stack-overflow-or-abort",
            "entry {} on a 2 MiB stack was killed by signal {sig} for input shape {} nested {} deep ({} bytes): {}",
            c.entry,
            c.shape,
            c.depth,
            nest_input(c).len(),
            String::from_utf8_lossy(&o.stderr).lines().last().unwrap_or("")
        );
    }
    match o.status.code() {
        Some(0) => {
            let allocated: u64 = stdout.split("allocated=").nth(1).and_then(|s| s.split_whitespace().next()).and_then(|s| s.parse().ok()).unwrap_or(0);
            let len = nest_input(c).len() as u64;
            vensure!(allocated <= 128 * len + 64 * 1024, "allocation-bound", "entry {} allocated {allocated} bytes for a {len} byte nested input (depth {})", c.entry, c.depth);
            if stdout.contains("accepted=true") {
                out.label("accepted");
            }
        }
        Some(1) => vfail!("parser-panic", "entry {} panicked on nesting depth {}: {}", c.entry, c.depth, stdout.trim()),
        _ => return Err(Violation::new("inconclusive-child", format!("{:?}: {}", o.status, stdout))),
    }
    if c.depth >= 1000 {
        out.nontrivial = true;
        out.label("deep");
    }
    Ok(out)
}

fn nest_cases(tier: Tier) -> Vec<NestCase> {
    let depths: Vec<u32> = tier.pick(vec![10, 100, 127, 128, 129, 1000, 5000, 16000, 30000], vec![1, 10, 64, 100, 126, 127, 128, 129, 130, 256, 512, 1000, 2000, 5000, 10000, 16000, 20000, 30000, 32000]);
    let mut v = Vec::new();
    for d in depths {
        for (entry, shapes) in [("ws_in_text", vec![0u8, 1, 4, 5]), ("ws_in_binary", vec![0, 1, 4, 5]), ("ws_out", vec![0, 1, 4]), ("http_response", vec![2, 3])] {
            for shape in shapes {
                let c = NestCase { entry: entry.to_string(), shape, depth: d, decoy: 0 };
                // stay within the receive-buffer sizes: 64 KiB WebSocket message
                if nest_input(&c).len() <= 64 * 1024 {
                    v.push(c);
                }
            }
        }
    }
    // lexical decoys in front of the nesting: every decoy at a shallow, a boundary and the deepest
    // depth that fits a message
    for d in tier.pick(vec![40u32, 3000, 30000], vec![33, 40, 129, 1000, 3000, 16000, 30000]) {
        for (entry, shapes, decoys) in [
            ("ws_in_text", vec![4u8, 5, 6, 7], JSON_DECOYS.len()),
            ("ws_in_binary", vec![4, 6], JSON_DECOYS.len()),
            ("ws_out", vec![4, 7], JSON_DECOYS.len()),
            ("http_response", vec![2, 3], BENCODE_DECOYS.len()),
        ] {
            for shape in shapes {
                for decoy in 1..decoys as u8 {
                    let mut c = NestCase { entry: entry.to_string(), shape, depth: d, decoy };
                    // shapes with longer units: keep the message within 64 KiB
                    while nest_input(&c).len() > 64 * 1024 && c.depth > 40 {
                        c.depth = c.depth * 3 / 4;
                    }
                    if nest_input(&c).len() <= 64 * 1024 {
                        v.push(c);
                    }
                }
            }
        }
    }
    v
}

// ---- end to end: garbage against running trackers, in a child process -------------------------

#[derive(Debug, Clone, Serialize, Deserialize)]
pub struct E2eCase {
    /// "ws" | "http" | "udp-mio" | "udp-uring"
    pub tracker: String,
    pub seed: u64,
    pub inputs: u32,
}

fn e2e_inputs(entry_names: &[&str], seed: u64, n: u32) -> Vec<Vec<u8>> {
    let mut v = Vec::new();
    for i in 0..n {
        let case = sample_strategy(&case_strategy(), derive_seed(seed, "C12", "e2e", i as u64));
        let idx = ENTRIES.iter().position(|e| *e == entry_names[i as usize % entry_names.len()]).unwrap() as u8;
        let case = Case { entry: idx, ..case };
        let (_, data) = build_input(&case);
        v.push(data);
    }
    v
}

pub fn e2e_child_main(args: &[String]) -> i32 {
    use crate::e2e::*;
    use std::time::Duration;
    let c: E2eCase = match args.first().and_then(|s| serde_json::from_str(s).ok()) {
        Some(c) => c,
        None => return 2,
    };
    match c.tracker.as_str() {
        "ws" => {
            use aquatic_ws_protocol::common::*;
            use aquatic_ws_protocol::incoming::*;
            use aquatic_ws_protocol::outgoing::OutMessage;
            let t = match start_ws(|port| ws_config(port, 1, 1, false)) {
                Ok(t) => t,
                Err(e) => {
                    println!("START-FAILED {e}");
                    return 2;
                }
            };
            let to: std::net::SocketAddr = (std::net::Ipv4Addr::LOCALHOST, t.port).into();
            let mut a = match WsClient::connect("127.0.0.1".parse().unwrap(), to) {
                Ok(a) => a,
                Err(e) => {
                    println!("CONNECT-FAILED {e}");
                    return 2;
                }
            };
            let ann = InMessage::AnnounceRequest(AnnounceRequest {
                action: AnnounceAction::Announce,
                info_hash: InfoHash([b'T'; 20]),
                peer_id: PeerId([b'A'; 20]),
                bytes_left: Some(0),
                event: None,
                offers: None,
                numwant: None,
                answer: None,
                answer_to_peer_id: None,
                answer_offer_id: None,
            });
            let text = |m: &InMessage| match m.to_ws_message() {
                tungstenite::Message::Text(t) => t.as_str().to_string(),
                _ => String::new(),
            };
            let _ = a.send_text(text(&ann));
            let _ = a.recv(Duration::from_secs(5));
            let mut inputs = e2e_inputs(&["ws_in_text", "ws_in_binary"], c.seed, c.inputs);
            // fixed worst cases: deep nesting within the 64 KiB message limit, over-size message
            inputs.push([vec![b'['; 30_000], vec![b']'; 30_000]].concat());
            inputs.push(nest_input(&NestCase { entry: String::new(), shape: 1, depth: 10_000, decoy: 0 }));
            inputs.push(nest_input(&NestCase { entry: String::new(), shape: 5, depth: 20_000, decoy: 0 }));
            for decoy in 1..JSON_DECOYS.len() as u8 {
                inputs.push(nest_input(&NestCase { entry: String::new(), shape: 4, depth: 30_000, decoy }));
            }
            inputs.push(vec![b'a'; 70_000]);
            for (i, data) in inputs.iter().enumerate() {
                let mut b = match WsClient::connect("127.0.0.2".parse().unwrap(), to) {
                    Ok(b) => b,
                    Err(e) => {
                        println!("TRACKER-UNREACHABLE after {i} inputs: {e}");
                        return 1;
                    }
                };
                let msg = match std::str::from_utf8(data) {
                    Ok(s) if i % 2 == 0 => tungstenite::Message::text(s.to_string()),
                    _ => tungstenite::Message::binary(data.clone()),
                };
                let _ = b.ws.send(msg);
                let _ = b.recv(Duration::from_millis(if data.len() > 10_000 { 500 } else { 20 }));
            }
            // state unchanged: the seeder announced before the garbage is still the only peer
            let scrape = InMessage::ScrapeRequest(ScrapeRequest { action: ScrapeAction::Scrape, info_hashes: Some(ScrapeRequestInfoHashes::Single(InfoHash([b'T'; 20]))) });
            if a.send_text(text(&scrape)).is_err() {
                println!("STATE-CHECK-FAILED cannot send on the first connection");
                return 1;
            }
            match a.recv(crate::e2e::reply_wait()) {
                Ok(Some(m)) => match OutMessage::from_ws_message(m) {
                    Ok(OutMessage::ScrapeResponse(s)) => {
                        let st = s.files.get(&InfoHash([b'T'; 20])).map(|f| (f.complete, f.incomplete));
                        if st == Some((1, 0)) && s.files.len() == 1 {
                            println!("OK inputs={}", inputs.len());
                            0
                        } else {
                            println!("STATE-CHANGED scrape after garbage: {:?}", s.files);
                            1
                        }
                    }
                    other => {
                        println!("STATE-CHECK-FAILED {:?}", other);
                        1
                    }
                },
                other => {
                    println!("STATE-CHECK-FAILED {:?}", other.map(|_| ()));
                    1
                }
            }
        }
        "http" => {
            let t = match start_http(|port| http_config(port, 1, 1)) {
                Ok(t) => t,
                Err(e) => {
                    println!("START-FAILED {e}");
                    return 2;
                }
            };
            let to: std::net::SocketAddr = (std::net::Ipv4Addr::LOCALHOST, t.port).into();
            let req = |left: u32, port: u16| format!("GET /announce?info_hash=TTTTTTTTTTTTTTTTTTTT&peer_id=-TR2940-abcdefghijkl&port={port}&uploaded=0&downloaded=0&left={left} HTTP/1.1\r\nHost: x\r\n\r\n");
            let mut a = match HttpClient::connect("127.0.0.1".parse().unwrap(), to) {
                Ok(a) => a,
                Err(e) => {
                    println!("CONNECT-FAILED {e}");
                    return 2;
                }
            };
            let _ = a.send_segments(&[req(0, 1000).as_bytes()]);
            let _ = a.read_reply(Duration::from_secs(5));
            let inputs = e2e_inputs(&["http_request"], c.seed, c.inputs);
            for (i, data) in inputs.iter().enumerate() {
                let mut b = match HttpClient::connect("127.0.0.2".parse().unwrap(), to) {
                    Ok(b) => b,
                    Err(e) => {
                        println!("TRACKER-UNREACHABLE after {i} inputs: {e}");
                        return 1;
                    }
                };
                let _ = b.send_segments(&[data]);
                let _ = b.read_reply(Duration::from_millis(5));
            }
            let _ = a.send_segments(&[b"GET /scrape?info_hash=TTTTTTTTTTTTTTTTTTTT HTTP/1.1\r\nHost: x\r\n\r\n"]);
            match a.read_reply(crate::e2e::reply_wait()) {
                HttpRead::Ok { body, .. } => {
                    let want = b"d5:filesd20:TTTTTTTTTTTTTTTTTTTTd8:completei1e10:downloadedi0e10:incompletei0eeee\r\n";
                    // garbage that happens to be a valid announce for this torrent is possible only
                    // with this exact info hash; the generator never produces it
                    if body == want {
                        println!("OK inputs={}", inputs.len());
                        0
                    } else {
                        println!("STATE-CHANGED scrape after garbage: {:?}", String::from_utf8_lossy(&body));
                        1
                    }
                }
                other => {
                    println!("STATE-CHECK-FAILED {:?}", other);
                    1
                }
            }
        }
        kind => {
            let uring = kind == "udp-uring";
            let t = match start_udp(|port| udp_config(port, SocketMode::Both, uring, 1)) {
                Ok(t) => t,
                Err(e) => {
                    println!("START-FAILED {e}");
                    return 2;
                }
            };
            let a = match UdpClient::new("127.0.0.1".parse().unwrap(), t.port) {
                Ok(a) => a,
                Err(e) => {
                    println!("CONNECT-FAILED {e}");
                    return 2;
                }
            };
            let _ = a.send(&bep15_encode_request(&UReq::Connect { tid: 1 }));
            let cid = match a.recv(crate::e2e::reply_wait()).map(|(b, _)| bep15_decode_response(&b, true)) {
                Some(Ok(URsp::Connect { cid, .. })) => cid,
                other => {
                    println!("CONNECT-FAILED {:?}", other);
                    return 2;
                }
            };
            let _ = a.send(&bep15_encode_request(&UReq::Announce { cid, tid: 2, info_hash: [b'T'; 20], peer_id: [1; 20], downloaded: 0, left: 0, uploaded: 0, event: 2, ip: [0; 4], key: 0, numwant: 0, port: 1000 }));
            let _ = a.recv(Duration::from_secs(5));
            let b = UdpClient::new("127.0.0.2".parse().unwrap(), t.port).unwrap();
            let inputs = e2e_inputs(&["udp_request"], c.seed, c.inputs);
            for data in inputs.iter() {
                // first byte of the entry input is the max_scrape parameter, not part of the datagram
                let _ = b.send(data.get(1..).unwrap_or(&[]));
                while b.try_recv().is_some() {}
            }
            std::thread::sleep(Duration::from_millis(50));
            let _ = a.send(&bep15_encode_request(&UReq::Scrape { cid, tid: 3, hashes: vec![[b'T'; 20]] }));
            match a.recv(crate::e2e::reply_wait()).map(|(b, _)| bep15_decode_response(&b, true)) {
                Some(Ok(URsp::Scrape { stats, .. })) if stats == vec![(1, 0, 0)] => {
                    println!("OK inputs={}", inputs.len());
                    0
                }
                other => {
                    println!("STATE-CHANGED-OR-DEAD scrape after garbage: {:?}", other);
                    1
                }
            }
        }
    }
}

pub fn prop_e2e(c: &E2eCase) -> CaseResult {
    let mut out = Outcome::default();
    let exe = std::env::current_exe().map_err(|e| Violation::new("inconclusive-io", e.to_string()))?;
    let o = Command::new(exe).arg("--c12-e2e-child").arg(serde_json::to_string(c).unwrap()).output().map_err(|e| Violation::new("inconclusive-io", e.to_string()))?;
    let stdout = String::from_utf8_lossy(&o.stdout).to_string();
    out.checks += 1;
    use std::os::unix::process::ExitStatusExt;
    if let Some(sig) = o.status.signal() {
        vfail!(
            "tracker-process-killed",
            "a running {} tracker (and the process hosting it) was killed by signal {sig} while receiving generated garbage (seed {}): {}",
            c.tracker,
            c.seed,
            String::from_utf8_lossy(&o.stderr).lines().rev().take(2).collect::<Vec<_>>().join(" / ")
        );
    }
    match o.status.code() {
        Some(0) => {
            out.label(&c.tracker);
            out.nontrivial = true;
            Ok(out)
        }
        Some(1) => vfail!("tracker-state-changed-or-dead", "{}: {}", c.tracker, stdout.trim()),
        _ => Err(Violation::new("inconclusive-child", format!("{:?}: {}", o.status, stdout))),
    }
}

// ---- handler extremes -------------------------------------------------------------------------

#[derive(Debug, Clone, Serialize, Deserialize)]
pub enum HandlerCase {
    Udp { max_response_peers: usize, numwant: i32, left: i64, port: u16, swarm: u16, scrape_hashes: u16 },
    Http { max_peers: usize, numwant: Option<u64>, left: u64, port: u16, swarm: u16, scrape_hashes: u16, max_scrape: usize },
    Ws { max_offers: usize, offers: u16, left: Option<u64>, swarm: u16, scrape_hashes: u16, max_scrape: usize },
}

pub fn prop_handler(c: &HandlerCase) -> CaseResult {
    use crate::httpdrv::*;
    use crate::udpdrv::*;
    use crate::wsdrv::*;
    let mut out = Outcome::default();
    let r = measure(|| match c {
        HandlerCase::Udp { max_response_peers, numwant, left, port, swarm, scrape_hashes } => {
            let mut ops: Vec<UdpOp> = (0..*swarm)
                .map(|i| UdpOp::Announce { t: 0, fam: 0, ip: (i % 200) as u8, port: (i / 200) as u8, pid: 0, event: 2, left: (i % 2) as i64, numwant: 1, ttl: 10, req_ip: [0; 4], tid: 0 })
                .collect();
            ops.push(UdpOp::Announce { t: 0, fam: 0, ip: 201, port: (*port % 250) as u8, pid: 1, event: 2, left: *left, numwant: *numwant, ttl: 10, req_ip: [255; 4], tid: 1 });
            ops.push(UdpOp::Scrape { fam: 0, hashes: (0..*scrape_hashes).map(|i| (i % 6) as u8).collect(), tid: 2 });
            ops.push(UdpOp::Clean { dt: 100, export: false });
            let case = UdpCase { max_response_peers: *max_response_peers, rng_seed: 1, peer_clients: true, histograms: true, access_mode: 0, ops };
            run_udp_case(&case, Oracles { stats_totals: true, ..Default::default() })
        }
        HandlerCase::Http { max_peers, numwant, left, port, swarm, scrape_hashes, max_scrape } => {
            let mut ops: Vec<HttpOp> = (0..*swarm).map(|i| HttpOp::Announce { t: 0, fam: 0, ip: (i % 200) as u8, port: (i / 200) as u8, event: 2, left: (i % 2) as u64, numwant: Some(1), ttl: 10 }).collect();
            ops.push(HttpOp::Announce { t: 0, fam: 0, ip: 201, port: (*port % 250) as u8, event: 2, left: *left, numwant: *numwant, ttl: 10 });
            ops.push(HttpOp::Scrape { fam: 0, hashes: (0..*scrape_hashes).map(|i| (i % 6) as u8).collect() });
            ops.push(HttpOp::Clean { dt: 100 });
            let case = HttpCase { max_peers: *max_peers, max_scrape_torrents: *max_scrape, rng_seed: 1, access_mode: 0, ops };
            run_http_case(&case, false)
        }
        HandlerCase::Ws { max_offers, offers, left, swarm, scrape_hashes, max_scrape } => {
            let mut ops: Vec<WsOp> = Vec::new();
            // the driver allows 5 open connections; fill with what it allows
            for i in 0..(*swarm).min(5) {
                ops.push(WsOp::Open { worker: (i % 3) as u8, v6: false });
                ops.push(WsOp::Announce { conn: i as u8, t: 0, pid: i as u8, event: 1, left: Some(1), offers: None, answer: None, sticky: false, numwant: 0 });
            }
            ops.push(WsOp::Open { worker: 0, v6: false });
            ops.push(WsOp::Announce { conn: 0, t: 0, pid: 9, event: 1, left: *left, offers: Some((0..*offers).map(|i| (i % 250) as u8).collect()), answer: Some((0, 0)), sticky: false, numwant: 0 });
            ops.push(WsOp::Scrape { conn: 0, hashes: Some((false, (0..*scrape_hashes).map(|i| (i % 4) as u8).collect())) });
            ops.push(WsOp::Clean { dt: 1000 });
            let case = WsCase { max_offers: *max_offers, max_scrape_torrents: *max_scrape, max_peer_age: 10, max_offer_age: 10, rng_seed: 1, access_mode: 0, ops };
            run_ws_case(&case, WsOracles::default())
        }
    });
    let r = (r.0, r.1);
    let (r, allocated) = r;
    match r {
        Ok(o) => {
            out.checks += o.checks + 1;
            // coarse allocation bound for request handling: the whole history (harness model
            // included) may allocate 8 MiB plus 1 KiB per byte of request payload
            let request_bytes: u64 = match c {
                HandlerCase::Udp { swarm, scrape_hashes, .. } => 98 * (*swarm as u64 + 1) + 20 * *scrape_hashes as u64,
                HandlerCase::Http { swarm, scrape_hashes, .. } => 200 * (*swarm as u64 + 1) + 30 * *scrape_hashes as u64,
                HandlerCase::Ws { offers, swarm, scrape_hashes, .. } => 200 * (*swarm as u64 + 1) + 80 * *offers as u64 + 24 * *scrape_hashes as u64,
            };
            let bound = 8 * 1024 * 1024 + 1024 * request_bytes;
            vensure!(
                allocated <= bound,
                "handler-allocation-bound",
                "request handling allocated {allocated} bytes for about {request_bytes} bytes of requests (bound {bound}): {:?}",
                c
            );
            out.nontrivial = true;
            out.label("handled");
            Ok(out)
        }
        Err(v) => Err(Violation::new(&format!("handler-{}", v.kind), v.message)),
    }
}

fn handler_cases() -> Vec<HandlerCase> {
    let mut v = Vec::new();
    for max in [0usize, 1, 2, 30] {
        for numwant in [i32::MIN, -1, 0, 1, i32::MAX] {
            for left in [i64::MIN, -1, 0, i64::MAX] {
                for (swarm, scrape) in [(0u16, 0u16), (1, 1), (3, 10_000), (300, 70)] {
                    v.push(HandlerCase::Udp { max_response_peers: max, numwant, left, port: 65535, swarm, scrape_hashes: scrape });
                }
            }
        }
        for numwant in [None, Some(0), Some(1), Some(u64::MAX)] {
            for left in [0u64, 1, u64::MAX] {
                for (swarm, scrape, max_scrape) in [(0u16, 0u16, 0usize), (1, 1, 1), (5, 10_000, 100), (300, 70, usize::MAX), (3, 100, 100)] {
                    v.push(HandlerCase::Http { max_peers: max, numwant, left, port: 65535, swarm, scrape_hashes: scrape, max_scrape });
                }
            }
        }
        for offers in [0u16, 1, 10, 10_000] {
            for left in [None, Some(0), Some(u64::MAX)] {
                for (swarm, scrape, max_scrape) in [(0u16, 0u16, 0usize), (2, 1, 1), (5, 10_000, 255), (3, 255, 255), (3, 70, 10_000)] {
                    v.push(HandlerCase::Ws { max_offers: max, offers, left, swarm, scrape_hashes: scrape, max_scrape });
                }
            }
        }
    }
    v
}

// ---- corpus -------------------------------------------------------------------------------------

#[derive(Debug, Clone, Serialize, Deserialize)]
pub struct CorpusCase {
    pub entry: String,
    pub file: String,
}

pub fn prop_corpus(c: &CorpusCase) -> CaseResult {
    let mut out = Outcome::default();
    let data = std::fs::read(&c.file).map_err(|e| Violation::new("inconclusive-io", format!("{}: {e}", c.file)))?;
    judge(&c.entry, &data, &mut out)?;
    out.nontrivial = true;
    Ok(out)
}

fn corpus_cases() -> Vec<CorpusCase> {
    let mut v = Vec::new();
    for dir in ["fuzz/seeds", "fuzz/crashes", "replays/C12/fuzz-artifacts"] {
        for entry in ENTRIES {
            let d = verif_dir().join(dir).join(entry);
            if let Ok(rd) = std::fs::read_dir(&d) {
                let mut files: Vec<_> = rd.filter_map(|e| e.ok().map(|e| e.path())).filter(|p| p.is_file()).collect();
                files.sort();
                for f in files {
                    v.push(CorpusCase { entry: entry.to_string(), file: f.to_string_lossy().to_string() });
                }
            }
        }
    }
    v
}

pub fn run(ctx: &mut Ctx) {
    ctx.assume("allocation bound constants (128 x input length + 64 KiB per call; measured: simd-json and serde_bencode need up to ~76 x on one-byte-per-node inputs, linearly) are the harness's reading of 'a fixed multiple of the input length'");
    ctx.assume("text WebSocket frames reach the parser as valid UTF-8 (tungstenite enforces it); deep nesting is run on a 2 MiB stack in child processes; absence of crashes is never established, only not found");
    ctx.run_regress::<Case, _>("mutations", prop);
    ctx.run_regress::<NestCase, _>("nesting", prop_nest);
    ctx.run_regress::<HandlerCase, _>("handlers", prop_handler);
    let tier = ctx.tier;
    ctx.run_prop("mutations", tier.pick(300_000, 5_000_000), case_strategy, prop);
    ctx.require_label("mutations", "accepted", 0.05);
    ctx.require_label("mutations", "rejected", 0.2);
    ctx.require_label("mutations", "mutated-valid-message", 0.5);
    for e in ENTRIES {
        ctx.require_label("mutations", e, 0.03);
    }
    ctx.run_enum("handlers", handler_cases(), true, prop_handler);
    ctx.run_enum("nesting", nest_cases(tier), true, prop_nest);
    let mut e2e = Vec::new();
    for (i, tracker) in ["ws", "http", "udp-mio", "udp-uring"].iter().enumerate() {
        for k in 0..tier.pick(2u64, 12) {
            e2e.push(E2eCase { tracker: tracker.to_string(), seed: derive_seed(ctx.seed, "C12", "e2e-case", i as u64 * 100 + k), inputs: tier.pick(150, 600) });
        }
    }
    ctx.confirm_runs = 2;
    ctx.run_regress::<E2eCase, _>("e2e-garbage", prop_e2e);
    ctx.run_enum("e2e-garbage", e2e, false, prop_e2e);
    ctx.confirm_runs = 0;
    // libFuzzer campaigns are run by bin/check before this binary; their summary is reported here
    if let Ok(p) = std::env::var("VCHECK_FUZZ_SUMMARY") {
        if let Ok(text) = std::fs::read_to_string(&p) {
            if let Ok(v) = serde_json::from_str::<serde_json::Value>(&text) {
                let mut rep = SubReport { name: "fuzz".into(), ..Default::default() };
                rep.evaluations = v["total_execs"].as_u64().unwrap_or(0);
                rep.note = Some(format!("libFuzzer (coverage-guided, 2 MiB stack per input, counting allocator): {}", v["per_entry"]));
                rep.wall_s = v["wall_s"].as_f64().unwrap_or(0.0);
                if let Some(n) = v["corpus_units"].as_u64() {
                    rep.labels.insert("corpus-units-found".into(), n);
                }
                ctx.push_report(rep);
            }
        }
    }
    let corpus = corpus_cases();
    if !corpus.is_empty() {
        ctx.run_enum("corpus", corpus, true, prop_corpus);
    }
}

pub fn replay(path: &str, sub: &str, case: serde_json::Value) -> i32 {
    match sub {
        "nesting" => replay_one::<NestCase, _>("C12", path, case, prop_nest),
        "e2e-garbage" => replay_one::<E2eCase, _>("C12", path, case, prop_e2e),
        "handlers" => replay_one::<HandlerCase, _>("C12", path, case, prop_handler),
        "corpus" => replay_one::<CorpusCase, _>("C12", path, case, prop_corpus),
        _ => replay_one::<Case, _>("C12", path, case, prop),
    }
}
