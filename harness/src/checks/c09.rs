//! C09 — WebRTC offers and answers are relayed only along real, unused offers (DESIGN.md §6 C09)

use crate::engine::*;
use crate::wsdrv::*;

pub const RULE: &str = "same driver as C08 with weights shifted to signalling: announces carry 0..12 offers with repeated offer ids (4 ids), max_offers in {0,1,2,10}, answers addressed to any of 3 peer ids with any of 4 offer ids (wrong peer, wrong torrent, twice, after stop, after clean, after age-out all occur), small max_offer_age and cleans at generated times; oracle = model W: exactly min(offers, max_offers, others) forwarded (0 for stopped) to pairwise distinct stored other peers' own connections, i-th forwarded = i-th sent, tagged with sender id; an answer is forwarded to the offerer's connection iff W holds an unconsumed, unexpired expectation, otherwise error-to-answerer or nothing and never an AnswerOutMessage; non-trivial = an answer W forwards, or an answer W rejects; distinct = distinct serialised history";

pub fn prop(case: &WsCase) -> CaseResult {
    let mut o = run_ws_case(case, WsOracles { signalling: true, ..Default::default() })?;
    o.nontrivial = o
        .labels
        .iter()
        .any(|l| matches!(l.as_str(), "answer-forwarded" | "answer-rejected"));
    Ok(o)
}

pub fn params(tier: Tier) -> WsGen {
    WsGen {
        max_ops: tier.pick(60, 160),
        pids: 3,
        offer_ids: 4,
        max_offers_in_req: 12,
        signalling_w: 12,
        access_list: false,
        time_w: 1,
    }
}

/// Small-scope enumeration: two connections in one torrent (so the receiver of every offer is
/// determined), two offer ids, max_offer_age 2; every sequence up to a bound over
/// {A offers id 0, A offers id 1, B offers id 0, tick 1 s, clean, B answers A's offer id 0,
/// B answers A's offer id 1} is run. This covers refreshed offers (same receiver and id
/// sent again), offers of different age stored side by side, cleans between their deadlines and
/// answers before / after each of them.
#[derive(Debug, Clone, serde::Serialize, serde::Deserialize)]
pub struct SmallCase {
    pub seq: Vec<u8>,
    pub max_offer_age: u32,
}

fn small_to_case(c: &SmallCase) -> WsCase {
    let mut ops = vec![
        WsOp::Open { worker: 0, v6: false },
        WsOp::Open { worker: 1, v6: false },
        WsOp::Announce { conn: 0, t: 0, pid: 0, event: 1, left: Some(1), offers: None, answer: None, sticky: true, numwant: 0 },
        WsOp::Announce { conn: 1, t: 0, pid: 1, event: 1, left: Some(0), offers: None, answer: None, sticky: true, numwant: 0 },
    ];
    for x in &c.seq {
        ops.push(match x % 7 {
            0 => WsOp::Announce { conn: 0, t: 0, pid: 0, event: 0, left: Some(1), offers: Some(vec![0]), answer: None, sticky: true, numwant: 0 },
            1 => WsOp::Announce { conn: 0, t: 0, pid: 0, event: 0, left: Some(1), offers: Some(vec![1]), answer: None, sticky: true, numwant: 0 },
            2 => WsOp::Announce { conn: 1, t: 0, pid: 1, event: 0, left: Some(0), offers: Some(vec![0]), answer: None, sticky: true, numwant: 0 },
            3 => WsOp::Tick { dt: 1 },
            4 => WsOp::Clean { dt: 0 },
            // B answers A's offer with id 0 / id 1 (whether or not such an offer is pending)
            5 => WsOp::Announce { conn: 1, t: 0, pid: 1, event: 0, left: Some(0), offers: None, answer: Some((0, 0)), sticky: true, numwant: 0 },
            _ => WsOp::Announce { conn: 1, t: 0, pid: 1, event: 0, left: Some(0), offers: None, answer: Some((0, 1)), sticky: true, numwant: 0 },
        });
    }
    WsCase { max_offers: 10, max_scrape_torrents: 10, max_peer_age: 1000, max_offer_age: c.max_offer_age, rng_seed: 1, access_mode: 0, ops }
}

pub fn prop_small(c: &SmallCase) -> CaseResult {
    let mut o = run_ws_case(&small_to_case(c), WsOracles { signalling: true, ..Default::default() })?;
    o.nontrivial = o.labels.iter().any(|l| matches!(l.as_str(), "answer-forwarded" | "answer-rejected"));
    Ok(o)
}

pub fn small_cases_pub(max_len: usize) -> Vec<SmallCase> {
    small_cases(max_len)
}

fn small_cases(max_len: usize) -> Vec<SmallCase> {
    let mut v = Vec::new();
    let mut seq: Vec<u8> = Vec::new();
    fn rec(seq: &mut Vec<u8>, max_len: usize, v: &mut Vec<SmallCase>) {
        // only sequences that end in an answer can show a wrongly forwarded / rejected answer
        if matches!(seq.last(), Some(5 | 6)) {
            for age in [1u32, 2] {
                v.push(SmallCase { seq: seq.clone(), max_offer_age: age });
            }
        }
        if seq.len() == max_len {
            return;
        }
        for x in 0..7u8 {
            // prune: two ticks/cleans in a row beyond 2 add nothing new at these ages
            seq.push(x);
            rec(seq, max_len, v);
            seq.pop();
        }
    }
    rec(&mut seq, max_len, &mut v);
    v
}

pub fn run(ctx: &mut Ctx) {
    ctx.assume("same shim and mock clock as C08");
    ctx.run_regress::<WsCase, _>("signalling", prop);
    let p = params(ctx.tier);
    let n = ctx.tier.pick(150_000, 3_000_000);
    ctx.run_prop("signalling", n, move || ws_case(p), prop);
    for l in ["answer-forwarded", "answer-rejected", "offers-forwarded", "clean-expired-offer"] {
        ctx.require_label("signalling", l, 0.02);
    }
    ctx.run_regress::<SmallCase, _>("small-scope", prop_small);
    ctx.run_enum("small-scope", small_cases(ctx.tier.pick(7, 8)), true, prop_small);
    ctx.require_label("small-scope", "clean-expired-offer", 0.01);
    ctx.require_label("small-scope", "answer-forwarded", 0.05);
}

pub fn replay(path: &str, _sub: &str, case: serde_json::Value) -> i32 {
    if _sub == "small-scope" {
        return replay_one::<SmallCase, _>("C09", path, case, prop_small);
    }
    replay_one::<WsCase, _>("C09", path, case, prop)
}
