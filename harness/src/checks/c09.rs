//! C09 — WebRTC offers and answers are relayed only along real, unused offers (DESIGN.md §6 C09)

use crate::engine::*;
use crate::wsdrv::*;

pub const RULE: &str = "same driver as C08 with weights shifted to signalling: announces carry 0..12 offers with repeated offer ids (4 ids), max_offers in {0,1,2,10}, answers addressed to any of 3 peer ids with any of 4 offer ids (wrong peer, wrong torrent, twice, after stop, after clean, after age-out all occur), small max_offer_age and cleans at generated times; oracle = model W: exactly min(offers, max_offers, others) forwarded (0 for stopped) to pairwise distinct stored other peers' own connections, i-th forwarded = i-th sent, tagged with sender id; an answer is forwarded to the offerer's connection iff W holds an unconsumed, unexpired expectation, otherwise error-to-answerer or nothing and never an AnswerOutMessage; non-trivial = an answer W forwards, or an answer W rejects; distinct = distinct serialised history";

pub fn prop(case: &WsCase) -> CaseResult {
    let mut o = run_ws_case(case, WsOracles { signalling: true, ..Default::default() })?;
    o.nontrivial = o
        .labels
        .iter()
        .any(|l| matches!(l.as_str(), "answer-forwarded" | "answer-rejected"));
    Ok(o)
}

pub fn params(tier: Tier) -> WsGen {
    WsGen {
        max_ops: tier.pick(60, 160),
        pids: 3,
        offer_ids: 4,
        max_offers_in_req: 12,
        signalling_w: 12,
        access_list: false,
        time_w: 1,
    }
}

pub fn run(ctx: &mut Ctx) {
    ctx.assume("same shim and mock clock as C08");
    ctx.run_regress::<WsCase, _>("signalling", prop);
    let p = params(ctx.tier);
    let n = ctx.tier.pick(150_000, 3_000_000);
    ctx.run_prop("signalling", n, move || ws_case(p), prop);
    for l in ["answer-forwarded", "answer-rejected", "offers-forwarded", "clean-expired-offer"] {
        ctx.require_label("signalling", l, 0.02);
    }
}

pub fn replay(path: &str, _sub: &str, case: serde_json::Value) -> i32 {
    replay_one::<WsCase, _>("C09", path, case, prop)
}
