//! C15 — WebTorrent JSON codec round-trips; 20-byte ids are exact (DESIGN.md §6 C15)

use aquatic_ws_protocol::common::*;
use aquatic_ws_protocol::incoming::*;
use aquatic_ws_protocol::outgoing::*;
use proptest::prelude::*;
use serde::{Deserialize, Serialize};
use tungstenite::Message;

use crate::engine::*;
use crate::{vensure, vfail};

pub const RULE: &str = "(a) every message kind (announce with offers and/or answer, all events incl. stopped, optional fields present/absent; scrape with one/several/no hashes; announce/scrape/offer/answer/error replies) with ids over all byte values and SDP strings containing quotes, backslashes, control characters, U+0000 and non-BMP characters: from_ws_message(to_ws_message(m)) == m through a text frame and through a binary frame; (b) the encoder's JSON parsed with serde_json::Value: every id is a string of exactly 20 chars <= U+00FF equal to the bytes; (c) hand-built JSON (raw and \\u-escaped forms) carrying identifier strings of 0..40 chars incl. chars above U+00FF, and strings whose UTF-8 length (not char count) is 20 or 40, in every id-bearing field: accepted iff exactly 20 chars all <= U+00FF, and then decoded to exactly those bytes. non-trivial = SDP beyond ASCII letters, an id byte >= 0x80 or < 0x20, a wrong-length or out-of-range id string, an error/stopped message; distinct = distinct serialised case";

#[derive(Debug, Clone, Serialize, Deserialize)]
pub struct AnnIn {
    pub info_hash: [u8; 20],
    pub peer_id: [u8; 20],
    pub left: Option<u64>,
    /// 0 absent 1 started 2 stopped 3 completed 4 update
    pub event: u8,
    pub offers: Option<Vec<(String, [u8; 20])>>,
    pub numwant: Option<u64>,
    pub answer: Option<String>,
    pub to_peer_id: Option<[u8; 20]>,
    pub offer_id: Option<[u8; 20]>,
}

#[derive(Debug, Clone, Serialize, Deserialize)]
pub enum Case {
    InAnnounce(AnnIn),
    /// 0 none, 1 single, 2 multiple
    InScrape { kind: u8, hashes: Vec<[u8; 20]> },
    OutOffer { peer_id: [u8; 20], info_hash: [u8; 20], sdp: String, offer_id: [u8; 20] },
    OutAnswer { peer_id: [u8; 20], info_hash: [u8; 20], sdp: String, offer_id: [u8; 20] },
    OutAnnounce { info_hash: [u8; 20], complete: u64, incomplete: u64, interval: u64 },
    OutScrape { files: Vec<([u8; 20], u64, u64, u64)> },
    OutError { reason: String, action: u8, info_hash: Option<[u8; 20]> },
    /// identifier string placed into an id-bearing field of hand-built JSON
    IdString { chars: Vec<char>, field: u8, escape_all: bool },
}

fn ev(e: u8) -> Option<AnnounceEvent> {
    match e % 5 {
        0 => None,
        1 => Some(AnnounceEvent::Started),
        2 => Some(AnnounceEvent::Stopped),
        3 => Some(AnnounceEvent::Completed),
        _ => Some(AnnounceEvent::Update),
    }
}

fn check_in(m: &InMessage, out: &mut Outcome) -> Result<(), Violation> {
    let ws = m.to_ws_message();
    let text = match &ws {
        Message::Text(t) => t.as_str().to_string(),
        other => vfail!("encode-not-text", "to_ws_message produced {:?}", other),
    };
    let back = InMessage::from_ws_message(ws).map_err(|e| Violation::new("roundtrip-rejected", format!("text frame: {e:#}; json {text}")))?;
    out.checks += 2;
    vensure!(back == *m, "roundtrip-mismatch", "text frame: decoded {:?}, original {:?}, json {}", back, m, text);
    let back = InMessage::from_ws_message(Message::binary(text.clone().into_bytes()))
        .map_err(|e| Violation::new("roundtrip-rejected", format!("binary frame: {e:#}; json {text}")))?;
    vensure!(back == *m, "roundtrip-mismatch", "binary frame: decoded {:?}, original {:?}", back, m);
    check_ids_in_json(&text, out)
}

fn check_out(m: &OutMessage, out: &mut Outcome) -> Result<(), Violation> {
    let ws = m.to_ws_message();
    let text = match &ws {
        Message::Text(t) => t.as_str().to_string(),
        other => vfail!("encode-not-text", "to_ws_message produced {:?}", other),
    };
    let back = OutMessage::from_ws_message(ws).map_err(|e| Violation::new("roundtrip-rejected", format!("text frame: {e:#}; json {text}")))?;
    out.checks += 2;
    vensure!(back == *m, "roundtrip-mismatch", "text frame: decoded {:?}, original {:?}, json {}", back, m, text);
    let back = OutMessage::from_ws_message(Message::binary(text.clone().into_bytes()))
        .map_err(|e| Violation::new("roundtrip-rejected", format!("binary frame: {e:#}; json {text}")))?;
    vensure!(back == *m, "roundtrip-mismatch", "binary frame: decoded {:?}, original {:?}", back, m);
    check_ids_in_json(&text, out)
}

/// every id-bearing field in the encoder's output is a 20-char string with chars <= U+00FF
fn check_ids_in_json(text: &str, out: &mut Outcome) -> Result<(), Violation> {
    let v: serde_json::Value = serde_json::from_str(text).map_err(|e| Violation::new("encode-invalid-json", format!("{e}: {text}")))?;
    fn walk(v: &serde_json::Value, key: Option<&str>, out: &mut Outcome) -> Result<(), Violation> {
        match v {
            serde_json::Value::Object(m) => {
                for (k, x) in m {
                    if k == "files" {
                        if let serde_json::Value::Object(f) = x {
                            for (hk, hv) in f {
                                id_ok(hk, "files key", out)?;
                                walk(hv, None, out)?;
                            }
                            continue;
                        }
                    }
                    walk(x, Some(k), out)?;
                }
            }
            serde_json::Value::Array(a) => {
                for x in a {
                    walk(x, key, out)?;
                }
            }
            serde_json::Value::String(s) => {
                if matches!(key, Some("info_hash" | "peer_id" | "offer_id" | "to_peer_id")) {
                    id_ok(s, key.unwrap(), out)?;
                }
            }
            _ => {}
        }
        Ok(())
    }
    fn id_ok(s: &str, what: &str, out: &mut Outcome) -> Result<(), Violation> {
        out.checks += 1;
        let n = s.chars().count();
        if n != 20 || s.chars().any(|c| c as u32 > 0xff) {
            return Err(Violation::new(
                "encoded-id-shape",
                format!("encoder wrote {what} as a string of {n} chars {:?} (must be exactly 20 chars <= U+00FF)", s),
            ));
        }
        Ok(())
    }
    walk(&v, None, out)
}

fn json_string(chars: &[char], escape_all: bool) -> String {
    let mut s = String::from("\"");
    for c in chars {
        let cp = *c as u32;
        if escape_all || cp < 0x20 || *c == '"' || *c == '\\' || cp == 0x7f {
            if cp >= 0x10000 {
                let v = cp - 0x10000;
                s.push_str(&format!("\\u{:04x}\\u{:04x}", 0xd800 + (v >> 10), 0xdc00 + (v & 0x3ff)));
            } else {
                s.push_str(&format!("\\u{:04x}", cp));
            }
        } else {
            s.push(*c);
        }
    }
    s.push('"');
    s
}

const GOOD_ID: &str = "\"aaaaaaaaaaaaaaaaaaaa\"";

pub fn prop(case: &Case) -> CaseResult {
    let mut out = Outcome::default();
    let nonplain_id = |id: &[u8; 20]| id.iter().any(|b| *b >= 0x80 || *b < 0x20);
    let nonplain_sdp = |s: &str| s.chars().any(|c| !c.is_ascii_alphabetic());
    match case {
        Case::InAnnounce(a) => {
            let m = InMessage::AnnounceRequest(AnnounceRequest {
                action: AnnounceAction::Announce,
                info_hash: InfoHash(a.info_hash),
                peer_id: PeerId(a.peer_id),
                bytes_left: a.left.map(|v| v as usize),
                event: ev(a.event),
                offers: a.offers.as_ref().map(|v| {
                    v.iter()
                        .map(|(sdp, id)| AnnounceRequestOffer { offer: RtcOffer { t: RtcOfferType::Offer, sdp: sdp.clone() }, offer_id: OfferId(*id) })
                        .collect()
                }),
                numwant: a.numwant.map(|v| v as usize),
                answer: a.answer.as_ref().map(|s| RtcAnswer { t: RtcAnswerType::Answer, sdp: s.clone() }),
                answer_to_peer_id: a.to_peer_id.map(PeerId),
                answer_offer_id: a.offer_id.map(OfferId),
            });
            check_in(&m, &mut out)?;
            if a.event % 5 == 2 {
                out.label("event-stopped");
                out.nontrivial = true;
            }
            if a.offers.as_ref().map(|v| v.iter().any(|(s, _)| nonplain_sdp(s))).unwrap_or(false) || a.answer.as_ref().map(|s| nonplain_sdp(s)).unwrap_or(false) {
                out.label("sdp-special");
                out.nontrivial = true;
            }
            if nonplain_id(&a.info_hash) || nonplain_id(&a.peer_id) {
                out.label("binary-id");
                out.nontrivial = true;
            }
            if a.answer.is_some() {
                out.label("announce-with-answer");
            }
            if a.offers.as_ref().map(|v| !v.is_empty()).unwrap_or(false) {
                out.label("announce-with-offers");
            }
        }
        Case::InScrape { kind, hashes } => {
            let info_hashes = match kind % 3 {
                0 => None,
                1 if !hashes.is_empty() => Some(ScrapeRequestInfoHashes::Single(InfoHash(hashes[0]))),
                _ => Some(ScrapeRequestInfoHashes::Multiple(hashes.iter().map(|h| InfoHash(*h)).collect())),
            };
            let m = InMessage::ScrapeRequest(ScrapeRequest { action: ScrapeAction::Scrape, info_hashes });
            check_in(&m, &mut out)?;
            out.label("scrape-request");
            out.nontrivial = hashes.iter().any(nonplain_id);
        }
        Case::OutOffer { peer_id, info_hash, sdp, offer_id } => {
            let m = OutMessage::OfferOutMessage(OfferOutMessage {
                action: AnnounceAction::Announce,
                peer_id: PeerId(*peer_id),
                info_hash: InfoHash(*info_hash),
                offer: RtcOffer { t: RtcOfferType::Offer, sdp: sdp.clone() },
                offer_id: OfferId(*offer_id),
            });
            check_out(&m, &mut out)?;
            out.label("offer");
            out.nontrivial = nonplain_sdp(sdp) || nonplain_id(peer_id);
        }
        Case::OutAnswer { peer_id, info_hash, sdp, offer_id } => {
            let m = OutMessage::AnswerOutMessage(AnswerOutMessage {
                action: AnnounceAction::Announce,
                peer_id: PeerId(*peer_id),
                info_hash: InfoHash(*info_hash),
                answer: RtcAnswer { t: RtcAnswerType::Answer, sdp: sdp.clone() },
                offer_id: OfferId(*offer_id),
            });
            check_out(&m, &mut out)?;
            out.label("answer");
            out.nontrivial = nonplain_sdp(sdp) || nonplain_id(peer_id);
        }
        Case::OutAnnounce { info_hash, complete, incomplete, interval } => {
            let m = OutMessage::AnnounceResponse(AnnounceResponse {
                action: AnnounceAction::Announce,
                info_hash: InfoHash(*info_hash),
                complete: *complete as usize,
                incomplete: *incomplete as usize,
                announce_interval: *interval as usize,
            });
            check_out(&m, &mut out)?;
            out.label("announce-response");
            out.nontrivial = nonplain_id(info_hash);
        }
        Case::OutScrape { files } => {
            let m = OutMessage::ScrapeResponse(ScrapeResponse {
                action: ScrapeAction::Scrape,
                files: files
                    .iter()
                    .map(|(h, c, i, d)| (InfoHash(*h), ScrapeStatistics { complete: *c as usize, incomplete: *i as usize, downloaded: *d as usize }))
                    .collect(),
            });
            check_out(&m, &mut out)?;
            out.label("scrape-response");
            out.nontrivial = files.iter().any(|(h, ..)| nonplain_id(h));
        }
        Case::OutError { reason, action, info_hash } => {
            let m = OutMessage::ErrorResponse(ErrorResponse {
                failure_reason: reason.clone().into(),
                action: match action % 3 {
                    0 => None,
                    1 => Some(ErrorResponseAction::Announce),
                    _ => Some(ErrorResponseAction::Scrape),
                },
                info_hash: info_hash.map(InfoHash),
            });
            check_out(&m, &mut out)?;
            out.label("error-response");
            out.nontrivial = true;
        }
        Case::IdString { chars, field, escape_all } => {
            let id = json_string(chars, *escape_all);
            let want: Option<[u8; 20]> = if chars.len() == 20 && chars.iter().all(|c| (*c as u32) <= 0xff) {
                let mut a = [0u8; 20];
                for (i, c) in chars.iter().enumerate() {
                    a[i] = *c as u32 as u8;
                }
                Some(a)
            } else {
                None
            };
            // place the identifier into one id-bearing field of an otherwise valid message
            let (json, extract): (String, Box<dyn Fn(&InMessage) -> Option<[u8; 20]>>) = match field % 7 {
                0 => (
                    format!("{{\"action\":\"announce\",\"info_hash\":{id},\"peer_id\":{GOOD_ID},\"left\":1,\"offers\":null,\"numwant\":null,\"answer\":null,\"to_peer_id\":null,\"offer_id\":null}}"),
                    Box::new(|m| if let InMessage::AnnounceRequest(a) = m { Some(a.info_hash.0) } else { None }),
                ),
                1 => (
                    format!("{{\"action\":\"announce\",\"info_hash\":{GOOD_ID},\"peer_id\":{id},\"left\":null,\"event\":\"started\"}}"),
                    Box::new(|m| if let InMessage::AnnounceRequest(a) = m { Some(a.peer_id.0) } else { None }),
                ),
                2 => (
                    format!("{{\"action\":\"announce\",\"info_hash\":{GOOD_ID},\"peer_id\":{GOOD_ID},\"left\":0,\"offers\":[{{\"offer\":{{\"type\":\"offer\",\"sdp\":\"x\"}},\"offer_id\":{id}}}],\"numwant\":1}}"),
                    Box::new(|m| if let InMessage::AnnounceRequest(a) = m { a.offers.as_ref().and_then(|o| o.first()).map(|o| o.offer_id.0) } else { None }),
                ),
                3 => (
                    format!("{{\"action\":\"announce\",\"info_hash\":{GOOD_ID},\"peer_id\":{GOOD_ID},\"left\":0,\"answer\":{{\"type\":\"answer\",\"sdp\":\"x\"}},\"to_peer_id\":{id},\"offer_id\":{GOOD_ID}}}"),
                    Box::new(|m| if let InMessage::AnnounceRequest(a) = m { a.answer_to_peer_id.map(|p| p.0) } else { None }),
                ),
                4 => (
                    format!("{{\"action\":\"announce\",\"info_hash\":{GOOD_ID},\"peer_id\":{GOOD_ID},\"left\":0,\"answer\":{{\"type\":\"answer\",\"sdp\":\"x\"}},\"to_peer_id\":{GOOD_ID},\"offer_id\":{id}}}"),
                    Box::new(|m| if let InMessage::AnnounceRequest(a) = m { a.answer_offer_id.map(|p| p.0) } else { None }),
                ),
                5 => (
                    format!("{{\"action\":\"scrape\",\"info_hash\":{id}}}"),
                    Box::new(|m| if let InMessage::ScrapeRequest(ScrapeRequest { info_hashes: Some(ScrapeRequestInfoHashes::Single(h)), .. }) = m { Some(h.0) } else { None }),
                ),
                _ => (
                    format!("{{\"action\":\"scrape\",\"info_hash\":[{GOOD_ID},{id}]}}"),
                    Box::new(|m| if let InMessage::ScrapeRequest(ScrapeRequest { info_hashes: Some(ScrapeRequestInfoHashes::Multiple(v)), .. }) = m { v.get(1).map(|h| h.0) } else { None }),
                ),
            };
            let frame = if chars.len() % 2 == 0 { Message::text(json.clone()) } else { Message::binary(json.clone().into_bytes()) };
            let got = InMessage::from_ws_message(frame);
            out.checks += 1;
            match (want, got) {
                (Some(w), Ok(m)) => {
                    let g = extract(&m);
                    vensure!(g == Some(w), "id-decoded-wrong", "identifier string {:?} decoded to {:?}, expected bytes {:02x?} (json {})", chars, g, w, json);
                    out.label("id-string-accepted");
                }
                (Some(w), Err(e)) => vfail!("id-rejected", "20-char identifier string {:?} (= {:02x?}) rejected: {e:#} (json {})", chars, w, json),
                (None, Ok(m)) => vfail!(
                    "id-accepted-malformed",
                    "identifier string of {} chars {:?} (not exactly 20 chars <= U+00FF) was accepted: {:?} (json {})",
                    chars.len(),
                    chars.iter().collect::<String>(),
                    m,
                    json
                ),
                (None, Err(_)) => {
                    out.label("id-string-rejected");
                }
            }
            out.nontrivial = true;
            if chars.len() > 20 {
                out.label("id-too-long");
            }
            let utf8: usize = chars.iter().map(|c| c.len_utf8()).sum();
            if chars.len() != 20 && (utf8 == 20 || utf8 == 40) {
                out.label("id-utf8-length-20-or-40-but-not-20-chars");
            }
        }
    }
    Ok(out)
}

fn id20() -> impl Strategy<Value = [u8; 20]> + Clone {
    prop_oneof![
        3 => any::<[u8; 20]>(),
        1 => (0u8..=235).prop_map(|s| { let mut a = [0u8; 20]; for (i, b) in a.iter_mut().enumerate() { *b = s.wrapping_add(i as u8); } a }),
        1 => Just(*b"aaaabbbbccccddddeeee"),
        1 => Just([0u8; 20]),
        1 => Just([0xff; 20]),
        1 => Just([b'"'; 20]),
        1 => Just([b'\\'; 20]),
    ]
}

fn sdp() -> impl Strategy<Value = String> + Clone {
    let ch = prop_oneof![
        6 => proptest::char::range('a', 'z'),
        2 => prop_oneof![Just('"'), Just('\\'), Just('/'), Just('\n'), Just('\r'), Just('\t'), Just('\u{0}'), Just('\u{1f}'), Just('\u{7f}'), Just('\u{2028}')],
        1 => proptest::char::range('\u{0}', '\u{1f}'),
        1 => prop_oneof![Just('\u{1f600}'), Just('\u{10ffff}'), Just('\u{10000}'), Just('\u{fffd}'), Just('\u{e9}'), Just('\u{ffff}')],
        1 => any::<char>(),
    ];
    prop_oneof![
        1 => Just("test".to_string()),
        1 => Just(String::new()),
        6 => proptest::collection::vec(ch, 0..60).prop_map(|v| v.into_iter().collect::<String>()),
        1 => Just("v=0\r\no=- 123 2 IN IP4 127.0.0.1\r\ns=-\r\nt=0 0\r\na=group:BUNDLE 0\r\n".to_string()),
    ]
}

fn u64b() -> impl Strategy<Value = u64> + Clone {
    prop_oneof![Just(0u64), Just(1u64), Just(u32::MAX as u64), Just(i64::MAX as u64), Just(i64::MAX as u64 + 1), Just(u64::MAX), any::<u64>()]
}

fn id_chars() -> impl Strategy<Value = Vec<char>> {
    prop_oneof![8 => id_chars_by_count(), 2 => id_chars_by_utf8_len()]
}

/// strings whose *UTF-8 length* is 20 (or 40: UTF-16-ish confusion) although the number of
/// chars is not: k multi-byte chars among ASCII ones
fn id_chars_by_utf8_len() -> impl Strategy<Value = Vec<char>> {
    let two = proptest::char::range('\u{80}', '\u{7ff}');
    let three = proptest::char::range('\u{800}', '\u{d7ff}');
    let ascii = proptest::char::range('\u{0}', '\u{7f}');
    (prop_oneof![4 => Just(20usize), 1 => Just(40usize)], proptest::collection::vec((any::<bool>(), two, three), 1..11), proptest::collection::vec(ascii, 40), any::<u16>())
        .prop_map(|(target, multi, filler, rot)| {
            let mut chars = Vec::new();
            let mut bytes = 0usize;
            for (is_three, c2, c3) in multi {
                let (c, n) = if is_three { (c3, 3) } else { (c2, 2) };
                if bytes + n <= target {
                    chars.push(c);
                    bytes += n;
                }
            }
            for c in filler {
                if bytes < target {
                    chars.push(c);
                    bytes += 1;
                }
            }
            let k = rot as usize % chars.len().max(1);
            chars.rotate_left(k);
            chars
        })
}

fn id_chars_by_count() -> impl Strategy<Value = Vec<char>> {
    let low = proptest::char::range('\u{0}', '\u{ff}');
    let high = prop_oneof![Just('\u{100}'), Just('\u{17f}'), Just('\u{20ac}'), Just('\u{1d54a}'), Just('\u{ffff}'), any::<char>()];
    (
        prop_oneof![5 => Just(20usize), 2 => Just(19usize), 3 => Just(21usize), 1 => Just(0usize), 1 => Just(40usize), 2 => 0usize..41],
        prop_oneof![6 => Just(0usize), 2 => Just(1usize), 1 => Just(3usize)],
    )
        .prop_flat_map(move |(len, n_high)| (proptest::collection::vec(low.clone(), len), proptest::collection::vec((any::<u8>(), high.clone()), n_high)))
        .prop_map(|(mut chars, highs)| {
            for (pos, h) in highs {
                if !chars.is_empty() {
                    let i = pos as usize % chars.len();
                    chars[i] = h;
                }
            }
            chars
        })
}

fn strategy() -> impl Strategy<Value = Case> {
    let ann = (
        (id20(), id20(), prop_oneof![Just(None), u64b().prop_map(Some)], 0u8..5),
        prop_oneof![1 => Just(None), 1 => Just(Some(vec![])), 3 => proptest::collection::vec((sdp(), id20()), 1..10).prop_map(Some)],
        prop_oneof![Just(None), u64b().prop_map(Some)],
        prop_oneof![2 => Just(None), 1 => sdp().prop_map(Some)],
        prop_oneof![Just(None), id20().prop_map(Some)],
        prop_oneof![Just(None), id20().prop_map(Some)],
    )
        .prop_map(|((info_hash, peer_id, left, event), offers, numwant, answer, to_peer_id, offer_id)| {
            Case::InAnnounce(AnnIn { info_hash, peer_id, left, event, offers, numwant, answer, to_peer_id, offer_id })
        });
    prop_oneof![
        5 => ann,
        2 => (0u8..3, proptest::collection::vec(id20(), 0..6)).prop_map(|(kind, hashes)| Case::InScrape { kind, hashes }),
        2 => (id20(), id20(), sdp(), id20()).prop_map(|(peer_id, info_hash, sdp, offer_id)| Case::OutOffer { peer_id, info_hash, sdp, offer_id }),
        2 => (id20(), id20(), sdp(), id20()).prop_map(|(peer_id, info_hash, sdp, offer_id)| Case::OutAnswer { peer_id, info_hash, sdp, offer_id }),
        1 => (id20(), u64b(), u64b(), u64b()).prop_map(|(info_hash, complete, incomplete, interval)| Case::OutAnnounce { info_hash, complete, incomplete, interval }),
        1 => proptest::collection::vec((id20(), u64b(), u64b(), u64b()), 0..8).prop_map(|files| Case::OutScrape { files }),
        1 => (sdp(), 0u8..3, prop_oneof![Just(None), id20().prop_map(Some)]).prop_map(|(reason, action, info_hash)| Case::OutError { reason, action, info_hash }),
        6 => (id_chars(), 0u8..7, any::<bool>()).prop_map(|(chars, field, escape_all)| Case::IdString { chars, field, escape_all }),
    ]
}

pub fn run(ctx: &mut Ctx) {
    ctx.assume("JSON handed to the decoder in (c) is built by the harness (raw UTF-8 or \\uXXXX escapes incl. surrogate pairs); the encoder's output is judged through serde_json::Value, not through aquatic's decoder");
    ctx.run_regress::<Case, _>("codec", prop);
    let tier = ctx.tier;
    ctx.run_prop("codec", tier.pick(200_000, 3_000_000), strategy, prop);
    for l in ["id-string-accepted", "id-string-rejected", "id-too-long", "id-utf8-length-20-or-40-but-not-20-chars", "sdp-special", "binary-id", "event-stopped", "error-response", "announce-with-answer", "announce-with-offers"] {
        ctx.require_label("codec", l, 0.01);
    }
}

pub fn replay(path: &str, _sub: &str, case: serde_json::Value) -> i32 {
    replay_one::<Case, _>("C15", path, case, prop)
}
