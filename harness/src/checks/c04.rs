//! C04 — UDP shared swarm state is linearizable and deadlock-free (DESIGN.md §6 C04)

use std::cell::RefCell;
use std::collections::{BTreeMap, BTreeSet, HashSet};
use std::net::{IpAddr, SocketAddr};
use std::num::NonZeroU16;
use std::sync::atomic::{AtomicBool, AtomicU64, Ordering};
use std::sync::{Arc, Condvar, Mutex};
use std::time::{Duration, Instant};

use aquatic_common::access_list::AccessListArcSwap;
use aquatic_common::verif::{set_probe_handler, ProbeAction};
use aquatic_common::{CanonicalSocketAddr, SecondsSinceServerStart, ValidUntil};
use aquatic_udp::config::Config;
use aquatic_udp::swarm::TorrentMaps;
use aquatic_udp_protocol::*;
use proptest::prelude::*;
use rand::rngs::SmallRng;
use rand::SeedableRng;
use serde::{Deserialize, Serialize};

use crate::engine::*;
use crate::models::{hash_for, Hash20};
use crate::{vensure, vfail};

pub const RULE: &str = "(schedules) small programs - optional sequential prefix (e.g. a torrent whose only peer is about to expire), then 2-3 threads x 1-3 operations from {announce (any event / left / deadline), scrape of 1-2 hashes, clean(now)} over 1-2 torrents (same or different shard) and <= 3 peers - run on real threads against one shared TorrentMaps while a probe handler (feature verif) parks every thread at the lock-free gaps of announce, scrape and clean and at operation boundaries, so exactly one thread runs and the harness owns the schedule: all interleavings are enumerated by DFS when there are <= 600 (quick) / 3000 (thorough), otherwise that many are sampled with generated decisions; (stress) bursts of 4 free-running threads x 6 generated operations on 3 torrents / 6 peers, every operation stamped with invocation/response tickets. Oracle: per torrent (linearizability is compositional; scrape and clean are split per torrent as the property states) a Wing-Gong search must find a sequential order of the operations that respects real-time order and reproduces every recorded reply and the final quiescent observation under reference model S; a burst whose threads make no progress for 10 s with all of them blocked is a deadlock. non-trivial (schedules) = a clean's phase-2 step for a shard ran while an announce for a torrent of that shard was parked between its two lock acquisitions, or two operations on one torrent overlapped; (stress) = some operations on one torrent overlapped in real time; distinct = distinct (program, schedule) / distinct burst";

#[derive(Debug, Clone, Serialize, Deserialize, PartialEq)]
pub enum POp {
    /// key index 0..3 -> (ip, port); deadline is absolute; event 3 = stopped
    Announce { t: u8, key: u8, stopped: bool, seeder: bool, deadline: u8 },
    Scrape { ts: Vec<u8> },
    Clean { now: u8 },
}

#[derive(Debug, Clone, Serialize, Deserialize)]
pub struct Program {
    pub same_shard: bool,
    pub prefix: Vec<POp>,
    pub threads: Vec<Vec<POp>>,
}

#[derive(Debug, Clone, Serialize, Deserialize)]
pub struct SchedCase {
    pub program: Program,
    /// decisions to follow (index among runnable threads at each branching point); beyond the
    /// prefix the first runnable thread is taken (DFS order)
    pub decisions: Vec<u8>,
}

fn torrent(p_same_shard: bool, t: u8) -> Hash20 {
    // torrent 0: first byte 0x00; torrent 1: 0x10 (same shard, 16 shards) or 0x01 (other shard)
    let first = match (t % 2, p_same_shard) {
        (0, _) => 0x00,
        (_, true) => 0x10,
        (_, false) => 0x01,
    };
    hash_for(t % 2, first)
}

fn key_addr(key: u8) -> (IpAddr, u16) {
    (IpAddr::V4(std::net::Ipv4Addr::new(10, 0, 0, 1 + key % 2)), 7000 + (key / 2) as u16)
}

#[derive(Debug, Clone, PartialEq, Eq, Hash)]
pub enum Res {
    Announce { seeders: i32, leechers: i32, peers: Vec<(IpAddr, u16)> },
    Scrape(Vec<(i32, i32)>),
    Clean,
}

fn exec(maps: &TorrentMaps, config: &Config, same_shard: bool, op: &POp, rng: &mut SmallRng, statistics: &aquatic_udp::common::CachePaddedArc<aquatic_udp::common::IpVersionStatistics<aquatic_udp::common::SwarmWorkerStatistics>>, access_list: &Arc<AccessListArcSwap>, tx: &crossbeam_channel::Sender<aquatic_udp::common::StatisticsMessage>) -> Res {
    match op {
        POp::Announce { t, key, stopped, seeder, deadline } => {
            let (ip, port) = key_addr(*key);
            let req = AnnounceRequest {
                connection_id: ConnectionId::new(0),
                action_placeholder: Default::default(),
                transaction_id: TransactionId::new(0),
                info_hash: InfoHash(torrent(same_shard, *t)),
                peer_id: PeerId([*key; 20]),
                bytes_downloaded: NumberOfBytes::new(0),
                bytes_left: NumberOfBytes::new(if *seeder { 0 } else { 1 }),
                bytes_uploaded: NumberOfBytes::new(0),
                event: if *stopped { AnnounceEvent::Stopped } else { AnnounceEvent::Started },
                ip_address: Ipv4AddrBytes([0; 4]),
                key: aquatic_udp_protocol::PeerKey::new(0),
                peers_wanted: NumberOfPeers::new(0),
                port: Port::new(NonZeroU16::new(port).unwrap()),
            };
            let r = maps.announce(config, tx, rng, &req, CanonicalSocketAddr::new(SocketAddr::new(ip, 1)), ValidUntil::new_raw(SecondsSinceServerStart::new_raw(*deadline as u32)));
            match r {
                Response::AnnounceIpv4(a) => {
                    let mut peers: Vec<(IpAddr, u16)> = a.peers.iter().map(|p| (IpAddr::V4(p.ip_address.into()), p.port.0.get())).collect();
                    peers.sort();
                    Res::Announce { seeders: a.fixed.seeders.0.get(), leechers: a.fixed.leechers.0.get(), peers }
                }
                _ => Res::Announce { seeders: -1, leechers: -1, peers: vec![] },
            }
        }
        POp::Scrape { ts } => {
            let req = ScrapeRequest { connection_id: ConnectionId::new(0), transaction_id: TransactionId::new(0), info_hashes: ts.iter().map(|t| InfoHash(torrent(same_shard, *t))).collect() };
            let r = maps.scrape(req, CanonicalSocketAddr::new(SocketAddr::new(key_addr(0).0, 1)));
            Res::Scrape(r.torrent_stats.iter().map(|s| (s.seeders.0.get(), s.leechers.0.get())).collect())
        }
        POp::Clean { now } => {
            maps.clean_and_update_statistics(config, statistics, tx, access_list, SecondsSinceServerStart::new_raw(*now as u32), false);
            Res::Clean
        }
    }
}

// ---- the scheduler ------------------------------------------------------------------------

struct Inner {
    current: Option<usize>,
    runnable: Vec<bool>,
    decisions: Vec<u8>,
    pos: usize,
    taken: Vec<(u8, u8)>,
    tick: u64,
    /// thread i is parked at announce:got_peer_map for the shard
    parked_announce_shard: Vec<Option<u64>>,
    saw_clean_during_parked_announce: bool,
}

struct Sched {
    inner: Mutex<Inner>,
    cv: Condvar,
    shards: BTreeSet<u64>,
    hash_bytes: BTreeSet<u64>,
}

thread_local! {
    static CUR: RefCell<Option<(Arc<Sched>, usize)>> = const { RefCell::new(None) };
}

impl Sched {
    fn choose(&self, g: &mut Inner) -> Option<usize> {
        let options: Vec<usize> = (0..g.runnable.len()).filter(|i| g.runnable[*i]).collect();
        if options.is_empty() {
            return None;
        }
        if options.len() == 1 {
            return Some(options[0]);
        }
        let c = if g.pos < g.decisions.len() { (g.decisions[g.pos] as usize) % options.len() } else { 0 };
        g.pos += 1;
        g.taken.push((c as u8, options.len() as u8));
        Some(options[c])
    }

    fn wait_turn(&self, me: usize) {
        let mut g = self.inner.lock().unwrap();
        while g.current != Some(me) {
            g = self.cv.wait(g).unwrap();
        }
    }

    fn yield_point(&self, me: usize) {
        let mut g = self.inner.lock().unwrap();
        let next = self.choose(&mut g);
        g.current = next;
        self.cv.notify_all();
        while g.current != Some(me) {
            g = self.cv.wait(g).unwrap();
        }
    }

    fn finish(&self, me: usize) {
        let mut g = self.inner.lock().unwrap();
        g.runnable[me] = false;
        let next = self.choose(&mut g);
        g.current = next;
        self.cv.notify_all();
    }

    fn tick(&self) -> u64 {
        let mut g = self.inner.lock().unwrap();
        g.tick += 1;
        g.tick
    }
}

fn install_handler() {
    static ONCE: std::sync::Once = std::sync::Once::new();
    ONCE.call_once(|| {
        set_probe_handler(Some(Arc::new(|name, ctx| {
            CUR.with(|c| {
                let c = c.borrow();
                if let Some((sched, me)) = c.as_ref() {
                    let relevant = match name {
                        "udp:announce:got_peer_map" | "udp:scrape:next_hash" => true,
                        "udp:clean:shard_refs_cloned" | "udp:clean:phase2_shard" => ctx / 1000 == 4 && sched.shards.contains(&(ctx % 1000)),
                        "udp:clean:before_peer_map" => ctx / 1000 == 4 && sched.hash_bytes.contains(&(ctx % 1000)),
                        _ => false,
                    };
                    if relevant {
                        {
                            let mut g = sched.inner.lock().unwrap();
                            if name == "udp:announce:got_peer_map" {
                                g.parked_announce_shard[*me] = Some(ctx % 16);
                            }
                            if name == "udp:clean:phase2_shard" {
                                let shard = ctx % 1000;
                                if g.parked_announce_shard.iter().any(|s| *s == Some(shard)) {
                                    g.saw_clean_during_parked_announce = true;
                                }
                            }
                        }
                        sched.yield_point(*me);
                        if name == "udp:announce:got_peer_map" {
                            sched.inner.lock().unwrap().parked_announce_shard[*me] = None;
                        }
                    }
                }
            });
            ProbeAction::Continue
        })));
    });
}

#[derive(Debug, Clone)]
struct Event {
    op: POp,
    res: Res,
    inv: u64,
    ret: u64,
}

struct RunResult {
    events: Vec<Event>,
    final_scrape: Vec<(i32, i32)>,
    final_peers: Vec<Vec<(IpAddr, u16)>>,
    taken: Vec<(u8, u8)>,
    clean_during_parked_announce: bool,
    stuck: bool,
}

fn run_schedule(p: &Program, decisions: &[u8]) -> RunResult {
    install_handler();
    let mut config = Config::default();
    config.protocol.max_response_peers = 30;
    let maps = TorrentMaps::default();
    let statistics: aquatic_udp::common::CachePaddedArc<aquatic_udp::common::IpVersionStatistics<aquatic_udp::common::SwarmWorkerStatistics>> = Default::default();
    let access_list = Arc::new(AccessListArcSwap::default());
    let (tx, _rx) = crossbeam_channel::unbounded();
    let mut rng = SmallRng::seed_from_u64(1);
    let mut events = Vec::new();
    let mut tick0 = 0u64;
    for op in &p.prefix {
        let res = exec(&maps, &config, p.same_shard, op, &mut rng, &statistics, &access_list, &tx);
        events.push(Event { op: op.clone(), res, inv: tick0 + 1, ret: tick0 + 2 });
        tick0 += 2;
    }
    let n = p.threads.len();
    let hashes: Vec<Hash20> = (0..2).map(|t| torrent(p.same_shard, t)).collect();
    let sched = Arc::new(Sched {
        inner: Mutex::new(Inner {
            current: None,
            runnable: vec![true; n],
            decisions: decisions.to_vec(),
            pos: 0,
            taken: Vec::new(),
            tick: tick0,
            parked_announce_shard: vec![None; n],
            saw_clean_during_parked_announce: false,
        }),
        cv: Condvar::new(),
        shards: hashes.iter().map(|h| (h[0] % 16) as u64).collect(),
        hash_bytes: hashes.iter().map(|h| h[0] as u64).collect(),
    });
    let collected: Arc<Mutex<Vec<Event>>> = Arc::new(Mutex::new(Vec::new()));
    let (done_tx, done_rx) = std::sync::mpsc::channel::<()>();
    for (i, ops) in p.threads.iter().enumerate() {
        let sched = sched.clone();
        let maps = maps.clone();
        let config = config.clone();
        let statistics = statistics.clone();
        let access_list = access_list.clone();
        let tx = tx.clone();
        let collected = collected.clone();
        let same_shard = p.same_shard;
        let ops = ops.clone();
        let done_tx = done_tx.clone();
        std::thread::spawn(move || {
            CUR.with(|c| *c.borrow_mut() = Some((sched.clone(), i)));
            let mut rng = SmallRng::seed_from_u64(2 + i as u64);
            sched.wait_turn(i);
            for (k, op) in ops.iter().enumerate() {
                if k > 0 {
                    sched.yield_point(i); // operation boundary
                }
                let inv = sched.tick();
                let res = exec(&maps, &config, same_shard, op, &mut rng, &statistics, &access_list, &tx);
                let ret = sched.tick();
                collected.lock().unwrap().push(Event { op: op.clone(), res, inv, ret });
            }
            CUR.with(|c| *c.borrow_mut() = None);
            sched.finish(i);
            let _ = done_tx.send(());
        });
    }
    {
        // hand the token to the first thread
        let mut g = sched.inner.lock().unwrap();
        let first = sched.choose(&mut g);
        g.current = first;
        sched.cv.notify_all();
    }
    // The running thread can only block on a lock if a parked thread holds it, i.e. if a probe
    // point sits inside a locked region; then the schedule cannot be owned: undecided, not a
    // violation (real deadlocks are the stress driver's subject).
    let mut stuck = false;
    for _ in 0..n {
        if done_rx.recv_timeout(Duration::from_secs(20)).is_err() {
            stuck = true;
            break;
        }
    }
    if stuck {
        return RunResult { events: vec![], final_scrape: vec![], final_peers: vec![], taken: vec![], clean_during_parked_announce: false, stuck: true };
    }
    events.extend(collected.lock().unwrap().iter().cloned());
    // final quiescent observation
    let final_scrape = match exec(&maps, &config, p.same_shard, &POp::Scrape { ts: vec![0, 1] }, &mut rng, &statistics, &access_list, &tx) {
        Res::Scrape(v) => v,
        _ => vec![],
    };
    let mut final_peers = Vec::new();
    for t in 0..2u8 {
        // observer: stopped announce from a fresh address returns every stored key
        let req = AnnounceRequest {
            connection_id: ConnectionId::new(0),
            action_placeholder: Default::default(),
            transaction_id: TransactionId::new(0),
            info_hash: InfoHash(torrent(p.same_shard, t)),
            peer_id: PeerId([0xee; 20]),
            bytes_downloaded: NumberOfBytes::new(0),
            bytes_left: NumberOfBytes::new(1),
            bytes_uploaded: NumberOfBytes::new(0),
            event: AnnounceEvent::Stopped,
            ip_address: Ipv4AddrBytes([0; 4]),
            key: aquatic_udp_protocol::PeerKey::new(0),
            peers_wanted: NumberOfPeers::new(0),
            port: Port::new(NonZeroU16::new(9).unwrap()),
        };
        let r = maps.announce(&config, &tx, &mut rng, &req, CanonicalSocketAddr::new(SocketAddr::new("10.9.9.9".parse().unwrap(), 1)), ValidUntil::new_raw(SecondsSinceServerStart::new_raw(0)));
        let mut peers: Vec<(IpAddr, u16)> = match r {
            Response::AnnounceIpv4(a) => a.peers.iter().map(|p| (IpAddr::V4(p.ip_address.into()), p.port.0.get())).collect(),
            _ => vec![],
        };
        peers.sort();
        final_peers.push(peers);
    }
    let g = sched.inner.lock().unwrap();
    RunResult { events, final_scrape, final_peers, taken: g.taken.clone(), clean_during_parked_announce: g.saw_clean_during_parked_announce, stuck: false }
}

// ---- linearizability check (per torrent) --------------------------------------------------

#[derive(Debug, Clone)]
enum SubOp {
    Announce { key: (IpAddr, u16), stopped: bool, seeder: bool, deadline: u8, res: Res },
    Read { res: (i32, i32) },
    Expire { now: u8 },
    FinalRead { counts: (i32, i32), peers: Vec<(IpAddr, u16)> },
}

#[derive(Debug, Clone)]
struct Sub {
    op: SubOp,
    inv: u64,
    ret: u64,
}

type TState = BTreeMap<(IpAddr, u16), (bool, u8)>;

fn apply(state: &TState, sub: &SubOp) -> Option<TState> {
    let mut s = state.clone();
    match sub {
        SubOp::Announce { key, stopped, seeder, deadline, res } => {
            s.remove(key);
            let seeders = s.values().filter(|e| e.0).count() as i32;
            let leechers = s.len() as i32 - seeders;
            let mut peers: Vec<(IpAddr, u16)> = s.keys().copied().collect();
            peers.sort();
            let want = Res::Announce { seeders, leechers, peers };
            if *res != want {
                return None;
            }
            if !*stopped {
                s.insert(*key, (*seeder, *deadline));
            }
            Some(s)
        }
        SubOp::Read { res } => {
            let seeders = s.values().filter(|e| e.0).count() as i32;
            if *res == (seeders, s.len() as i32 - seeders) {
                Some(s)
            } else {
                None
            }
        }
        SubOp::Expire { now } => {
            s.retain(|_, e| e.1 > *now);
            Some(s)
        }
        SubOp::FinalRead { counts, peers } => {
            let seeders = s.values().filter(|e| e.0).count() as i32;
            let mut p: Vec<(IpAddr, u16)> = s.keys().copied().collect();
            p.sort();
            if *counts == (seeders, s.len() as i32 - seeders) && *peers == p {
                Some(s)
            } else {
                None
            }
        }
    }
}

fn linearizable(subs: &[Sub]) -> bool {
    fn go(subs: &[Sub], done: u64, state: &TState, seen: &mut HashSet<(u64, Vec<((IpAddr, u16), (bool, u8))>)>) -> bool {
        if done.count_ones() as usize == subs.len() {
            return true;
        }
        let key = (done, state.iter().map(|(k, v)| (*k, *v)).collect::<Vec<_>>());
        if !seen.insert(key) {
            return false;
        }
        // an operation may go next if no other pending operation returned before it was invoked
        let min_ret = subs.iter().enumerate().filter(|(i, _)| done & (1 << i) == 0).map(|(_, s)| s.ret).min().unwrap();
        for (i, s) in subs.iter().enumerate() {
            if done & (1 << i) != 0 || s.inv > min_ret {
                continue;
            }
            if let Some(next) = apply(state, &s.op) {
                if go(subs, done | (1 << i), &next, seen) {
                    return true;
                }
            }
        }
        false
    }
    if subs.len() > 60 {
        return true; // not reached with the generated sizes
    }
    go(subs, 0, &TState::new(), &mut HashSet::new())
}

fn split_by_torrent(events: &[Event], final_scrape: &[(i32, i32)], final_peers: &[Vec<(IpAddr, u16)>]) -> Vec<Vec<Sub>> {
    let mut per: Vec<Vec<Sub>> = vec![Vec::new(), Vec::new()];
    let mut max_ret = 0;
    for e in events {
        max_ret = max_ret.max(e.ret);
        match (&e.op, &e.res) {
            (POp::Announce { t, key, stopped, seeder, deadline }, res) => per[(*t % 2) as usize].push(Sub {
                op: SubOp::Announce { key: key_addr(*key), stopped: *stopped, seeder: *seeder, deadline: *deadline, res: res.clone() },
                inv: e.inv,
                ret: e.ret,
            }),
            (POp::Scrape { ts }, Res::Scrape(v)) => {
                for (i, t) in ts.iter().enumerate() {
                    if let Some(r) = v.get(i) {
                        per[(*t % 2) as usize].push(Sub { op: SubOp::Read { res: *r }, inv: e.inv, ret: e.ret });
                    }
                }
            }
            (POp::Clean { now }, _) => {
                for t in 0..2 {
                    per[t].push(Sub { op: SubOp::Expire { now: *now }, inv: e.inv, ret: e.ret });
                }
            }
            _ => {}
        }
    }
    for t in 0..2 {
        per[t].push(Sub {
            op: SubOp::FinalRead { counts: final_scrape.get(t).copied().unwrap_or((0, 0)), peers: final_peers.get(t).cloned().unwrap_or_default() },
            inv: max_ret + 1,
            ret: max_ret + 2,
        });
    }
    per
}

fn overlaps(events: &[Event]) -> bool {
    for (i, a) in events.iter().enumerate() {
        for b in events.iter().skip(i + 1) {
            let ta = op_torrents(&a.op);
            let tb = op_torrents(&b.op);
            if ta.intersection(&tb).next().is_some() && a.inv < b.ret && b.inv < a.ret {
                return true;
            }
        }
    }
    false
}

fn op_torrents(op: &POp) -> BTreeSet<u8> {
    match op {
        POp::Announce { t, .. } => [*t % 2].into_iter().collect(),
        POp::Scrape { ts } => ts.iter().map(|t| *t % 2).collect(),
        POp::Clean { .. } => [0, 1].into_iter().collect(),
    }
}

pub fn prop_sched(case: &SchedCase) -> CaseResult {
    let mut out = Outcome::default();
    let r = run_schedule(&case.program, &case.decisions);
    if r.stuck {
        return Err(Violation::new("inconclusive-schedule-stuck", "the running thread blocked on a lock held by a parked thread (a probe point lies inside a locked region)"));
    }
    let per = split_by_torrent(&r.events, &r.final_scrape, &r.final_peers);
    for (t, subs) in per.iter().enumerate() {
        out.checks += 1;
        vensure!(
            linearizable(subs),
            "not-linearizable",
            "torrent {t}: no sequential order of the operations explains the recorded replies and the final state; schedule {:?}; operations (inv, ret, op, reply): {:?}; final scrape {:?}, final peers {:?}",
            r.taken,
            r.events.iter().map(|e| (e.inv, e.ret, &e.op, &e.res)).collect::<Vec<_>>(),
            r.final_scrape,
            r.final_peers
        );
    }
    if r.clean_during_parked_announce {
        out.label("clean-phase2-during-parked-announce");
        out.nontrivial = true;
    }
    if overlaps(&r.events) {
        out.label("overlapping-ops-on-one-torrent");
        out.nontrivial = true;
    }
    Ok(out)
}

/// enumerate (or sample) the schedules of one program; returns a report of the whole program
#[derive(Debug, Clone, Serialize, Deserialize)]
pub struct ProgramCase {
    pub program: Program,
    pub limit: u32,
    pub sample_seed: u64,
}

pub fn prop_program(case: &ProgramCase) -> CaseResult {
    let mut out = Outcome::default();
    let mut decisions: Vec<u8> = Vec::new();
    let mut count = 0u32;
    let mut exhausted = false;
    loop {
        let sc = SchedCase { program: case.program.clone(), decisions: decisions.clone() };
        let r = run_schedule(&sc.program, &sc.decisions);
        if r.stuck {
            return Err(Violation::new("inconclusive-schedule-stuck", "the running thread blocked on a lock held by a parked thread (a probe point lies inside a locked region)"));
        }
        let per = split_by_torrent(&r.events, &r.final_scrape, &r.final_peers);
        count += 1;
        for (t, subs) in per.iter().enumerate() {
            out.checks += 1;
            if !linearizable(subs) {
                return Err(Violation::new(
                    "not-linearizable",
                    format!(
                        "torrent {t}: no sequential order explains the replies and the final state under schedule {:?} (replay as a SchedCase with these decisions: {:?}); operations (inv, ret, op, reply): {:?}; final scrape {:?}, final peers {:?}",
                        r.taken,
                        r.taken.iter().map(|(c, _)| *c).collect::<Vec<_>>(),
                        r.events.iter().map(|e| (e.inv, e.ret, &e.op, &e.res)).collect::<Vec<_>>(),
                        r.final_scrape,
                        r.final_peers
                    ),
                ));
            }
        }
        if r.clean_during_parked_announce {
            out.label("clean-phase2-during-parked-announce");
            out.nontrivial = true;
        }
        if overlaps(&r.events) {
            out.label("overlapping-ops-on-one-torrent");
            out.nontrivial = true;
        }
        // next schedule in DFS order
        let mut taken = r.taken.clone();
        loop {
            match taken.pop() {
                Some((c, n)) if c + 1 < n => {
                    taken.push((c + 1, n));
                    break;
                }
                Some(_) => continue,
                None => {
                    exhausted = true;
                    break;
                }
            }
        }
        if exhausted || count >= case.limit {
            break;
        }
        decisions = taken.iter().map(|(c, _)| *c).collect();
    }
    out.checks += count as u64;
    if exhausted {
        out.label("all-schedules-enumerated");
    } else {
        out.label("schedule-limit-reached");
        // sample further schedules with generated decisions
        for k in 0..case.limit / 4 {
            let seed = derive_seed(case.sample_seed, "C04", "sample", k as u64);
            let decisions: Vec<u8> = (0..64).map(|i| (derive_seed(seed, "d", "", i) % 7) as u8).collect();
            let r = run_schedule(&case.program, &decisions);
            if r.stuck {
                return Err(Violation::new("inconclusive-schedule-stuck", "running thread blocked on a parked thread"));
            }
            let per = split_by_torrent(&r.events, &r.final_scrape, &r.final_peers);
            for (t, subs) in per.iter().enumerate() {
                if !linearizable(subs) {
                    return Err(Violation::new("not-linearizable", format!("torrent {t}: sampled schedule {:?}: operations {:?}; final scrape {:?}, final peers {:?}", r.taken, r.events.iter().map(|e| (e.inv, e.ret, &e.op, &e.res)).collect::<Vec<_>>(), r.final_scrape, r.final_peers)));
                }
            }
        }
    }
    Ok(out)
}

fn pop(keys: u8) -> impl Strategy<Value = POp> + Clone {
    prop_oneof![
        6 => (0u8..2, 0..keys, prop_oneof![3 => Just(false), 1 => Just(true)], any::<bool>(), prop_oneof![Just(1u8), Just(2u8), Just(9u8)])
            .prop_map(|(t, key, stopped, seeder, deadline)| POp::Announce { t, key, stopped, seeder, deadline }),
        2 => proptest::collection::vec(0u8..2, 1..3).prop_map(|ts| POp::Scrape { ts }),
        3 => prop_oneof![Just(0u8), Just(1u8), Just(2u8), Just(5u8)].prop_map(|now| POp::Clean { now }),
    ]
}

fn program() -> impl Strategy<Value = Program> {
    (
        any::<bool>(),
        proptest::collection::vec(pop(3), 0..3),
        prop_oneof![
            3 => proptest::collection::vec(proptest::collection::vec(pop(3), 1..3), 2..3),
            1 => proptest::collection::vec(proptest::collection::vec(pop(3), 1..2), 3..4),
        ],
    )
        .prop_map(|(same_shard, prefix, threads)| Program { same_shard, prefix, threads })
}

/// the scenario the CHANGELOG describes: a torrent whose only peer expires while a new announce
/// for it is in flight
fn lost_announce_program(same_shard: bool) -> Program {
    Program {
        same_shard,
        prefix: vec![POp::Announce { t: 0, key: 0, stopped: false, seeder: false, deadline: 1 }],
        threads: vec![
            vec![POp::Announce { t: 0, key: 1, stopped: false, seeder: true, deadline: 9 }],
            vec![POp::Clean { now: 5 }],
            vec![POp::Scrape { ts: vec![0] }],
        ],
    }
}

// ---- free-running stress ---------------------------------------------------------------------

/// Start line for the threads of a burst. A condvar barrier wakes its waiters one after the other
/// (each wake-up is a trip through the scheduler - on a busy machine milliseconds apart, far more
/// than the microseconds a burst lasts, so the operations would not overlap at all); here every
/// thread that has arrived stays on its CPU and spins until the last one arrives.
pub struct SpinBarrier {
    n: usize,
    arrived: std::sync::atomic::AtomicUsize,
}

impl SpinBarrier {
    pub fn new(n: usize) -> Self {
        Self { n, arrived: std::sync::atomic::AtomicUsize::new(0) }
    }
    pub fn wait(&self) {
        self.arrived.fetch_add(1, Ordering::SeqCst);
        let start = Instant::now();
        let mut spins = 0u32;
        while self.arrived.load(Ordering::SeqCst) < self.n {
            spins += 1;
            if spins % 1024 == 0 && start.elapsed() > Duration::from_millis(20) {
                // the others have not even been scheduled yet: do not burn the CPU they need
                std::thread::yield_now();
            } else {
                std::hint::spin_loop();
            }
        }
    }
}

#[derive(Debug, Clone, Serialize, Deserialize)]
pub struct Burst {
    pub threads: Vec<Vec<POp>>,
    pub bursts: u16,
}

pub fn prop_stress(case: &Burst) -> CaseResult {
    let mut out = Outcome::default();
    let mut config = Config::default();
    config.protocol.max_response_peers = 30;
    let maps = TorrentMaps::default();
    let statistics: aquatic_udp::common::CachePaddedArc<aquatic_udp::common::IpVersionStatistics<aquatic_udp::common::SwarmWorkerStatistics>> = Default::default();
    let access_list = Arc::new(AccessListArcSwap::default());
    let (tx, _rx) = crossbeam_channel::unbounded();
    let ticket = Arc::new(AtomicU64::new(0));
    // per torrent: every state the storage can be in, given all replies seen so far
    let mut carried: Vec<Vec<TState>> = vec![vec![TState::new()], vec![TState::new()]];
    for b in 0..case.bursts.max(1) {
        let events: Arc<Mutex<Vec<Event>>> = Arc::new(Mutex::new(Vec::new()));
        let done = Arc::new(AtomicBool::new(false));
        let go = Arc::new(SpinBarrier::new(case.threads.len()));
        let finished = Arc::new(AtomicU64::new(0));
        let mut handles = Vec::new();
        let mut tids: Vec<Arc<AtomicU64>> = Vec::new();
        for (i, ops) in case.threads.iter().enumerate() {
            let (maps, config, statistics, access_list, tx, ticket, events, go, finished) =
                (maps.clone(), config.clone(), statistics.clone(), access_list.clone(), tx.clone(), ticket.clone(), events.clone(), go.clone(), finished.clone());
            // rotate the operations per burst so that bursts differ
            let mut ops = ops.clone();
            if !ops.is_empty() {
                let k = b as usize % ops.len();
                ops.rotate_left(k);
            }
            let tid = Arc::new(AtomicU64::new(0));
            tids.push(tid.clone());
            handles.push(std::thread::spawn(move || {
                tid.store(unsafe { libc::syscall(libc::SYS_gettid) } as u64, Ordering::SeqCst);
                let mut rng = SmallRng::seed_from_u64(i as u64);
                go.wait();
                for op in ops.iter() {
                    let inv = ticket.fetch_add(1, Ordering::SeqCst) + 1;
                    let res = exec(&maps, &config, true, op, &mut rng, &statistics, &access_list, &tx);
                    let ret = ticket.fetch_add(1, Ordering::SeqCst) + 1;
                    events.lock().unwrap().push(Event { op: op.clone(), res, inv, ret });
                }
                finished.fetch_add(1, Ordering::SeqCst);
            }));
        }
        // watchdog: all workers blocked without consuming CPU for 10 s = deadlock
        let start = Instant::now();
        let mut last_cpu: Option<u64> = None;
        let mut stalled_since: Option<Instant> = None;
        while finished.load(Ordering::SeqCst) < case.threads.len() as u64 {
            std::thread::sleep(Duration::from_millis(if start.elapsed() < Duration::from_millis(200) { 1 } else { 200 }));
            if start.elapsed() > Duration::from_secs(2) {
                let mut cpu = 0u64;
                let mut all_sleeping = true;
                for t in &tids {
                    let tid = t.load(Ordering::SeqCst);
                    if let Ok(stat) = std::fs::read_to_string(format!("/proc/self/task/{tid}/stat")) {
                        let after = stat.rsplit(") ").next().unwrap_or("");
                        let f: Vec<&str> = after.split_whitespace().collect();
                        if f.first().map(|s| *s != "S").unwrap_or(false) {
                            all_sleeping = false;
                        }
                        cpu += f.get(11).and_then(|s| s.parse::<u64>().ok()).unwrap_or(0) + f.get(12).and_then(|s| s.parse::<u64>().ok()).unwrap_or(0);
                    }
                }
                if all_sleeping && last_cpu == Some(cpu) {
                    if stalled_since.is_none() {
                        stalled_since = Some(Instant::now());
                    }
                    if stalled_since.unwrap().elapsed() > Duration::from_secs(10) {
                        done.store(true, Ordering::SeqCst);
                        vfail!("deadlock", "burst {b}: all {} worker threads have been blocked without using CPU for 10 s ({} of them finished); threads' programs: {:?}", case.threads.len(), finished.load(Ordering::SeqCst), case.threads);
                    }
                } else {
                    stalled_since = None;
                }
                last_cpu = Some(cpu);
            }
            if start.elapsed() > Duration::from_secs(60) {
                return Err(Violation::new("inconclusive-burst-timeout", format!("burst {b} did not finish in 60 s but threads are not all blocked")));
            }
        }
        for h in handles {
            let _ = h.join();
        }
        let events = events.lock().unwrap().clone();
        // quiescent observation
        let mut rng = SmallRng::seed_from_u64(99);
        let final_scrape = match exec(&maps, &config, true, &POp::Scrape { ts: vec![0, 1] }, &mut rng, &statistics, &access_list, &tx) {
            Res::Scrape(v) => v,
            _ => vec![],
        };
        // Wing-Gong per torrent, starting from the state carried over from earlier bursts
        let per = split_by_torrent(&events, &final_scrape, &[vec![], vec![]]);
        for (t, subs) in per.iter().enumerate() {
            // final peers are not observed in stress mode (observing would mutate representation
            // between bursts); drop the FinalRead's peer comparison by searching with counts only
            let subs: Vec<Sub> = subs
                .iter()
                .map(|s| match &s.op {
                    SubOp::FinalRead { counts, .. } => Sub { op: SubOp::Read { res: *counts }, inv: s.inv, ret: s.ret },
                    _ => s.clone(),
                })
                .collect();
            out.checks += 1;
            let ends = linearizable_from(&subs, &carried[t]);
            if ends.len() > 1 {
                out.label("several-end-states-consistent");
            }
            match ends.is_empty() {
                false => carried[t] = ends,
                true => vfail!(
                    "not-linearizable",
                    "burst {b}, torrent {t}: no sequential order explains the replies of the free-running threads from any of the {} possible start states {:?}; operations (inv, ret, op, reply): {:?}; final scrape {:?}",
                    carried[t].len(),
                    carried[t],
                    events.iter().map(|e| (e.inv, e.ret, &e.op, &e.res)).collect::<Vec<_>>(),
                    final_scrape
                ),
            }
        }
        if overlaps(&events) {
            out.label("overlapping-ops-on-one-torrent");
            out.nontrivial = true;
        }
    }
    Ok(out)
}

/// like `linearizable`, from a *set* of possible start states, returning every reachable end
/// state. The state between bursts is not fully observable (deadlines only show when a later
/// cleaning pass acts on them), so several end states can be consistent with one burst; carrying
/// just one of them would make a later burst look non-linearizable although the other explains
/// it. An empty result = no sequential order from any possible start explains the burst.
fn linearizable_from(subs: &[Sub], starts: &[TState]) -> Vec<TState> {
    type Key = (u64, Vec<((IpAddr, u16), (bool, u8))>);
    fn go(subs: &[Sub], done: u64, state: &TState, seen: &mut HashSet<Key>, ends: &mut Vec<TState>) {
        let key = (done, state.iter().map(|(k, v)| (*k, *v)).collect::<Vec<_>>());
        if !seen.insert(key) {
            return;
        }
        if done.count_ones() as usize == subs.len() {
            ends.push(state.clone());
            return;
        }
        let min_ret = subs.iter().enumerate().filter(|(i, _)| done & (1 << i) == 0).map(|(_, s)| s.ret).min().unwrap();
        for (i, s) in subs.iter().enumerate() {
            if done & (1 << i) != 0 || s.inv > min_ret {
                continue;
            }
            if let Some(next) = apply(state, &s.op) {
                go(subs, done | (1 << i), &next, seen, ends);
            }
        }
    }
    if subs.len() > 60 {
        return starts.to_vec();
    }
    let mut seen = HashSet::new();
    let mut ends = Vec::new();
    for st in starts {
        go(subs, 0, st, &mut seen, &mut ends);
    }
    ends
}

/// Deadlock hunt: the same generated operation lists, repeated many times by free-running
/// threads with no recording at all (so the threads spend their time inside the storage code);
/// only the watchdog judges.
pub fn prop_hunt(case: &Burst) -> CaseResult {
    let mut out = Outcome::default();
    let mut config = Config::default();
    config.protocol.max_response_peers = 30;
    let maps = TorrentMaps::default();
    let statistics: aquatic_udp::common::CachePaddedArc<aquatic_udp::common::IpVersionStatistics<aquatic_udp::common::SwarmWorkerStatistics>> = Default::default();
    let access_list = Arc::new(AccessListArcSwap::default());
    let (tx, _rx) = crossbeam_channel::unbounded();
    let finished = Arc::new(AtomicU64::new(0));
    let go = Arc::new(std::sync::Barrier::new(case.threads.len()));
    let mut tids: Vec<Arc<AtomicU64>> = Vec::new();
    let reps = 150 * case.bursts.max(1) as usize;
    for (i, ops) in case.threads.iter().enumerate() {
        let (maps, config, statistics, access_list, tx, go, finished) = (maps.clone(), config.clone(), statistics.clone(), access_list.clone(), tx.clone(), go.clone(), finished.clone());
        let ops = ops.clone();
        let tid = Arc::new(AtomicU64::new(0));
        tids.push(tid.clone());
        std::thread::spawn(move || {
            tid.store(unsafe { libc::syscall(libc::SYS_gettid) } as u64, Ordering::SeqCst);
            let mut rng = SmallRng::seed_from_u64(i as u64);
            go.wait();
            for _ in 0..reps {
                for op in ops.iter() {
                    let _ = exec(&maps, &config, true, op, &mut rng, &statistics, &access_list, &tx);
                }
            }
            finished.fetch_add(1, Ordering::SeqCst);
        });
    }
    let start = Instant::now();
    let mut last_cpu: Option<u64> = None;
    let mut stalled_since: Option<Instant> = None;
    while finished.load(Ordering::SeqCst) < case.threads.len() as u64 {
        std::thread::sleep(Duration::from_millis(if start.elapsed() < Duration::from_millis(500) { 1 } else { 250 }));
        if start.elapsed() > Duration::from_secs(1) {
            let mut cpu = 0u64;
            let mut all_sleeping = true;
            for t in &tids {
                let tid = t.load(Ordering::SeqCst);
                if let Ok(stat) = std::fs::read_to_string(format!("/proc/self/task/{tid}/stat")) {
                    let after = stat.rsplit(") ").next().unwrap_or("");
                    let f: Vec<&str> = after.split_whitespace().collect();
                    if f.first().map(|s| *s != "S").unwrap_or(false) {
                        all_sleeping = false;
                    }
                    cpu += f.get(11).and_then(|s| s.parse::<u64>().ok()).unwrap_or(0) + f.get(12).and_then(|s| s.parse::<u64>().ok()).unwrap_or(0);
                }
            }
            if all_sleeping && last_cpu == Some(cpu) {
                if stalled_since.is_none() {
                    stalled_since = Some(Instant::now());
                }
                if stalled_since.unwrap().elapsed() > Duration::from_secs(10) {
                    vfail!(
                        "deadlock",
                        "{} of {} free-running threads are blocked and none has used CPU for 10 s; threads' operation lists: {:?}",
                        case.threads.len() as u64 - finished.load(Ordering::SeqCst),
                        case.threads.len(),
                        case.threads
                    );
                }
            } else {
                stalled_since = None;
            }
            last_cpu = Some(cpu);
        }
        if start.elapsed() > Duration::from_secs(120) {
            return Err(Violation::new("inconclusive-hunt-timeout", "threads still running after 120 s but not all blocked"));
        }
    }
    out.checks += 1;
    out.nontrivial = true;
    out.label("hunt-completed");
    Ok(out)
}

fn burst() -> impl Strategy<Value = Burst> {
    (proptest::collection::vec(proptest::collection::vec(pop(4), 3..7), 4..5), 1u16..4).prop_map(|(threads, bursts)| Burst { threads, bursts })
}

pub fn run(ctx: &mut Ctx) {
    // free-running sub-checks: one sound observation decides, reproducible or not
    ctx.decisive_kinds = vec!["deadlock", "not-linearizable"];
    ctx.assume("schedules are owned at probe granularity: the probe points sit exactly at the places where announce, scrape and clean hold no lock (read from swarm.rs); atomicity inside a locked region is taken from parking_lot");
    ctx.assume("deadlock freedom is sampled by the stress driver (watchdog on thread states), not shown; carried state between bursts uses the first consistent end state");
    ctx.run_regress::<SchedCase, _>("schedules", prop_sched);
    ctx.run_regress::<ProgramCase, _>("programs", prop_program);
    ctx.run_regress::<Burst, _>("stress", prop_stress);
    let tier = ctx.tier;
    // the CHANGELOG scenario, all schedules
    let fixed = vec![
        ProgramCase { program: lost_announce_program(true), limit: 20_000, sample_seed: 1 },
        ProgramCase { program: lost_announce_program(false), limit: 20_000, sample_seed: 2 },
    ];
    ctx.run_enum("lost-announce-scenario", fixed, true, prop_program);
    let limit = tier.pick(600, 3000);
    let seed = ctx.seed;
    ctx.run_prop("programs", tier.pick(160, 1200), move || program().prop_map(move |program| ProgramCase { program, limit, sample_seed: seed }), prop_program);
    ctx.require_label("programs", "clean-phase2-during-parked-announce", 0.2);
    ctx.require_label("programs", "overlapping-ops-on-one-torrent", 0.5);
    ctx.require_label("programs", "all-schedules-enumerated", 0.3);
    ctx.run_prop("stress", tier.pick(3000, 100_000), burst, prop_stress);
    // how often free-running threads really overlap is the scheduler's doing (about 60 % on an
    // idle 16-core machine, 14 % measured at load average 70 with the former condvar start line):
    // the floor only guards against bursts that never overlap
    ctx.require_label("stress", "overlapping-ops-on-one-torrent", 0.05);
    // a constant swarm under concurrent re-announces (shared with C20): a cleaning pass is one
    // atomic step per torrent, so what it reports must be the constant state
    let saved = ctx.threads;
    ctx.threads = 4;
    ctx.run_enum("constant-swarm-under-load", crate::checks::hot::cases(ctx.seed ^ 0x4, tier), false, crate::checks::hot::prop_hot);
    ctx.threads = saved;
    ctx.run_regress::<Burst, _>("deadlock-hunt", prop_hunt);
    let hunt_threads = (ctx.threads / 4).max(1);
    ctx.run_prop_threads("deadlock-hunt", tier.pick(200, 6000), hunt_threads, burst, prop_hunt);
}

pub fn replay(path: &str, sub: &str, case: serde_json::Value) -> i32 {
    match sub {
        "schedules" => replay_one::<SchedCase, _>("C04", path, case, prop_sched),
        "stress" => replay_one::<Burst, _>("C04", path, case, prop_stress),
        "constant-swarm-under-load" => replay_one::<crate::checks::hot::HotCase, _>("C04", path, case, crate::checks::hot::prop_hot),
        "deadlock-hunt" => replay_one::<Burst, _>("C04", path, case, prop_hunt),
        _ => replay_one::<ProgramCase, _>("C04", path, case, prop_program),
    }
}
