//! C20 sub-check `reports-e2e`: what a *running* aquatic_udp reports to its operator - the HTML
//! statistics page written by the statistics worker (totals per address family, peer-client table)
//! and the full-scrape export written by the cleaning worker - against the reference model, after
//! generated batches of announces / id changes / stops over real sockets and after expiry.
//!
//! The storage-level `histories` sub-check folds the PeerAdded / PeerRemoved stream with the
//! harness's copy of the statistics worker's rule; here the worker itself (workers/statistics),
//! the collector, the channel between swarm and statistics worker and the cleaning worker's call
//! of clean_and_update_statistics are the code under test.
//!
//! Reports are refreshed every second (statistics.interval = 1, cleaning every second), so after
//! a batch the state is quiescent and the reports must converge to the model: they are polled until
//! they agree, and a report that still disagrees 12 s later is the violation.

use std::collections::{BTreeMap, BTreeSet};
use std::net::{IpAddr, Ipv4Addr, Ipv6Addr};
use std::time::{Duration, Instant};

use serde::{Deserialize, Serialize};

use crate::codecs::*;
use crate::e2e::*;
use crate::engine::*;
use crate::models::Hash20;
use crate::vfail;

#[derive(Debug, Clone, PartialEq, Serialize, Deserialize)]
pub enum Op {
    /// client index (address), announced port index, torrent, peer-id index, seeder
    Announce { client: u8, port: u8, torrent: u8, pid: u8, seeder: bool },
    Stop { client: u8, port: u8, torrent: u8, pid: u8 },
}

#[derive(Debug, Clone, PartialEq, Serialize, Deserialize)]
pub struct ReportsCase {
    /// "udp-mio" | "udp-uring"
    pub tracker: String,
    pub socket_workers: usize,
    /// batches of operations; the reports are compared after each batch
    pub batches: Vec<Vec<Op>>,
    /// after the last batch nothing is announced any more and everything must expire
    pub max_peer_age: u32,
}

const CLIENT_PREFIXES: [&[u8; 8]; 6] = [b"-TR2940-", b"-qB4250-", b"-DE13F0-", b"-lt0D80-", b"-UT3550-", b"-TR3000-"];

fn peer_id(pid: u8) -> [u8; 20] {
    let mut id = [b'0'; 20];
    id[..8].copy_from_slice(CLIENT_PREFIXES[pid as usize % CLIENT_PREFIXES.len()]);
    // several ids per client prefix
    id[8] = b'a' + (pid / CLIENT_PREFIXES.len() as u8) % 26;
    id[19] = b'A' + pid % 26;
    id
}

fn torrent_hash(tag: u16, t: u8) -> Hash20 {
    let mut h = [0x51u8; 20];
    h[0] = t.wrapping_mul(37); // spread over the 16 shards
    h[1] = (tag >> 8) as u8;
    h[2] = tag as u8;
    h[19] = t;
    h
}

fn client_ip(c: u8) -> IpAddr {
    match c % 5 {
        4 => Ipv6Addr::LOCALHOST.into(),
        k => Ipv4Addr::new(127, 0, 0, 1 + k).into(),
    }
}

#[derive(Debug, Default, PartialEq, Clone)]
pub struct Report {
    /// (torrents, peers) for IPv4, IPv6
    pub totals: [(u64, u64); 2],
    /// client name -> count
    pub clients: BTreeMap<String, u64>,
}

fn number(s: &str) -> Option<u64> {
    let t: String = s.chars().filter(|c| c.is_ascii_digit()).collect();
    if t.is_empty() || s.chars().any(|c| !(c.is_ascii_digit() || c == ',' || c == ' ' || c == '*')) {
        return None;
    }
    t.parse().ok()
}

/// the `<td>..</td>` that follows the first occurrence of `label` at or after `from`
fn td_after<'a>(html: &'a str, from: usize, label: &str) -> Option<(&'a str, usize)> {
    let p = html[from..].find(label)? + from;
    let a = html[p..].find("<td>")? + p + 4;
    let b = html[a..].find("</td>")? + a;
    Some((&html[a..b], b))
}

pub fn parse_html(html: &str) -> Option<Report> {
    if !html.trim_end().ends_with("</html>") {
        return None;
    }
    let mut r = Report::default();
    for (i, head) in ["<h2>IPv4</h2>", "<h2>IPv6</h2>"].iter().enumerate() {
        let p = html.find(head)?;
        let (t, q) = td_after(html, p, "Number of torrents")?;
        let (n, _) = td_after(html, q, "Number of peers")?;
        r.totals[i] = (number(t)?, number(n)?);
    }
    let p = html.find("<h2>Peer clients</h2>")?;
    let body = &html[html[p..].find("<tbody>")? + p..];
    let body = &body[..body.find("</tbody>")?];
    let mut rest = body;
    while let Some(a) = rest.find("<td>") {
        let b = rest[a..].find("</td>")? + a;
        let name = rest[a + 4..b].to_string();
        rest = &rest[b + 5..];
        let a2 = rest.find("<td>")?;
        let b2 = rest[a2..].find("</td>")? + a2;
        let count = number(&rest[a2 + 4..b2])?;
        rest = &rest[b2 + 5..];
        *r.clients.entry(name).or_default() += count;
    }
    Some(r)
}

/// export file: set of (family, hash hex, seeders, leechers); None if not well-formed
pub fn parse_export(text: &str) -> Option<BTreeSet<(u8, String, u64, u64)>> {
    if !text.is_empty() && !text.ends_with('\n') {
        return None;
    }
    let mut s = BTreeSet::new();
    for l in text.lines() {
        let f: Vec<&str> = l.split(' ').collect();
        if f.len() != 4 {
            return None;
        }
        let fam = match f[0] {
            "4" => 4,
            "6" => 6,
            _ => return None,
        };
        if !s.insert((fam, f[1].to_string(), f[2].parse().ok()?, f[3].parse().ok()?)) {
            return None;
        }
    }
    Some(s)
}

fn inc(kind: &str, e: impl std::fmt::Display) -> Violation {
    Violation::new(&format!("inconclusive-{kind}"), e.to_string())
}

type Key = (u8, u8, IpAddr, u16); // family index, torrent, ip, port

fn expected(model: &BTreeMap<Key, ([u8; 20], bool)>, tag: u16) -> (Report, BTreeSet<(u8, String, u64, u64)>) {
    let mut r = Report::default();
    let mut per_torrent: BTreeMap<(u8, u8), (u64, u64)> = BTreeMap::new();
    let mut ids: BTreeSet<[u8; 20]> = BTreeSet::new();
    for ((fam, t, _, _), (id, seeder)) in model.iter() {
        let e = per_torrent.entry((*fam, *t)).or_default();
        if *seeder {
            e.0 += 1;
        } else {
            e.1 += 1;
        }
        r.totals[*fam as usize].1 += 1;
        ids.insert(*id);
    }
    for ((fam, _), _) in per_torrent.iter() {
        r.totals[*fam as usize].0 += 1;
    }
    for id in ids {
        // the tracker's own naming of clients (crate aquatic_peer_id) - the property is about the
        // tallies, not about the names
        let name = aquatic_peer_id::PeerId(id).client().to_string();
        *r.clients.entry(name).or_default() += 1;
    }
    let export = per_torrent.iter().map(|((fam, t), (s, l))| (if *fam == 0 { 4 } else { 6 }, hex(&torrent_hash(tag, *t)), *s, *l)).collect();
    (r, export)
}

pub fn hex(b: &[u8]) -> String {
    b.iter().map(|x| format!("{:02x}", x)).collect()
}

pub fn prop_reports(c: &ReportsCase) -> CaseResult {
    let mut out = Outcome::default();
    let dir = tempfile::Builder::new().prefix("vcheck-c20-").tempdir_in("/dev/shm").or_else(|_| tempfile::tempdir()).map_err(|e| inc("io", e))?;
    let html_path = dir.path().join("statistics.html");
    let export_path = dir.path().join("export.txt");
    let uring = c.tracker == "udp-uring";
    let age = c.max_peer_age.max(18);
    let mut tr = start_udp(|port| {
        let mut cfg = udp_config(port, SocketMode::Both, uring, c.socket_workers.max(1));
        cfg.cleaning.torrent_cleaning_interval = 1;
        cfg.cleaning.max_peer_age = age;
        cfg.statistics.interval = 1;
        cfg.statistics.write_html_to_file = true;
        cfg.statistics.html_file_path = html_path.clone();
        cfg.statistics.peer_clients = true;
        cfg.statistics.torrent_peer_histograms = true;
        cfg.scrape_exports.enable_scrape_exports = true;
        cfg.scrape_exports.frequency = 1;
        cfg.scrape_exports.path = export_path.clone();
        cfg
    })
    .map_err(|e| inc("tracker-start", e))?;
    let tag = tr.port;
    let mut clients = Vec::new();
    for k in 0..5u8 {
        clients.push(UdpClient::new(client_ip(k), tr.port).map_err(|e| inc("client", e))?);
    }
    let mut model: BTreeMap<Key, ([u8; 20], bool)> = BTreeMap::new();
    let started = Instant::now();
    let converge = |model: &BTreeMap<Key, ([u8; 20], bool)>, what: &str, out: &mut Outcome| -> Result<(), Violation> {
        let (want, want_export) = expected(model, tag);
        let deadline = Instant::now() + Duration::from_secs(12);
        let mut last_html: Option<Report>;
        let mut last_export: Option<BTreeSet<(u8, String, u64, u64)>>;
        let mut html_ok_seen = false;
        let mut export_ok_seen = false;
        loop {
            last_html = std::fs::read_to_string(&html_path).ok().and_then(|t| parse_html(&t));
            last_export = std::fs::read_to_string(&export_path).ok().and_then(|t| parse_export(&t));
            html_ok_seen |= last_html.as_ref() == Some(&want);
            export_ok_seen |= last_export.as_ref() == Some(&want_export);
            if html_ok_seen && export_ok_seen {
                break;
            }
            if Instant::now() > deadline {
                if !html_ok_seen {
                    vfail!(
                        "statistics-report-differs",
                        "{} {what}: 12 s (12 cleaning passes and statistics intervals) after the last request the statistics page shows totals v4 {:?} v6 {:?}, clients {:?}; stored: v4 {:?} v6 {:?}, clients {:?}",
                        c.tracker,
                        last_html.as_ref().map(|r| r.totals[0]),
                        last_html.as_ref().map(|r| r.totals[1]),
                        last_html.as_ref().map(|r| r.clients.clone()),
                        want.totals[0],
                        want.totals[1],
                        want.clients
                    );
                }
                vfail!("export-differs", "{} {what}: 12 s after the last request the export file holds {:?}; stored: {:?}", c.tracker, last_export, want_export);
            }
            std::thread::sleep(Duration::from_millis(100));
        }
        out.checks += 2;
        Ok(())
    };
    let timeout = reply_wait();
    for (bi, batch) in c.batches.iter().enumerate() {
        for (oi, op) in batch.iter().enumerate() {
            let (client, port, torrent, pid, event, left) = match op {
                Op::Announce { client, port, torrent, pid, seeder } => (*client, *port, *torrent, *pid, if bi + oi % 3 == 0 { 2 } else { 0 }, if *seeder { 0 } else { 5 }),
                Op::Stop { client, port, torrent, pid } => (*client, *port, *torrent, *pid, 3, 1),
            };
            let cl = &clients[client as usize % clients.len()];
            let tid = (bi * 1000 + oi) as i32;
            cl.send(&bep15_encode_request(&UReq::Connect { tid })).map_err(|e| inc("send", e))?;
            let v4 = cl.canonical_ip.is_ipv4();
            let cid = loop {
                match cl.recv(timeout).map(|(b, _)| bep15_decode_response(&b, v4)) {
                    Some(Ok(URsp::Connect { cid, tid: t })) if t == tid => break cid,
                    Some(_) => continue,
                    None => return Err(inc("connect", "no connect reply")),
                }
            };
            let announced_port = 3000 + port as u16 % 4;
            let id = peer_id(pid);
            cl.send(&bep15_encode_request(&UReq::Announce { cid, tid, info_hash: torrent_hash(tag, torrent % 6), peer_id: id, downloaded: 0, left, uploaded: 0, event, ip: [0; 4], key: 0, numwant: 5, port: announced_port })).map_err(|e| inc("send", e))?;
            loop {
                match cl.recv(timeout).map(|(b, _)| bep15_decode_response(&b, v4)) {
                    Some(Ok(URsp::Announce4 { tid: t, .. })) | Some(Ok(URsp::Announce6 { tid: t, .. })) if t == tid => break,
                    Some(Ok(URsp::Error { tid: t, message })) if t == tid => vfail!("announce-refused", "{}: announce refused: {}", c.tracker, message),
                    Some(_) => continue,
                    None => return Err(inc("no-reply", "announce not answered")),
                }
            }
            let key: Key = (if v4 { 0 } else { 1 }, torrent % 6, cl.canonical_ip, announced_port);
            if event == 3 {
                model.remove(&key);
                out.label("stop");
            } else {
                if let Some((old, _)) = model.get(&key) {
                    if *old != id {
                        out.label("peer-id-change");
                    }
                }
                model.insert(key, (id, left == 0));
            }
        }
        converge(&model, &format!("after batch {bi}"), &mut out)?;
        // peers of the first batch must not come near their deadline while batches are compared
        // (a stale time sample may put a deadline up to ~5 s early)
        if started.elapsed().as_secs_f64() > age as f64 - 7.0 {
            return Err(inc("too-slow", format!("batch {bi} compared {:.1} s after the first announce, max_peer_age {age}", started.elapsed().as_secs_f64())));
        }
        out.label("batch-converged");
    }
    if !model.is_empty() {
        out.nontrivial = true;
    }
    // nothing is announced any more: everything expires, and is un-tallied
    std::thread::sleep(Duration::from_secs(age as u64 + 1));
    model.clear();
    converge(&model, "after every peer has expired", &mut out)?;
    out.label("all-expired-converged");
    out.label(&c.tracker);
    if let Some(r) = tr.result() {
        vfail!("tracker-stopped", "{}: {}", c.tracker, r);
    }
    Ok(out)
}

pub fn cases(seed: u64, tier: Tier) -> Vec<ReportsCase> {
    let mut v = Vec::new();
    let per_tracker = tier.pick(1u64, 4);
    for (ti, tr) in ["udp-mio", "udp-uring"].iter().enumerate() {
        for rep in 0..per_tracker {
            let mut x = derive_seed(seed, "C20", "reports-e2e", ti as u64 * 100 + rep);
            let mut next = |n: u64| {
                x = x.wrapping_mul(6364136223846793005).wrapping_add(1442695040888963407);
                ((x >> 33) % n) as u8
            };
            let mut batches = Vec::new();
            let n_batches = tier.pick(3, 5);
            let mut live: Vec<(u8, u8, u8, u8)> = Vec::new();
            for _ in 0..n_batches {
                let mut b = Vec::new();
                for _ in 0..tier.pick(14, 40) {
                    let k = next(10);
                    if k < 2 && !live.is_empty() {
                        // stop of a peer announced before (with the id it has now)
                        let i = next(live.len() as u64) as usize;
                        let (client, port, torrent, pid) = live.swap_remove(i);
                        b.push(Op::Stop { client, port, torrent, pid });
                    } else if k < 5 && !live.is_empty() {
                        // same address and port, other peer id (client restart) or other status
                        let i = next(live.len() as u64) as usize;
                        let pid = next(18);
                        live[i].3 = pid;
                        let (client, port, torrent, _) = live[i];
                        b.push(Op::Announce { client, port, torrent, pid, seeder: next(2) == 0 });
                    } else {
                        let e = (next(5), next(4), next(6), next(18));
                        live.retain(|l| !(l.0 == e.0 && l.1 == e.1 && l.2 == e.2));
                        live.push(e);
                        b.push(Op::Announce { client: e.0, port: e.1, torrent: e.2, pid: e.3, seeder: next(3) == 0 });
                    }
                }
                batches.push(b);
            }
            v.push(ReportsCase { tracker: tr.to_string(), socket_workers: 1 + (rep as usize + ti) % 3, batches, max_peer_age: 20 + next(4) as u32 });
        }
    }
    v
}
