//! C02 — Peer lists are sound, bounded and never contain the requester (DESIGN.md §6 C02)

use std::collections::{BTreeMap, BTreeSet};
use std::convert::Infallible;
use std::net::{IpAddr, SocketAddr};
use std::num::NonZeroU16;

use aquatic_common::{CanonicalSocketAddr, SecondsSinceServerStart, ServerStartInstant, ValidUntil};
use proptest::prelude::*;
use rand::rand_core::TryRng;
use rand::rngs::SmallRng;
use rand::SeedableRng;
use serde::{Deserialize, Serialize};

use crate::engine::*;
use crate::models::*;

pub const RULE: &str = "shapes (tracker in {udp, http, ws}, swarm size, build pattern incl. swap_remove holes, configured maximum, requested count incl. negative/0/absent/huge, requester position or new peer, family) x outcomes of the random offset choice. HTTP TorrentMaps and WS extract_response_peers take `impl Rng`: a scripted RNG sweeps an even grid of 2*size+2 points per draw, which hits every bucket of every range the code can request, so all offset pairs are enumerated for those shapes (sub-check `grid`, exhaustive for size <= bound); UDP (concrete SmallRng) and WS storage are sampled with generated seeds. Oracle: returned list has no duplicates, is a subset of the reference model's other members of the same torrent and family (other family / other torrent populated with disjoint keys), excludes the requester, |L| <= min(requested-or-max, max), all others returned when they fit, else >= limit-1 (udp/http) or == limit (ws). non-trivial = others > limit (two half-range branch) or requester already stored or limit in {0,1}; distinct = distinct (shape, rng outcome observed)";

#[derive(Debug, Clone, Copy, Serialize, Deserialize, PartialEq, Eq, Hash, PartialOrd, Ord)]
pub enum Driver {
    Udp,
    Http,
    WsExtract,
    WsStorage,
}

#[derive(Debug, Clone, Copy, Serialize, Deserialize, PartialEq, Eq, Hash)]
pub enum Requested {
    Absent,
    NonPositive(i32),
    Val(u64),
}

#[derive(Debug, Clone, Serialize, Deserialize, PartialEq, Eq, Hash)]
pub enum RngSpec {
    /// sweep the full grid of scripted draws (enumerates every offset pair)
    Grid,
    /// SmallRng seeds
    Seeds(Vec<u64>),
    /// explicit scripted words
    Words(Vec<Vec<u32>>),
}

#[derive(Debug, Clone, Serialize, Deserialize, PartialEq, Eq, Hash)]
pub struct Shape {
    pub driver: Driver,
    pub v6: bool,
    pub size: u16,
    pub build: u8,
    pub max: usize,
    pub requested: Requested,
    /// None = new peer; Some(i) = i-th stored member (model order)
    pub requester: Option<u16>,
    pub rng: RngSpec,
}

/// RNG whose output words are data
pub struct ScriptedRng {
    pub words: Vec<u32>,
    pub pos: usize,
}

impl TryRng for ScriptedRng {
    type Error = Infallible;
    fn try_next_u32(&mut self) -> Result<u32, Infallible> {
        let w = if self.words.is_empty() {
            0
        } else {
            self.words[self.pos.min(self.words.len() - 1)]
        };
        self.pos += 1;
        Ok(w)
    }
    fn try_next_u64(&mut self) -> Result<u64, Infallible> {
        let lo = self.try_next_u32()? as u64;
        let hi = self.try_next_u32()? as u64;
        Ok((hi << 32) | lo)
    }
    fn try_fill_bytes(&mut self, dst: &mut [u8]) -> Result<(), Infallible> {
        for chunk in dst.chunks_mut(4) {
            let w = self.try_next_u32()?.to_le_bytes();
            chunk.copy_from_slice(&w[..chunk.len()]);
        }
        Ok(())
    }
}

fn grid_points(size: usize) -> Vec<u32> {
    let g = (2 * size + 2) as u64;
    (0..g)
        .map(|i| ((i << 32) / g + (1u64 << 32) / (2 * g)) as u32)
        .collect()
}

fn key_of(i: usize, v6: bool) -> PKey {
    let ip = if v6 {
        v6_addr(i)
    } else {
        IpAddr::V4(std::net::Ipv4Addr::new(10, 1, (i / 200) as u8, (i % 200) as u8 + 1))
    };
    PKey {
        ip,
        port: 2000 + (i % 5000) as u16,
    }
}

fn v6_addr(i: usize) -> IpAddr {
    IpAddr::V6(std::net::Ipv6Addr::new(0x2001, 0xdb8, 0, 0, 0, 1, (i / 65536) as u16, (i % 65536) as u16))
}

/// build script: list of (key index, stopped?) applied in order
fn build_script(size: usize, pattern: u8) -> Vec<(usize, bool)> {
    match pattern % 4 {
        0 => (0..size).map(|i| (i, false)).collect(),
        1 => {
            // three extra members are inserted and later stopped: swap_remove moves the last
            // element into each hole, so positions differ from insertion order
            let mut v: Vec<(usize, bool)> = (0..size + 3).map(|i| (i, false)).collect();
            let extra = [0usize, size / 2 + 1, size + 2];
            let mut dropped = BTreeSet::new();
            for e in extra {
                let e = e.min(size + 2);
                if dropped.insert(e) {
                    v.push((e, true));
                }
            }
            // make the final size exactly `size`: re-insert if fewer than 3 distinct were dropped
            let mut missing = 3 - dropped.len();
            let mut next = size + 3;
            while missing > 0 {
                v.push((next, false));
                next += 1;
                missing -= 1;
            }
            v
        }
        2 => (0..size).rev().map(|i| (i, false)).collect(),
        _ => {
            // re-announce every other member (status flip, keeps position)
            let mut v: Vec<(usize, bool)> = (0..size).map(|i| (i, false)).collect();
            v.extend((0..size).step_by(2).map(|i| (i, false)));
            v
        }
    }
}

struct Observed {
    list: Vec<PKey>,
    others: BTreeSet<PKey>,
    requester: PKey,
    limit: usize,
    exact: bool,
}

fn limit_of(shape: &Shape) -> usize {
    match shape.requested {
        Requested::Absent | Requested::NonPositive(_) => {
            if matches!(shape.driver, Driver::WsExtract | Driver::WsStorage) {
                0
            } else {
                shape.max
            }
        }
        Requested::Val(0) => {
            if matches!(shape.driver, Driver::WsExtract | Driver::WsStorage) {
                0
            } else {
                shape.max
            }
        }
        Requested::Val(v) => (v.min(usize::MAX as u64) as usize).min(shape.max),
    }
}

// ---- UDP ---------------------------------------------------------------------------------

fn run_udp(shape: &Shape, seed: u64) -> Result<Observed, Violation> {
    use aquatic_udp::config::Config;
    use aquatic_udp::swarm::TorrentMaps;
    use aquatic_udp_protocol::*;
    let mut config = Config::default();
    config.protocol.max_response_peers = shape.max;
    let maps = TorrentMaps::default();
    let (tx, _rx) = crossbeam_channel::unbounded();
    let mut rng = SmallRng::seed_from_u64(seed);
    let mut model = SwarmModel::default();
    let hash = hash_for(1, 7);
    let other_hash = hash_for(2, 7);
    let mk = |h: Hash20, key: PKey, stopped: bool, numwant: i32, left: i64| {
        (
            AnnounceRequest {
                connection_id: ConnectionId::new(0),
                action_placeholder: Default::default(),
                transaction_id: TransactionId::new(1),
                info_hash: InfoHash(h),
                peer_id: PeerId([1; 20]),
                bytes_downloaded: NumberOfBytes::new(0),
                bytes_left: NumberOfBytes::new(left),
                bytes_uploaded: NumberOfBytes::new(0),
                event: if stopped { AnnounceEvent::Stopped } else { AnnounceEvent::Started },
                ip_address: Ipv4AddrBytes([0; 4]),
                key: aquatic_udp_protocol::PeerKey::new(0),
                peers_wanted: NumberOfPeers::new(numwant),
                port: Port::new(NonZeroU16::new(key.port).unwrap()),
            },
            CanonicalSocketAddr::new(SocketAddr::new(key.ip, 999)),
        )
    };
    let vu = ValidUntil::new_raw(SecondsSinceServerStart::new_raw(100));
    // decoys: same keys in the other family and other torrent
    for i in 0..(shape.size as usize + 5) {
        let (r, a) = mk(hash, key_of(50_000 + i, !shape.v6), false, 0, 1);
        maps.announce(&config, &tx, &mut rng, &r, a, vu);
        let (r, a) = mk(other_hash, key_of(60_000 + i, shape.v6), false, 0, 1);
        maps.announce(&config, &tx, &mut rng, &r, a, vu);
    }
    for (i, stopped) in build_script(shape.size as usize, shape.build) {
        let k = key_of(i, shape.v6);
        let (r, a) = mk(hash, k, stopped, 0, (i % 2) as i64);
        maps.announce(&config, &tx, &mut rng, &r, a, vu);
        model.announce(hash, k.ip, k.port, stopped, i % 2 == 0, 100, [1; 20]);
    }
    let stored: Vec<PKey> = model.keys(!shape.v6, &hash).into_iter().collect();
    let requester = match shape.requester {
        Some(i) if !stored.is_empty() => stored[i as usize % stored.len()],
        _ => key_of(10_000, shape.v6),
    };
    let numwant = match shape.requested {
        Requested::Absent => 0,
        Requested::NonPositive(v) => v.min(0),
        Requested::Val(v) => v.min(i32::MAX as u64) as i32,
    };
    let exp = model.announce(hash, requester.ip, requester.port, false, false, 100, [1; 20]);
    let (r, a) = mk(hash, requester, false, numwant, 1);
    let resp = maps.announce(&config, &tx, &mut rng, &r, a, vu);
    let list: Vec<PKey> = match resp {
        Response::AnnounceIpv4(r) if !shape.v6 => r
            .peers
            .iter()
            .map(|p| PKey { ip: IpAddr::V4(p.ip_address.into()), port: p.port.0.get() })
            .collect(),
        Response::AnnounceIpv6(r) if shape.v6 => r
            .peers
            .iter()
            .map(|p| PKey { ip: IpAddr::V6(p.ip_address.into()), port: p.port.0.get() })
            .collect(),
        other => return Err(Violation::new("announce-wrong-variant", format!("{:?}", other))),
    };
    Ok(Observed { list, others: exp.others, requester, limit: limit_of(shape), exact: false })
}

// ---- HTTP --------------------------------------------------------------------------------

fn run_http(shape: &Shape, rng: &mut impl rand::Rng) -> Result<Observed, Violation> {
    use aquatic_http::config::Config;
    use aquatic_http::verif_api::TorrentMaps;
    use aquatic_http_protocol::common::{AnnounceEvent, InfoHash, PeerId};
    use aquatic_http_protocol::request::AnnounceRequest;
    let mut config = Config::default();
    config.protocol.max_peers = shape.max;
    let mut maps = TorrentMaps::new(0);
    let mut model = SwarmModel::default();
    let hash = hash_for(1, 7);
    let other_hash = hash_for(2, 7);
    let mk = |h: Hash20, key: PKey, stopped: bool, numwant: Option<usize>, left: usize| {
        (
            AnnounceRequest {
                info_hash: InfoHash(h),
                peer_id: PeerId([1; 20]),
                port: key.port,
                bytes_uploaded: 0,
                bytes_downloaded: 0,
                bytes_left: left,
                event: if stopped { AnnounceEvent::Stopped } else { AnnounceEvent::Started },
                numwant,
                key: None,
            },
            CanonicalSocketAddr::new(SocketAddr::new(key.ip, 999)),
        )
    };
    let vu = ValidUntil::new_raw(SecondsSinceServerStart::new_raw(100));
    let mut setup_rng = SmallRng::seed_from_u64(1);
    for i in 0..(shape.size as usize + 5) {
        let (r, a) = mk(hash, key_of(50_000 + i, !shape.v6), false, Some(1), 1);
        maps.handle_announce_request(&config, &mut setup_rng, vu, a, r);
        let (r, a) = mk(other_hash, key_of(60_000 + i, shape.v6), false, Some(1), 1);
        maps.handle_announce_request(&config, &mut setup_rng, vu, a, r);
    }
    for (i, stopped) in build_script(shape.size as usize, shape.build) {
        let k = key_of(i, shape.v6);
        let (r, a) = mk(hash, k, stopped, Some(1), i % 2);
        maps.handle_announce_request(&config, &mut setup_rng, vu, a, r);
        model.announce(hash, k.ip, k.port, stopped, i % 2 == 0, 100, [1; 20]);
    }
    let stored: Vec<PKey> = model.keys(!shape.v6, &hash).into_iter().collect();
    let requester = match shape.requester {
        Some(i) if !stored.is_empty() => stored[i as usize % stored.len()],
        _ => key_of(10_000, shape.v6),
    };
    let numwant = match shape.requested {
        Requested::Absent => None,
        Requested::NonPositive(_) => Some(0),
        Requested::Val(v) => Some(v.min(usize::MAX as u64) as usize),
    };
    let exp = model.announce(hash, requester.ip, requester.port, false, false, 100, [1; 20]);
    let (r, a) = mk(hash, requester, false, numwant, 1);
    let resp = maps.handle_announce_request(&config, rng, vu, a, r);
    let (own, foreign): (Vec<PKey>, usize) = if shape.v6 {
        (
            resp.peers6.0.iter().map(|p| PKey { ip: IpAddr::V6(p.ip_address), port: p.port }).collect(),
            resp.peers.0.len(),
        )
    } else {
        (
            resp.peers.0.iter().map(|p| PKey { ip: IpAddr::V4(p.ip_address), port: p.port }).collect(),
            resp.peers6.0.len(),
        )
    };
    if foreign != 0 {
        return Err(Violation::new(
            "peer-list-wrong-family",
            format!("{foreign} peers of the other address family in the reply"),
        ));
    }
    Ok(Observed { list: own, others: exp.others, requester, limit: limit_of(shape), exact: false })
}

// ---- WS ----------------------------------------------------------------------------------

fn run_ws_extract(shape: &Shape, rng: &mut impl rand::Rng) -> Result<Observed, Violation> {
    use aquatic_ws::workers::swarm::verif_api::extract_response_peers;
    let mut map: aquatic_common::IndexMap<usize, usize> = Default::default();
    let mut present: BTreeSet<usize> = BTreeSet::new();
    for (i, stopped) in build_script(shape.size as usize, shape.build) {
        if stopped {
            map.swap_remove(&i);
            present.remove(&i);
        } else {
            map.insert(i, i);
            present.insert(i);
        }
    }
    let stored: Vec<usize> = present.iter().copied().collect();
    let sender = match shape.requester {
        Some(i) if !stored.is_empty() => stored[i as usize % stored.len()],
        _ => 1_000_000,
    };
    let limit = limit_of(shape);
    let got: Vec<usize> = extract_response_peers(rng, &map, limit, sender, |k, _| *k);
    let tok = |i: usize| PKey { ip: v6_addr(i), port: 1 };
    let mut others: BTreeSet<PKey> = present.iter().map(|i| tok(*i)).collect();
    others.remove(&tok(sender));
    Ok(Observed {
        list: got.into_iter().map(tok).collect(),
        others,
        requester: tok(sender),
        limit,
        exact: true,
    })
}

fn run_ws_storage(shape: &Shape, seed: u64) -> Result<Observed, Violation> {
    use aquatic_ws::common::*;
    use aquatic_ws::config::Config;
    use aquatic_ws::workers::swarm::verif_api::TorrentMaps;
    use aquatic_ws_protocol::common::*;
    use aquatic_ws_protocol::incoming::*;
    use aquatic_ws_protocol::outgoing::OutMessage;
    aquatic_common::verif::set_mock_seconds(Some(10));
    let mut config = Config::default();
    config.protocol.max_offers = shape.max;
    let mut maps = TorrentMaps::new(0);
    let mut rng = SmallRng::seed_from_u64(seed);
    let start = ServerStartInstant::new();
    let mut slots: slotmap::DenseSlotMap<ConnectionId, ()> = slotmap::DenseSlotMap::with_key();
    let ipv = if shape.v6 { IpVersion::V6 } else { IpVersion::V4 };
    let other_ipv = if shape.v6 { IpVersion::V4 } else { IpVersion::V6 };
    let hash = hash_for(1, 7);
    let pid = |i: usize| {
        let mut p = [0u8; 20];
        p[..8].copy_from_slice(&(i as u64).to_be_bytes());
        p
    };
    let mut conn_of: BTreeMap<usize, ConnectionId> = BTreeMap::new();
    let mut peer_of_conn: BTreeMap<(u8, u64), usize> = BTreeMap::new();
    let mut out = Vec::new();
    let mut present = BTreeSet::new();
    let conn_key = |c: ConnectionId| slotmap::Key::data(&c).as_ffi();
    let announce = |maps: &mut TorrentMaps,
                        rng: &mut SmallRng,
                        out: &mut Vec<(OutMessageMeta, OutMessage)>,
                        c: ConnectionId,
                        ipv: IpVersion,
                        h: Hash20,
                        i: usize,
                        stopped: bool,
                        offers: usize| {
        let req = AnnounceRequest {
            action: AnnounceAction::Announce,
            info_hash: InfoHash(h),
            peer_id: PeerId(pid(i)),
            bytes_left: Some(i % 2),
            event: Some(if stopped { AnnounceEvent::Stopped } else { AnnounceEvent::Started }),
            offers: if offers > 0 || !stopped {
                Some(
                    (0..offers)
                        .map(|o| AnnounceRequestOffer {
                            offer: RtcOffer { t: RtcOfferType::Offer, sdp: format!("sdp{o}") },
                            offer_id: OfferId(pid(o)),
                        })
                        .collect(),
                )
            } else {
                None
            },
            numwant: Some(offers),
            answer: None,
            answer_to_peer_id: None,
            answer_offer_id: None,
        };
        let meta = InMessageMeta {
            out_message_consumer_id: ConsumerId(0),
            connection_id: c,
            ip_version: ipv,
            pending_scrape_id: None,
        };
        maps.handle_announce_request(&config, rng, out, start, meta, req);
    };
    // decoys in the other family and another torrent
    for i in 0..(shape.size as usize + 3) {
        let c = slots.insert(());
        announce(&mut maps, &mut rng, &mut out, c, other_ipv, hash, 70_000 + i, false, 0);
        let c = slots.insert(());
        announce(&mut maps, &mut rng, &mut out, c, ipv, hash_for(2, 7), 80_000 + i, false, 0);
    }
    for (i, stopped) in build_script(shape.size as usize, shape.build) {
        let c = *conn_of.entry(i).or_insert_with(|| slots.insert(()));
        peer_of_conn.insert((0, conn_key(c)), i);
        announce(&mut maps, &mut rng, &mut out, c, ipv, hash, i, stopped, 0);
        if stopped {
            present.remove(&i);
        } else {
            present.insert(i);
        }
    }
    let stored: Vec<usize> = present.iter().copied().collect();
    let sender = match shape.requester {
        Some(i) if !stored.is_empty() => stored[i as usize % stored.len()],
        _ => 1_000_000,
    };
    let offers = match shape.requested {
        Requested::Val(v) => v.min(40) as usize,
        _ => 0,
    };
    let c = *conn_of.entry(sender).or_insert_with(|| slots.insert(()));
    peer_of_conn.insert((0, conn_key(c)), sender);
    out.clear();
    announce(&mut maps, &mut rng, &mut out, c, ipv, hash, sender, false, offers);
    aquatic_common::verif::set_mock_seconds(None);
    let tok = |i: usize| PKey { ip: v6_addr(i), port: 1 };
    let mut list = Vec::new();
    for (meta, m) in out.iter() {
        if let OutMessage::OfferOutMessage(_) = m {
            let key = (meta.out_message_consumer_id.0, conn_key(meta.connection_id));
            match peer_of_conn.get(&key) {
                Some(i) => list.push(tok(*i)),
                None => {
                    return Err(Violation::new(
                        "offer-to-unknown-connection",
                        format!("offer addressed to a connection that holds no member of this torrent: {:?}", meta),
                    ))
                }
            }
        }
    }
    let mut others: BTreeSet<PKey> = present.iter().map(|i| tok(*i)).collect();
    others.remove(&tok(sender));
    Ok(Observed {
        list,
        others,
        requester: tok(sender),
        limit: offers.min(shape.max),
        exact: true,
    })
}

fn judge(shape: &Shape, obs: Observed, out: &mut Outcome, outcomes: &mut BTreeSet<Vec<PKey>>) -> Result<(), Violation> {
    out.checks += 1;
    if let Err((kind, msg)) = check_peer_list(&obs.list, &obs.others, Some(&obs.requester), obs.limit, obs.exact) {
        return Err(Violation::new(&kind, format!("{msg}; shape {:?}", shape)));
    }
    if obs.others.len() > obs.limit {
        out.label("others>limit");
        out.nontrivial = true;
    }
    if obs.limit <= 1 {
        out.label("limit<=1");
        out.nontrivial = true;
    }
    outcomes.insert(obs.list);
    Ok(())
}

pub fn prop(shape: &Shape) -> CaseResult {
    let mut out = Outcome::default();
    let mut outcomes: BTreeSet<Vec<PKey>> = BTreeSet::new();
    if shape.requester.is_some() && shape.size > 0 {
        out.label("requester-stored");
        out.nontrivial = true;
    }
    let run_scripted = |words: Vec<u32>| -> Result<Observed, Violation> {
        let mut rng = ScriptedRng { words, pos: 0 };
        match shape.driver {
            Driver::Http => run_http(shape, &mut rng),
            Driver::WsExtract => run_ws_extract(shape, &mut rng),
            _ => unreachable!(),
        }
    };
    let r = catch_panic(|| -> Result<(), Violation> {
        match (&shape.rng, shape.driver) {
            (RngSpec::Grid, Driver::Http | Driver::WsExtract) => {
                let limit = limit_of(shape);
                let members = shape.size as usize;
                // the RNG is only consulted when the map holds more than the limit
                let needs_rng = match shape.driver {
                    Driver::Http => members > limit,
                    _ => members > limit + 1,
                };
                if !needs_rng {
                    judge(shape, run_scripted(vec![0])?, &mut out, &mut outcomes)?;
                } else {
                    let pts = grid_points(members + 1);
                    for a in &pts {
                        for b in &pts {
                            judge(shape, run_scripted(vec![*a, *b])?, &mut out, &mut outcomes)?;
                        }
                    }
                    out.label("grid-swept");
                }
            }
            (RngSpec::Words(ws), Driver::Http | Driver::WsExtract) => {
                for w in ws {
                    judge(shape, run_scripted(w.clone())?, &mut out, &mut outcomes)?;
                }
            }
            (RngSpec::Seeds(seeds), Driver::Udp) => {
                for s in seeds {
                    judge(shape, run_udp(shape, *s)?, &mut out, &mut outcomes)?;
                }
            }
            (RngSpec::Seeds(seeds), Driver::WsStorage) => {
                for s in seeds {
                    judge(shape, run_ws_storage(shape, *s)?, &mut out, &mut outcomes)?;
                }
            }
            (RngSpec::Seeds(seeds), Driver::Http) => {
                for s in seeds {
                    let mut rng = SmallRng::seed_from_u64(*s);
                    judge(shape, run_http(shape, &mut rng)?, &mut out, &mut outcomes)?;
                }
            }
            (RngSpec::Seeds(seeds), Driver::WsExtract) => {
                for s in seeds {
                    let mut rng = SmallRng::seed_from_u64(*s);
                    judge(shape, run_ws_extract(shape, &mut rng)?, &mut out, &mut outcomes)?;
                }
            }
            _ => {}
        }
        Ok(())
    });
    match r {
        Ok(Ok(())) => {}
        Ok(Err(v)) => return Err(v),
        Err(p) => {
            return Err(Violation::new(
                "panic",
                format!("peer selection panicked: {p}; shape {:?}", shape),
            ))
        }
    }
    if outcomes.len() > 1 {
        out.label("several-rng-outcomes");
    }
    out.label(match shape.driver {
        Driver::Udp => "udp",
        Driver::Http => "http",
        Driver::WsExtract => "ws-extract",
        Driver::WsStorage => "ws-storage",
    });
    Ok(out)
}

fn requested_values(size: usize) -> Vec<Requested> {
    let mut v = vec![
        Requested::Absent,
        Requested::NonPositive(i32::MIN),
        Requested::NonPositive(-1),
        Requested::Val(0),
        Requested::Val(1),
        Requested::Val(2),
        Requested::Val(3),
        Requested::Val(4),
        Requested::Val(7),
        Requested::Val(size.saturating_sub(1) as u64),
        Requested::Val(size as u64),
        Requested::Val(size as u64 + 1),
        Requested::Val(i32::MAX as u64),
        Requested::Val(u64::MAX),
    ];
    v.dedup();
    let mut seen = std::collections::HashSet::new();
    v.retain(|x| seen.insert(*x));
    v
}

fn grid_shapes(max_size: usize) -> Vec<Shape> {
    let mut v = Vec::new();
    for driver in [Driver::Http, Driver::WsExtract] {
        for size in 0..=max_size {
            for max in [0usize, 1, 2, 3, 4, 5, 10, 30, 50] {
                for requested in requested_values(size) {
                    let mut requesters: Vec<Option<u16>> = vec![None];
                    if size > 0 {
                        if driver == Driver::WsExtract {
                            requesters.extend((0..size as u16).map(Some));
                        } else {
                            requesters.extend([Some(0), Some(size as u16 / 2), Some(size as u16 - 1)]);
                        }
                    }
                    requesters.dedup();
                    for requester in requesters {
                        for build in [0u8, 1] {
                            // skip shapes that cannot differ from a smaller `requested`
                            v.push(Shape {
                                driver,
                                v6: (size + max) % 2 == 1,
                                size: size as u16,
                                build,
                                max,
                                requested,
                                requester,
                                rng: RngSpec::Grid,
                            });
                        }
                    }
                }
            }
        }
    }
    v
}

fn random_shape(max_size: u16, seeds: usize) -> impl Strategy<Value = Shape> {
    (
        prop_oneof![Just(Driver::Udp), Just(Driver::Udp), Just(Driver::WsStorage), Just(Driver::Http), Just(Driver::WsExtract)],
        any::<bool>(),
        prop_oneof![0u16..8, 0u16..=max_size],
        0u8..4,
        prop_oneof![Just(0usize), Just(1usize), Just(2usize), Just(3usize), Just(4usize), Just(5usize), Just(10usize), Just(30usize), Just(50usize), Just(200usize)],
    )
        .prop_flat_map(move |(driver, v6, size, build, max)| {
            let s = size as u64;
            (
                Just((driver, v6, size, build, max)),
                prop_oneof![
                    Just(Requested::Absent),
                    Just(Requested::NonPositive(i32::MIN)),
                    Just(Requested::NonPositive(-1)),
                    (0u64..8).prop_map(Requested::Val),
                    Just(Requested::Val(s.saturating_sub(1))),
                    Just(Requested::Val(s)),
                    Just(Requested::Val(s + 1)),
                    Just(Requested::Val(max as u64 + 1)),
                    Just(Requested::Val(i32::MAX as u64)),
                    Just(Requested::Val(u64::MAX)),
                    any::<u64>().prop_map(Requested::Val),
                ],
                prop_oneof![Just(None), (0u16..=max_size).prop_map(Some)],
                proptest::collection::vec(any::<u64>(), seeds),
            )
        })
        .prop_map(|((driver, v6, size, build, max), requested, requester, seeds)| Shape {
            driver,
            v6,
            size,
            build,
            max,
            requested,
            requester,
            rng: RngSpec::Seeds(seeds),
        })
}

pub fn run(ctx: &mut Ctx) {
    ctx.assume("HTTP and WS storage are reached through feature-gated re-exports of the real modules; the scripted RNG implements rand_core::TryRng and is consumed by the same `impl Rng` parameter production code passes a SmallRng to");
    ctx.assume("UDP's RNG is a concrete SmallRng: sampled by seed, not enumerated (the identical algorithm is enumerated through the HTTP copy)");
    ctx.run_regress::<Shape, _>("grid", prop);
    ctx.run_regress::<Shape, _>("random", prop);
    let bound = ctx.tier.pick(20, 40);
    ctx.run_enum("grid", grid_shapes(bound), true, prop);
    let (max_size, seeds, n) = (ctx.tier.pick(120, 300), ctx.tier.pick(8, 32), ctx.tier.pick(40_000, 600_000));
    ctx.run_prop("random", n, move || random_shape(max_size, seeds), prop);
    for l in ["udp", "http", "ws-storage", "ws-extract", "others>limit", "requester-stored", "limit<=1"] {
        ctx.require_label("random", l, 0.05);
    }
    ctx.require_label("grid", "grid-swept", 0.05);
}

pub fn replay(path: &str, _sub: &str, case: serde_json::Value) -> i32 {
    replay_one::<Shape, _>("C02", path, case, prop)
}
