//! C20 — UDP operator reports are faithful; scrape export is replaced atomically (DESIGN.md §6 C20)

use std::collections::BTreeSet;
use std::path::PathBuf;
use std::process::Command;
use std::sync::atomic::{AtomicU64, Ordering};
use std::sync::{Arc, Mutex};

use aquatic_common::verif::{set_probe_handler, ProbeAction};
use proptest::prelude::*;
use serde::{Deserialize, Serialize};

use crate::engine::*;
use crate::models::*;
use crate::udpdrv::*;
use crate::vensure;

pub const RULE: &str = "(histories) C01's generator with statistics, peer-client tallies, histograms and scrape exports on, 6 peer ids of distinct clients, re-announces of a stored address under a new peer id, stops and expiries; after every clean: the four swarm totals == model, the fold of the PeerAdded/PeerRemoved stream (the statistics worker's rule) == number of stored entries per peer id, each export file == exactly the model's `{4|6} <hex> <seeders> <leechers>` lines. (crash points, fault enumeration) a child process exports state A, mutates to state B and exports again; a probe handler aborts the process at each individual step the export emits (created, every line, before_flush, flushed, renamed) and — second variant — pauses there while a reader reads the path; the file at the configured path must be byte-complete F_A or F_B; after an abort the tracker is started again with a smaller state C and exports to the same path, which must then hold exactly F_C (left-overs of the interrupted export must not show). Paths with extension .txt, none, two dots and .tmp. non-trivial (histories) = a stored key changed peer id or a peer expired with tallies on; (crash points) = step strictly between created and renamed; distinct = distinct serialised case / (scenario, path kind, step). (reports-e2e) running aquatic_udp (mio / io_uring, both address families, 1-3 socket workers, cleaning, statistics interval and export every second, peer_clients and histograms on): generated batches of announces from 5 source addresses (4 IPv4, ::1) x 4 ports x 6 torrents with 18 peer ids of 6 client prefixes, re-announces of a stored address under another id, stops; after each batch and after everything has expired the statistics page written by the statistics worker (torrent / peer totals per family, peer-client table) and the export file are polled until they equal the model, a report still different 12 s later is the violation. (constant-swarm-under-load) 2-6 free-running threads re-announce and scrape a fixed set of peers (1-4 torrents, some sharing a shard, 1/2/3/5/12 peers each, one or both families) while thousands of cleaning passes run with statistics and, in a third of the cases, the export on: the stored state never changes, so after every pass totals and export must equal it exactly, every concurrent reply must show the fixed counts and no PeerRemoved may appear";

pub fn prop_hist(case: &UdpCase) -> CaseResult {
    let mut o = run_udp_case(
        case,
        Oracles {
            stats_totals: true,
            client_tallies: true,
            exports: true,
            access_list: false,
        },
    )?;
    o.nontrivial = o
        .labels
        .iter()
        .any(|l| matches!(l.as_str(), "peer-id-change" | "clean-expired-some"));
    Ok(o)
}

fn params(tier: Tier) -> GenParams {
    GenParams {
        stop_w: 3,
        clean_w: 4,
        torrents: 4,
        max_ops: tier.pick(50, 160),
        ips: 3,
        ports: 3,
        pids: 6,
        exports: true,
        access_list: false,
        max_ttl: 4,
    }
}

// ---- crash points ------------------------------------------------------------------------

#[derive(Debug, Clone, Serialize, Deserialize)]
pub struct Scenario {
    /// (torrent, fam, key index, seeder) announced before the first export
    pub a: Vec<(u8, u8, u8, bool)>,
    /// announced (or stopped: .4) between the exports
    pub b: Vec<(u8, u8, u8, bool, bool)>,
    /// 0 ".txt", 1 none, 2 two dots, 3 ".tmp"
    pub path_kind: u8,
}

#[derive(Debug, Clone, Serialize, Deserialize)]
pub struct CrashCase {
    pub scenario: Scenario,
    /// None: run to completion and list steps; Some(i): fault at the i-th step of the 2nd export
    pub step: Option<usize>,
    /// abort the process (true) or pause and let a reader look (false)
    pub abort: bool,
}

fn scenario_ops(s: &Scenario) -> (Vec<UdpOp>, Vec<UdpOp>) {
    let mk = |(t, fam, k, seeder): (u8, u8, u8, bool), stop: bool| UdpOp::Announce {
        t: t % NUM_TORRENTS,
        fam: fam % 2,
        ip: k % 4,
        port: k / 4,
        pid: k % 3,
        event: if stop { 3 } else { 2 },
        left: if seeder { 0 } else { 1 },
        numwant: 0,
        ttl: 1000,
        req_ip: [0; 4],
        tid: 1,
    };
    (
        s.a.iter().map(|x| mk(*x, false)).collect(),
        s.b.iter().map(|x| mk((x.0, x.1, x.2, x.3), x.4)).collect(),
    )
}

fn export_lines(model: &SwarmModel) -> BTreeSet<String> {
    model
        .torrents
        .iter()
        .map(|((f, hsh), m)| {
            let s = m.values().filter(|e| e.seeder).count();
            format!("{} {} {} {}", if *f { 4 } else { 6 }, hex(hsh), s, m.len() - s)
        })
        .collect()
}

fn apply_to_model(model: &mut SwarmModel, ops: &[UdpOp]) {
    for op in ops {
        if let UdpOp::Announce { t, fam, ip, port, pid, event, left, .. } = op {
            model.announce(torrent_hash(*t), src_ip(*fam, *ip), port_of(*port), *event == 3, *left == 0, 1000, peer_id_for(*pid));
        }
    }
}

fn path_for(dir: &std::path::Path, kind: u8) -> PathBuf {
    dir.join(match kind % 4 {
        0 => "export.txt",
        1 => "export",
        2 => "export.v1.txt",
        _ => "export.tmp",
    })
}

fn file_state(path: &std::path::Path) -> Result<BTreeSet<String>, String> {
    let bytes = std::fs::read(path).map_err(|e| format!("cannot read {}: {e}", path.display()))?;
    let text = String::from_utf8(bytes).map_err(|_| "not utf-8".to_string())?;
    if !text.is_empty() && !text.ends_with('\n') {
        return Err(format!("file does not end with a newline (partial line): {:?}", &text[text.len().saturating_sub(60)..]));
    }
    let lines: Vec<String> = text.lines().map(|s| s.to_string()).collect();
    let set: BTreeSet<String> = lines.iter().cloned().collect();
    if set.len() != lines.len() {
        return Err("duplicate lines".into());
    }
    Ok(set)
}

/// Runs inside the child process (and in-process for the reader variant)
fn apply_ops(h: &mut UdpHarness, ops: &[UdpOp]) {
        for op in ops {
            if let UdpOp::Announce { t, fam, ip, port, pid, event, left, .. } = op {
                use aquatic_udp_protocol::*;
                let req = AnnounceRequest {
                    connection_id: ConnectionId::new(0),
                    action_placeholder: Default::default(),
                    transaction_id: TransactionId::new(0),
                    info_hash: InfoHash(torrent_hash(*t)),
                    peer_id: PeerId(peer_id_for(*pid)),
                    bytes_downloaded: NumberOfBytes::new(0),
                    bytes_left: NumberOfBytes::new(*left),
                    bytes_uploaded: NumberOfBytes::new(0),
                    event: event_of(*event),
                    ip_address: Ipv4AddrBytes([0; 4]),
                    key: aquatic_udp_protocol::PeerKey::new(0),
                    peers_wanted: NumberOfPeers::new(0),
                    port: Port::new(std::num::NonZeroU16::new(port_of(*port)).unwrap()),
                };
                h.maps.announce(
                    &h.config,
                    &h.sender,
                    &mut h.rng,
                    &req,
                    aquatic_common::CanonicalSocketAddr::new(std::net::SocketAddr::new(src_ip(*fam, *ip), 1)),
                    aquatic_common::ValidUntil::new_raw(aquatic_common::SecondsSinceServerStart::new_raw(1000)),
                );
            }
        }
    }

fn clean_export(h: &UdpHarness) {
        h.maps.clean_and_update_statistics(
            &h.config,
            &h.statistics,
            &h.sender,
            &h.access_list,
            aquatic_common::SecondsSinceServerStart::new_raw(1),
            true,
        )
    }

/// The tracker is started again after the crash with a small state C (the first announce of the
/// scenario, or nothing) and exports to the same path: whatever the interrupted export left
/// behind (a temporary file with content, a partial file), this export must be exactly C.
fn recovery_export(case: &CrashCase, dir: &std::path::Path) -> BTreeSet<String> {
    let path = path_for(dir, case.scenario.path_kind);
    let ucase = UdpCase { max_response_peers: 30, rng_seed: 1, peer_clients: false, histograms: false, access_mode: 0, ops: vec![] };
    let mut h = UdpHarness::new(&ucase, Some(path));
    let (a, _) = scenario_ops(&case.scenario);
    let c: Vec<UdpOp> = a.into_iter().take(1).collect();
    apply_ops(&mut h, &c);
    clean_export(&h);
    let mut model = SwarmModel::default();
    apply_to_model(&mut model, &c);
    export_lines(&model)
}

fn run_scenario(case: &CrashCase, dir: &std::path::Path, on_step: Arc<dyn Fn(usize, &'static str, u64) + Send + Sync>) -> Result<(), String> {
    let path = path_for(dir, case.scenario.path_kind);
    let ucase = UdpCase { max_response_peers: 30, rng_seed: 1, peer_clients: false, histograms: false, access_mode: 0, ops: vec![] };
    let mut h = UdpHarness::new(&ucase, Some(path.clone()));
    let (a, b) = scenario_ops(&case.scenario);
    let run_ops = apply_ops;
    let clean = clean_export;
    run_ops(&mut h, &a);
    clean(&h);
    run_ops(&mut h, &b);
    let counter = Arc::new(AtomicU64::new(0));
    {
        let counter = counter.clone();
        let on_step = on_step.clone();
        set_probe_handler(Some(Arc::new(move |name, ctx| {
            if name.starts_with("udp:export:") {
                let i = counter.fetch_add(1, Ordering::SeqCst) as usize;
                on_step(i, name, ctx);
            }
            ProbeAction::Continue
        })));
    }
    clean(&h);
    set_probe_handler(None);
    Ok(())
}

pub fn child_main(args: &[String]) -> i32 {
    // args: <case json> <dir>
    let case: CrashCase = match args.first().and_then(|s| serde_json::from_str(s).ok()) {
        Some(c) => c,
        None => return 2,
    };
    let dir = PathBuf::from(args.get(1).cloned().unwrap_or_default());
    let target = case.step;
    let on_step: Arc<dyn Fn(usize, &'static str, u64) + Send + Sync> = Arc::new(move |i, name, ctx| {
        println!("STEP {i} {name} {ctx}");
        if Some(i) == target {
            use std::io::Write;
            let _ = std::io::stdout().flush();
            std::process::abort();
        }
    });
    match run_scenario(&case, &dir, on_step) {
        Ok(()) => 0,
        Err(_) => 2,
    }
}

fn expected_states(s: &Scenario) -> (BTreeSet<String>, BTreeSet<String>) {
    let (a, b) = scenario_ops(s);
    let mut model = SwarmModel::default();
    apply_to_model(&mut model, &a);
    let fa = export_lines(&model);
    apply_to_model(&mut model, &b);
    let fb = export_lines(&model);
    (fa, fb)
}

pub fn prop_crash(case: &CrashCase) -> CaseResult {
    let mut out = Outcome::default();
    let dir = tempfile::Builder::new().prefix("vcheck-c20-").tempdir_in("/dev/shm").or_else(|_| tempfile::tempdir()).map_err(|e| Violation::new("harness-io", e.to_string()))?;
    let path = path_for(dir.path(), case.scenario.path_kind);
    let (fa, fb) = expected_states(&case.scenario);
    let judge = |what: &str, out: &mut Outcome| -> Result<(), Violation> {
        out.checks += 1;
        match file_state(&path) {
            Ok(set) => {
                vensure!(
                    set == fa || set == fb,
                    "export-neither-old-nor-new",
                    "{what}: file at the configured path holds {:?}, which is neither the previous complete export {:?} nor the new one {:?}",
                    set,
                    fa,
                    fb
                );
                if set == fa && fa != fb {
                    out.label("reader-saw-old");
                } else {
                    out.label("reader-saw-new");
                }
                Ok(())
            }
            Err(e) => Err(Violation::new("export-partial-or-missing", format!("{what}: {e}"))),
        }
    };
    if case.abort {
        let exe = std::env::current_exe().map_err(|e| Violation::new("harness-io", e.to_string()))?;
        let o = Command::new(exe)
            .arg("--c20-child")
            .arg(serde_json::to_string(case).unwrap())
            .arg(dir.path())
            .output()
            .map_err(|e| Violation::new("harness-io", e.to_string()))?;
        let stdout = String::from_utf8_lossy(&o.stdout).to_string();
        let steps: Vec<&str> = stdout.lines().filter(|l| l.starts_with("STEP ")).collect();
        match case.step {
            None => {
                vensure!(o.status.success(), "harness-io", "child without fault failed: {:?}", o.status);
            }
            Some(i) => {
                // the child must have died at the step (if the export has that many steps)
                if steps.len() > i {
                    vensure!(!o.status.success(), "harness-io", "child was told to abort at step {i} but exited normally");
                    let name = steps[i].split_whitespace().nth(2).unwrap_or("");
                    out.label(match name {
                        "udp:export:created" => "crash-at-created",
                        "udp:export:line" => "crash-at-line",
                        "udp:export:before_flush" => "crash-at-before-flush",
                        "udp:export:flushed" => "crash-at-flushed",
                        "udp:export:renamed" => "crash-at-renamed",
                        _ => "crash-at-other",
                    });
                    if name != "udp:export:renamed" {
                        out.nontrivial = true;
                    }
                } else {
                    out.label("step-beyond-export");
                }
            }
        }
        judge(&format!("after crash at step {:?} (steps seen: {})", case.step, steps.len()), &mut out)?;
        // restart after the crash
        {
            static LOCK: Mutex<()> = Mutex::new(());
            let _g = LOCK.lock().unwrap_or_else(|e| e.into_inner());
            let fc = recovery_export(case, dir.path());
            out.checks += 1;
            match file_state(&path) {
                Ok(set) => vensure!(
                    set == fc,
                    "export-after-restart-differs",
                    "after a crash at step {:?} the tracker was started again holding {:?} and exported to the same path: the file holds {:?} (left-overs of the interrupted export?)",
                    case.step,
                    fc,
                    set
                ),
                Err(e) => return Err(Violation::new("export-partial-or-missing", format!("export after restart: {e}"))),
            }
            out.label("export-after-restart");
        }
    } else {
        // reader variant, in-process: pause at the step, read, continue
        let result: Arc<Mutex<Option<Result<(), Violation>>>> = Arc::new(Mutex::new(None));
        let labels: Arc<Mutex<Outcome>> = Arc::new(Mutex::new(Outcome::default()));
        let target = case.step;
        let path2 = path.clone();
        let (fa2, fb2) = (fa.clone(), fb.clone());
        let result2 = result.clone();
        let labels2 = labels.clone();
        let on_step: Arc<dyn Fn(usize, &'static str, u64) + Send + Sync> = Arc::new(move |i, name, _| {
            if Some(i) == target {
                let mut o = labels2.lock().unwrap();
                o.checks += 1;
                let r = match file_state(&path2) {
                    Ok(set) if set == fa2 || set == fb2 => Ok(()),
                    Ok(set) => Err(Violation::new(
                        "export-neither-old-nor-new",
                        format!("reader during step {i} ({name}) saw {:?}, neither old {:?} nor new {:?}", set, fa2, fb2),
                    )),
                    Err(e) => Err(Violation::new("export-partial-or-missing", format!("reader during step {i} ({name}): {e}"))),
                };
                o.label("reader-during-export");
                if name != "udp:export:renamed" {
                    o.nontrivial = true;
                }
                *result2.lock().unwrap() = Some(r);
            }
        });
        // probe handler is process-global: serialise in-process crash cases
        static LOCK: Mutex<()> = Mutex::new(());
        let _g = LOCK.lock().unwrap_or_else(|e| e.into_inner());
        run_scenario(case, dir.path(), on_step).map_err(|e| Violation::new("harness-io", e))?;
        drop(_g);
        if let Some(r) = result.lock().unwrap().take() {
            r?;
        }
        let l = labels.lock().unwrap().clone();
        out.checks += l.checks;
        out.nontrivial |= l.nontrivial;
        for x in l.labels {
            out.label(&x);
        }
        judge("after the export completed", &mut out)?;
    }
    out.label(match case.scenario.path_kind % 4 {
        0 => "path-.txt",
        1 => "path-no-extension",
        2 => "path-two-dots",
        _ => "path-.tmp",
    });
    Ok(out)
}

fn scenario() -> impl Strategy<Value = Scenario> {
    (
        proptest::collection::vec((0u8..NUM_TORRENTS, 0u8..2, 0u8..12, any::<bool>()), 1..8),
        proptest::collection::vec((0u8..NUM_TORRENTS, 0u8..2, 0u8..12, any::<bool>(), prop_oneof![3 => Just(false), 1 => Just(true)]), 1..8),
        0u8..4,
    )
        .prop_map(|(a, b, path_kind)| Scenario { a, b, path_kind })
}

/// number of steps the second export of a scenario emits (created, lines, before_flush, flushed, renamed)
fn steps_of(s: &Scenario) -> usize {
    expected_states(s).1.len() + 4
}

pub fn run(ctx: &mut Ctx) {
    ctx.assume("sub-check histories: the statistics worker's folding rule (count per peer id, +1 on PeerAdded, -1 on PeerRemoved, drop at 0) is reproduced in the harness from workers/statistics/mod.rs; the worker itself, the collector and the cleaning worker run in sub-check reports-e2e");
    ctx.assume("crash = process abort at a probe between export steps; durability across power loss (fsync) is neither claimed nor tested");
    // running trackers in the background: statistics page and export file against the model
    let reports = crate::checks::clock::Background::start(crate::checks::reports::cases(ctx.seed, ctx.tier), crate::checks::reports::prop_reports);
    ctx.run_regress::<UdpCase, _>("histories", prop_hist);
    ctx.run_regress::<CrashCase, _>("crash-points", prop_crash);
    let tier = ctx.tier;
    let p = params(tier);
    ctx.run_prop("histories", tier.pick(100_000, 2_000_000), move || udp_case(p, true), prop_hist);
    for l in ["peer-id-change", "clean-expired-some", "export", "stop-existing"] {
        ctx.require_label("histories", l, 0.05);
    }
    // crash points: enumerate every step of generated scenarios
    let n_scen = tier.pick(12, 120);
    let mut cases = Vec::new();
    for i in 0..n_scen {
        let mut s = sample_strategy(&scenario(), derive_seed(ctx.seed, "C20", "scenario", i as u64));
        s.path_kind = (i % 4) as u8;
        let n = steps_of(&s);
        for step in 0..n {
            cases.push(CrashCase { scenario: s.clone(), step: Some(step), abort: true });
            cases.push(CrashCase { scenario: s.clone(), step: Some(step), abort: false });
        }
        cases.push(CrashCase { scenario: s.clone(), step: None, abort: true });
    }
    ctx.run_enum("crash-points", cases, true, prop_crash);
    for l in ["crash-at-created", "crash-at-line", "crash-at-before-flush", "crash-at-flushed", "crash-at-renamed", "reader-during-export"] {
        ctx.require_label("crash-points", l, 0.01);
    }
    // a constant swarm under concurrent re-announces: every pass must report exactly it
    let saved = ctx.threads;
    ctx.threads = 4;
    ctx.run_regress::<crate::checks::hot::HotCase, _>("constant-swarm-under-load", crate::checks::hot::prop_hot);
    ctx.run_enum("constant-swarm-under-load", crate::checks::hot::cases(ctx.seed, tier), false, crate::checks::hot::prop_hot);
    ctx.threads = saved;
    ctx.require_label("constant-swarm-under-load", "passes-overlapped-by-announces", 0.5);
    ctx.confirm_runs = 2;
    ctx.run_regress::<crate::checks::reports::ReportsCase, _>("reports-e2e", crate::checks::reports::prop_reports);
    reports.finish(ctx, "reports-e2e", crate::checks::reports::prop_reports);
    ctx.confirm_runs = 0;
    ctx.require_label("reports-e2e", "all-expired-converged", 0.7);
    ctx.require_label("reports-e2e", "peer-id-change", 0.7);
}

pub fn replay(path: &str, sub: &str, case: serde_json::Value) -> i32 {
    match sub {
        "crash-points" => replay_one::<CrashCase, _>("C20", path, case, prop_crash),
        "constant-swarm-under-load" => replay_one::<crate::checks::hot::HotCase, _>("C20", path, case, crate::checks::hot::prop_hot),
        "reports-e2e" => replay_one::<crate::checks::reports::ReportsCase, _>("C20", path, case, crate::checks::reports::prop_reports),
        _ => replay_one::<UdpCase, _>("C20", path, case, prop_hist),
    }
}
