pub mod c01;
