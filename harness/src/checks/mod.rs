pub mod c01;
pub mod c02;
pub mod c05;
pub mod c07;
pub mod c08;
pub mod c09;
pub mod c10;
pub mod c11;
pub mod c13;
pub mod c14;
pub mod c15;

/// entry for internal child-process sub-commands
pub fn child_main(args: &[String]) -> i32 {
    eprintln!("unknown sub-command {:?}", args.first());
    2
}
