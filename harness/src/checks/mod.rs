pub mod c01;
pub mod c02;
pub mod c03;
pub mod c04;
pub mod c05;
pub mod c06;
pub mod c07;
pub mod c08;
pub mod c09;
pub mod c10;
pub mod c11;
pub mod c12;
pub mod c13;
pub mod c14;
pub mod c15;
pub mod c16;
pub mod c17;
pub mod c18;
pub mod c19;
pub mod c20;
pub mod clock;
pub mod hot;
pub mod reports;
pub mod sendfault;

/// entry for internal child-process sub-commands
pub fn child_main(args: &[String]) -> i32 {
    if args.first().map(|s| s.as_str()) == Some("--c12-write-seeds") {
        return c12::write_seeds(&args[1..]);
    }
    if args.first().map(|s| s.as_str()) == Some("--c12-e2e-child") {
        return c12::e2e_child_main(&args[1..]);
    }
    if args.first().map(|s| s.as_str()) == Some("--c12-child") {
        return c12::child_main(&args[1..]);
    }
    if args.first().map(|s| s.as_str()) == Some("--c06-fault-child") {
        return sendfault::child_main(&args[1..]);
    }
    if args.first().map(|s| s.as_str()) == Some("--c19-child") {
        return c19::child_main(&args[1..]);
    }
    if args.first().map(|s| s.as_str()) == Some("--c20-child") {
        return c20::child_main(&args[1..]);
    }
    eprintln!("unknown sub-command {:?}", args.first());
    2
}
