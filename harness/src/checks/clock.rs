//! Wall-clock sub-checks shared by C05 (`wire-window`) and C10 (`e2e-clock`): the glue between a
//! worker's clock and what it stores. Storage-level checks hand deadlines / clock values in by
//! hand (explicit `valid_until`, mock clock, `verif_set_seconds_since_start`); whether a *running*
//! worker keeps its own time sample current (mio: every 256 poll iterations, io_uring: 5 s pulse,
//! HTTP swarm worker: 1 s timer, WS: read per request) is only visible against real time.
//!
//! All time bounds are chosen so that the legitimate staleness of a sample (<= 1.3 s for mio with
//! the harness's 5 ms poll time-out, <= 5 s for io_uring) plus several seconds of scheduling delay
//! cannot flip an assertion; a failure is re-run (Ctx::confirm_runs) before it is reported.

use std::net::{IpAddr, Ipv4Addr, SocketAddr};
use std::sync::{Arc, Mutex};
use std::time::{Duration, Instant};

use serde::{Deserialize, Serialize};

use crate::codecs::*;
use crate::e2e::*;
use crate::engine::*;
use crate::models::Hash20;
use crate::{vensure, vfail};

// ---------------------------------------------------------------------------------------------
// a minimal client for the three trackers: announce one leecher, count stored peers of a torrent
// ---------------------------------------------------------------------------------------------

pub enum Simple {
    Udp { tr: Tracker, cls: Vec<UdpClient>, cid: i64 },
    Http { tr: Tracker },
    Ws { tr: Tracker, conns: Vec<WsClient> },
}

fn inc(kind: &str, e: impl std::fmt::Display) -> Violation {
    Violation::new(&format!("inconclusive-{kind}"), e.to_string())
}

impl Simple {
    pub fn tracker(&mut self) -> &mut Tracker {
        match self {
            Simple::Udp { tr, .. } | Simple::Http { tr } | Simple::Ws { tr, .. } => tr,
        }
    }

    pub fn udp_connect(cl: &UdpClient, tid: i32) -> Result<i64, Violation> {
        cl.send(&bep15_encode_request(&UReq::Connect { tid })).map_err(|e| inc("send", e))?;
        let deadline = Instant::now() + reply_wait();
        while Instant::now() < deadline {
            if let Some((b, _)) = cl.recv(Duration::from_millis(500)) {
                if let Ok(URsp::Connect { cid, tid: t }) = bep15_decode_response(&b, true) {
                    if t == tid {
                        return Ok(cid);
                    }
                }
            }
        }
        Err(inc("connect", "no connect reply"))
    }

    /// Ok(true) = normal announce reply, Ok(false) = error reply
    pub fn announce(&mut self, hsh: Hash20, port: u16) -> Result<bool, Violation> {
        let timeout = reply_wait();
        let ip: IpAddr = Ipv4Addr::LOCALHOST.into();
        match self {
            Simple::Udp { cls, cid, .. } => {
                // different source ports, so that the kernel spreads them over the socket workers
                let cl = &cls[port as usize % cls.len()];
                // a connection id obtained now (ids expire; this helper is about peers)
                *cid = Self::udp_connect(cl, 77)?;
                cl.send(&bep15_encode_request(&UReq::Announce { cid: *cid, tid: 2, info_hash: hsh, peer_id: [1; 20], downloaded: 0, left: 1, uploaded: 0, event: 2, ip: [0; 4], key: 0, numwant: 0, port })).map_err(|e| inc("send", e))?;
                match cl.recv(timeout).map(|(b, _)| bep15_decode_response(&b, true)) {
                    Some(Ok(URsp::Announce4 { .. })) => Ok(true),
                    Some(Ok(URsp::Error { .. })) => Ok(false),
                    other => Err(inc("no-reply", format!("announce: {:?}", other))),
                }
            }
            Simple::Http { tr } => {
                let to: SocketAddr = (Ipv4Addr::LOCALHOST, tr.port).into();
                let mut cl = HttpClient::connect(ip, to).map_err(|e| inc("connect", e))?;
                let req = format!("GET /announce?info_hash={}&peer_id=-TR2940-abcdefghijkl&port={port}&uploaded=0&downloaded=0&left=1 HTTP/1.1\r\nHost: x\r\n\r\n", std::str::from_utf8(&hsh).unwrap());
                cl.send_segments(&[req.as_bytes()]).map_err(|e| inc("send", e))?;
                match cl.read_reply(timeout) {
                    HttpRead::Ok { body, .. } => Ok(!body.starts_with(b"d14:failure reason")),
                    other => Err(inc("no-reply", format!("announce: {:?}", other))),
                }
            }
            Simple::Ws { tr, conns } => {
                use aquatic_ws_protocol::common::*;
                use aquatic_ws_protocol::incoming::*;
                use aquatic_ws_protocol::outgoing::OutMessage;
                // one connection per announced peer, kept open (closing it would remove the peer)
                let to: SocketAddr = (Ipv4Addr::LOCALHOST, tr.port).into();
                let mut cl = WsClient::connect(ip, to).map_err(|e| inc("connect", e))?;
                let mut pid = [b'p'; 20];
                pid[0] = (port >> 8) as u8;
                pid[1] = port as u8;
                let m = InMessage::AnnounceRequest(AnnounceRequest { action: AnnounceAction::Announce, info_hash: InfoHash(hsh), peer_id: PeerId(pid), bytes_left: Some(1), event: None, offers: None, numwant: None, answer: None, answer_to_peer_id: None, answer_offer_id: None });
                let text = match m.to_ws_message() {
                    tungstenite::Message::Text(t) => t.as_str().to_string(),
                    _ => String::new(),
                };
                cl.send_text(text).map_err(|e| inc("send", e))?;
                let r = match cl.recv(timeout) {
                    Ok(Some(m)) => match OutMessage::from_ws_message(m) {
                        Ok(OutMessage::AnnounceResponse(_)) => Ok(true),
                        Ok(OutMessage::ErrorResponse(_)) => Ok(false),
                        other => Err(inc("wrong-reply", format!("{:?}", other))),
                    },
                    other => Err(inc("no-reply", format!("announce: {:?}", other.map(|_| ())))),
                };
                conns.push(cl);
                r
            }
        }
    }

    /// number of peers stored for the torrent, as a scrape reports it
    pub fn scrape(&mut self, hsh: Hash20) -> Result<usize, Violation> {
        let timeout = reply_wait();
        let ip: IpAddr = Ipv4Addr::LOCALHOST.into();
        match self {
            Simple::Udp { cls, cid, .. } => {
                let cl = &cls[hsh[0] as usize % cls.len()];
                *cid = Self::udp_connect(cl, 78)?;
                cl.send(&bep15_encode_request(&UReq::Scrape { cid: *cid, tid: 3, hashes: vec![hsh] })).map_err(|e| inc("send", e))?;
                match cl.recv(timeout).map(|(b, _)| bep15_decode_response(&b, true)) {
                    Some(Ok(URsp::Scrape { stats, .. })) => Ok(stats.first().map(|s| (s.0 + s.2) as usize).unwrap_or(0)),
                    other => Err(inc("no-reply", format!("scrape: {:?}", other))),
                }
            }
            Simple::Http { tr } => {
                let to: SocketAddr = (Ipv4Addr::LOCALHOST, tr.port).into();
                let mut cl = HttpClient::connect(ip, to).map_err(|e| inc("connect", e))?;
                let req = format!("GET /scrape?info_hash={} HTTP/1.1\r\nHost: x\r\n\r\n", std::str::from_utf8(&hsh).unwrap());
                cl.send_segments(&[req.as_bytes()]).map_err(|e| inc("send", e))?;
                match cl.read_reply(timeout) {
                    HttpRead::Ok { body, .. } => {
                        let tree = ben_parse_strict(&body[..body.len().saturating_sub(2)]).map_err(|e| Violation::new("reply-malformed", e))?;
                        Ok(match tree.get(b"files") {
                            Some(Ben::Dict(d)) => d
                                .first()
                                .map(|(_, v)| match (v.get(b"complete"), v.get(b"incomplete")) {
                                    (Some(Ben::Int(a)), Some(Ben::Int(b))) => (*a + *b) as usize,
                                    _ => 0,
                                })
                                .unwrap_or(0),
                            _ => 0,
                        })
                    }
                    other => Err(inc("no-reply", format!("scrape: {:?}", other))),
                }
            }
            Simple::Ws { tr, .. } => {
                use aquatic_ws_protocol::common::*;
                use aquatic_ws_protocol::incoming::*;
                use aquatic_ws_protocol::outgoing::OutMessage;
                let to: SocketAddr = (Ipv4Addr::LOCALHOST, tr.port).into();
                let mut cl = WsClient::connect(ip, to).map_err(|e| inc("connect", e))?;
                let m = InMessage::ScrapeRequest(ScrapeRequest { action: ScrapeAction::Scrape, info_hashes: Some(ScrapeRequestInfoHashes::Single(InfoHash(hsh))) });
                let text = match m.to_ws_message() {
                    tungstenite::Message::Text(t) => t.as_str().to_string(),
                    _ => String::new(),
                };
                cl.send_text(text).map_err(|e| inc("send", e))?;
                match cl.recv(timeout) {
                    Ok(Some(m)) => match OutMessage::from_ws_message(m) {
                        Ok(OutMessage::ScrapeResponse(s)) => Ok(s.files.get(&InfoHash(hsh)).map(|f| f.complete + f.incomplete).unwrap_or(0)),
                        other => Err(inc("wrong-reply", format!("{:?}", other))),
                    },
                    other => Err(inc("no-reply", format!("scrape: {:?}", other.map(|_| ())))),
                }
            }
        }
    }
}

fn sleep_until(t0: Instant, secs: f64) {
    let target = t0 + Duration::from_secs_f64(secs);
    let now = Instant::now();
    if target > now {
        std::thread::sleep(target - now);
    }
}

fn hash_for(tag: u8, n: u8) -> Hash20 {
    let mut h = [b'k'; 20];
    h[0] = b'a' + n;
    h[1] = b'a' + (tag % 26);
    h[19] = b'0' + n;
    h
}

// ---------------------------------------------------------------------------------------------
// C10: peers announced long after start-up live for max_peer_age from *then*
// ---------------------------------------------------------------------------------------------

#[derive(Debug, Clone, PartialEq, Serialize, Deserialize)]
pub struct PeerClockCase {
    /// "udp-mio" | "udp-uring" | "http" | "ws"
    pub tracker: String,
    /// cleaning.max_peer_age (seconds, >= 12)
    pub age: u32,
    /// seconds after readiness at which the late peers announce (> age + 2)
    pub late: u32,
    pub socket_workers: usize,
    pub swarm_workers: usize,
}

pub fn start_simple(tracker: &str, socket_workers: usize, swarm_workers: usize, peer_age: u32, conn_age: u32) -> Result<Simple, Violation> {
    let ip: IpAddr = Ipv4Addr::LOCALHOST.into();
    match tracker {
        "udp-mio" | "udp-uring" => {
            let uring = tracker == "udp-uring";
            let tr = start_udp(|port| {
                let mut cfg = udp_config(port, SocketMode::V4Only, uring, socket_workers);
                cfg.cleaning.torrent_cleaning_interval = 1;
                cfg.cleaning.max_peer_age = peer_age;
                cfg.cleaning.max_connection_age = conn_age;
                cfg
            })
            .map_err(|e| inc("tracker-start", e))?;
            let mut cls = Vec::new();
            for _ in 0..5 {
                cls.push(UdpClient::new(ip, tr.port).map_err(|e| inc("client", e))?);
            }
            Ok(Simple::Udp { tr, cls, cid: 0 })
        }
        "http" => {
            let tr = start_http(|port| {
                let mut cfg = http_config(port, socket_workers, swarm_workers);
                cfg.network.use_ipv6 = false;
                cfg.cleaning.torrent_cleaning_interval = 1;
                cfg.cleaning.max_peer_age = peer_age;
                cfg
            })
            .map_err(|e| inc("tracker-start", e))?;
            Ok(Simple::Http { tr })
        }
        _ => {
            let tr = start_ws(|port| {
                let mut cfg = ws_config(port, socket_workers, swarm_workers, false);
                cfg.cleaning.torrent_cleaning_interval = 1;
                cfg.cleaning.max_peer_age = peer_age;
                // connections stay open (and idle) for the whole case
                cfg.cleaning.max_connection_idle = 3600;
                cfg
            })
            .map_err(|e| inc("tracker-start", e))?;
            Ok(Simple::Ws { tr, conns: Vec::new() })
        }
    }
}

pub fn prop_peer_clock(c: &PeerClockCase) -> CaseResult {
    let mut out = Outcome::default();
    let age = c.age.max(12) as f64;
    let late = (c.late as f64).max(age + 3.0);
    let mut t = start_simple(&c.tracker, c.socket_workers, c.swarm_workers, c.age.max(12), 3600)?;
    let t0 = Instant::now();
    let tag = (t.tracker().port % 26) as u8;
    // torrents: 0 announced now, never again; 1 announced now and re-announced shortly before its
    // deadline; 2..4 announced late (spread over the swarm workers by their first byte)
    let early = hash_for(tag, 0);
    let renewed = hash_for(tag, 1);
    vensure!(t.announce(early, 2000)?, "announce-refused", "{}: announce refused", c.tracker);
    vensure!(t.announce(renewed, 2001)?, "announce-refused", "{}: announce refused", c.tracker);
    vensure!(t.scrape(early)? == 1 && t.scrape(renewed)? == 1, "peer-not-stored", "{}: a peer announced a moment ago is not reported by a scrape", c.tracker);
    // re-announce at age - 3 s (same peer: same address, port, peer id)
    sleep_until(t0, age - 3.0);
    match &mut t {
        Simple::Ws { conns, .. } => {
            // the WS peer is tied to its connection: re-announce through that connection
            use aquatic_ws_protocol::common::*;
            use aquatic_ws_protocol::incoming::*;
            let cl = &mut conns[1];
            let mut pid = [b'p'; 20];
            pid[0] = (2001u16 >> 8) as u8;
            pid[1] = 2001u16 as u8;
            let m = InMessage::AnnounceRequest(AnnounceRequest { action: AnnounceAction::Announce, info_hash: InfoHash(renewed), peer_id: PeerId(pid), bytes_left: Some(1), event: None, offers: None, numwant: None, answer: None, answer_to_peer_id: None, answer_offer_id: None });
            let text = match m.to_ws_message() {
                tungstenite::Message::Text(t) => t.as_str().to_string(),
                _ => String::new(),
            };
            cl.send_text(text).map_err(|e| inc("send", e))?;
            match cl.recv(reply_wait()) {
                Ok(Some(_)) => {}
                other => return Err(inc("no-reply", format!("re-announce: {:?}", other.map(|_| ())))),
            }
        }
        other => {
            vensure!(other.announce(renewed, 2001)?, "announce-refused", "{}: re-announce refused", c.tracker);
        }
    }
    let renewed_at = t0.elapsed().as_secs_f64();
    // the re-announced peer outlives its first deadline (the first deadline was <= age)
    sleep_until(t0, age + 2.5);
    let at = t0.elapsed().as_secs_f64();
    if renewed_at < age - 1.0 && at < renewed_at + age - 6.5 {
        let n = t.scrape(renewed)?;
        out.checks += 1;
        vensure!(n == 1, "reannounce-did-not-refresh", "{}: peer announced at 0 s and again at {:.1} s (max_peer_age {} s) is gone at {:.1} s", c.tracker, renewed_at, c.age, at);
        out.label("reannounced-peer-kept");
    }
    // the late peers: by now the time sample taken at start-up is older than max_peer_age
    sleep_until(t0, late);
    let late_hashes: Vec<Hash20> = (2..5).map(|n| hash_for(tag, n)).collect();
    for (i, h) in late_hashes.iter().enumerate() {
        vensure!(t.announce(*h, 2002 + i as u16)?, "announce-refused", "{}: late announce refused", c.tracker);
    }
    let late_at = t0.elapsed().as_secs_f64();
    // three seconds (>= 2 cleaning passes) later every late peer is still there
    sleep_until(t0, late_at + 3.0);
    let seen_at = t0.elapsed().as_secs_f64();
    if seen_at - late_at < age - 7.0 {
        for h in late_hashes.iter() {
            let n = t.scrape(*h)?;
            out.checks += 1;
            vensure!(
                n == 1,
                "peer-expired-early",
                "{}: a peer announced {:.1} s after start-up (max_peer_age {} s, cleaning every second) is gone {:.1} s after its announce: scrape reports {n} peers - the worker's time sample was not current",
                c.tracker,
                late_at,
                c.age,
                seen_at - late_at
            );
        }
        out.label("late-peer-kept");
        out.nontrivial = true;
    } else {
        out.label("machine-too-slow-for-kept-check");
    }
    // the early peer's deadline (<= age on this time axis) has passed: gone after the next pass
    let deadline = Instant::now() + Duration::from_secs(12);
    loop {
        let n = t.scrape(early)?;
        if n == 0 {
            break;
        }
        if Instant::now() > deadline {
            vfail!("peer-not-expired", "{}: peer announced at 0 s with max_peer_age {} s is still reported {:.1} s later (cleaning every second)", c.tracker, c.age, t0.elapsed().as_secs_f64());
        }
        std::thread::sleep(Duration::from_millis(200));
    }
    out.checks += 1;
    out.label("early-peer-expired");
    // and the late peers go when their time has come
    sleep_until(t0, late_at + age + 1.0);
    let deadline = Instant::now() + Duration::from_secs(18);
    for h in late_hashes.iter() {
        loop {
            let n = t.scrape(*h)?;
            if n == 0 {
                break;
            }
            if Instant::now() > deadline {
                vfail!("peer-not-expired", "{}: peer announced at {:.1} s with max_peer_age {} s is still reported at {:.1} s", c.tracker, late_at, c.age, t0.elapsed().as_secs_f64());
            }
            std::thread::sleep(Duration::from_millis(200));
        }
        out.checks += 1;
    }
    out.label("late-peer-expired");
    out.label(&c.tracker);
    if let Some(r) = t.tracker().result() {
        vfail!("tracker-stopped", "{}: {}", c.tracker, r);
    }
    Ok(out)
}

pub fn peer_clock_cases(seed: u64, tier: Tier) -> Vec<PeerClockCase> {
    let mut v = Vec::new();
    for (i, tr) in ["udp-mio", "udp-uring", "http", "ws"].iter().enumerate() {
        let x = derive_seed(seed, "C10", "e2e-clock", i as u64);
        let age = 15 + (x % 4) as u32;
        let workers = [(1usize, 1usize), (2, 1), (2, 2), (1, 2)][((x >> 8) % 4) as usize];
        // aquatic_ws with several socket and swarm workers sometimes hangs at start-up (finding
        // F17, C17's subject): one socket worker here
        let workers = if *tr == "ws" { (1, 1 + workers.1) } else { workers };
        v.push(PeerClockCase { tracker: tr.to_string(), age, late: age + 4 + ((x >> 16) % 3) as u32, socket_workers: workers.0, swarm_workers: workers.1 });
        if tier == Tier::Thorough {
            for k in 0..3u32 {
                let age = 12 + 9 * k + ((x >> (20 + k)) % 5) as u32;
                v.push(PeerClockCase { tracker: tr.to_string(), age, late: age + 3 + 7 * k, socket_workers: if *tr == "ws" { 1 } else { 1 + (k as usize % 3) }, swarm_workers: 1 + ((k as usize + 1) % 3) });
            }
        }
    }
    v
}

// ---------------------------------------------------------------------------------------------
// C05: connection ids on the wire against real time
// ---------------------------------------------------------------------------------------------

#[derive(Debug, Clone, PartialEq, Serialize, Deserialize)]
pub struct ConnClockCase {
    /// "udp-mio" | "udp-uring"
    pub tracker: String,
    /// cleaning.max_connection_age (seconds, >= 12)
    pub age: u32,
    pub socket_workers: usize,
    /// client sockets (different source ports: the kernel spreads them over the socket workers)
    pub clients: usize,
}

/// Send an announce under `cid`, then a connect as a fence (same socket, same worker, FIFO):
/// Ok(true) if the announce was answered, Ok(false) if only the fence's reply came.
fn announce_answered(cl: &UdpClient, cid: i64, hsh: Hash20, tid: i32) -> Result<bool, Violation> {
    cl.send(&bep15_encode_request(&UReq::Announce { cid, tid, info_hash: hsh, peer_id: [2; 20], downloaded: 0, left: 1, uploaded: 0, event: 0, ip: [0; 4], key: 0, numwant: 0, port: 4000 })).map_err(|e| inc("send", e))?;
    let fence_tid = tid.wrapping_add(0x4000_0000);
    cl.send(&bep15_encode_request(&UReq::Connect { tid: fence_tid })).map_err(|e| inc("send", e))?;
    let deadline = Instant::now() + reply_wait();
    let mut answered = false;
    while Instant::now() < deadline {
        if let Some((b, _)) = cl.recv(Duration::from_millis(500)) {
            match bep15_decode_response(&b, true) {
                Ok(URsp::Announce4 { tid: t, .. }) if t == tid => answered = true,
                Ok(URsp::Error { tid: t, .. }) if t == tid => answered = true,
                Ok(URsp::Connect { tid: t, .. }) if t == fence_tid => return Ok(answered),
                _ => {}
            }
        }
    }
    Err(inc("no-reply", "the fence (connect request) was not answered"))
}

pub fn prop_conn_clock(c: &ConnClockCase) -> CaseResult {
    let mut out = Outcome::default();
    let age = c.age.max(12);
    let mut t = start_simple(&c.tracker, c.socket_workers, 1, 3600, age)?;
    let port = t.tracker().port;
    let t0 = Instant::now();
    let tag = (port % 26) as u8;
    let hsh = hash_for(tag, 7);
    let mut clients = Vec::new();
    for i in 0..c.clients.max(1) {
        let ip: IpAddr = Ipv4Addr::new(127, 0, 0, 1 + (i % 4) as u8).into();
        clients.push(UdpClient::new(ip, port).map_err(|e| inc("client", e))?);
    }
    // ids issued right after start-up
    let mut first_ids = Vec::new();
    for (i, cl) in clients.iter().enumerate() {
        first_ids.push(Simple::udp_connect(cl, 100 + i as i32)?);
    }
    let issued_at = t0.elapsed().as_secs_f64();
    for (i, cl) in clients.iter().enumerate() {
        vensure!(announce_answered(cl, first_ids[i], hsh, 200 + i as i32)?, "valid-id-rejected-on-wire", "{}: a connection id was not accepted right after it was issued", c.tracker);
        out.checks += 1;
    }
    // a few seconds later (well inside the window whatever the staleness of the two samples)
    sleep_until(t0, 3.0);
    let at = t0.elapsed().as_secs_f64();
    if at + 6.0 < age as f64 {
        for (i, cl) in clients.iter().enumerate() {
            vensure!(
                announce_answered(cl, first_ids[i], hsh, 300 + i as i32)?,
                "valid-id-rejected-on-wire",
                "{}: connection id issued at {:.1} s rejected at {:.1} s, max_connection_age {} s",
                c.tracker,
                issued_at,
                at,
                age
            );
            out.checks += 1;
        }
        out.label("accepted-inside-window");
    }
    // long after the window: the worker's clock must have moved on
    sleep_until(t0, age as f64 + 9.0);
    let at = t0.elapsed().as_secs_f64();
    for (i, cl) in clients.iter().enumerate() {
        let answered = announce_answered(cl, first_ids[i], hsh, 400 + i as i32)?;
        out.checks += 1;
        vensure!(
            !answered,
            "expired-id-accepted-on-wire",
            "{}: connection id issued at {:.1} s is still accepted at {:.1} s although max_connection_age is {} s - the socket worker's clock is not kept current",
            c.tracker,
            issued_at,
            at,
            age
        );
    }
    out.label("rejected-after-window");
    out.nontrivial = true;
    // fresh ids work at once, and the old one stays dead
    for (i, cl) in clients.iter().enumerate() {
        let id = Simple::udp_connect(cl, 500 + i as i32)?;
        vensure!(announce_answered(cl, id, hsh, 600 + i as i32)?, "valid-id-rejected-on-wire", "{}: a connection id issued at {:.1} s was not accepted at once", c.tracker, at);
        out.checks += 1;
    }
    out.label(&c.tracker);
    if let Some(r) = t.tracker().result() {
        vfail!("tracker-stopped", "{}: {}", c.tracker, r);
    }
    Ok(out)
}

pub fn conn_clock_cases(seed: u64, tier: Tier) -> Vec<ConnClockCase> {
    let mut v = Vec::new();
    for (i, tr) in ["udp-mio", "udp-uring"].iter().enumerate() {
        let x = derive_seed(seed, "C05", "wire-window", i as u64);
        v.push(ConnClockCase { tracker: tr.to_string(), age: 12 + (x % 4) as u32, socket_workers: 1 + ((x >> 8) % 3) as usize, clients: 6 });
        if tier == Tier::Thorough {
            for k in 0..3u32 {
                v.push(ConnClockCase { tracker: tr.to_string(), age: 14 + 11 * k + ((x >> (12 + k)) % 6) as u32, socket_workers: 1 + (k as usize % 3), clients: 8 });
            }
        }
    }
    v
}

// ---------------------------------------------------------------------------------------------
// running such cases in the background while the CPU-bound sub-checks run
// ---------------------------------------------------------------------------------------------

pub struct Background<T> {
    pub cases: Vec<T>,
    results: Arc<Mutex<Vec<Option<CaseResult>>>>,
    handles: Vec<std::thread::JoinHandle<()>>,
}

impl<T: Clone + Send + Sync + 'static> Background<T> {
    /// every case on a thread of its own (they sleep most of the time)
    pub fn start(cases: Vec<T>, f: fn(&T) -> CaseResult) -> Self {
        install_quiet_panic_hook();
        let results = Arc::new(Mutex::new(vec![None; cases.len()]));
        let mut handles = Vec::new();
        for (i, c) in cases.iter().cloned().enumerate() {
            let results = results.clone();
            if let Ok(h) = std::thread::Builder::new().name(format!("vcheck-clock-{i}")).spawn(move || {
                let r = match catch_panic(|| f(&c)) {
                    Ok(r) => r,
                    Err(p) => Err(Violation::new("panic", p)),
                };
                results.lock().unwrap()[i] = Some(r);
            }) {
                handles.push(h);
            }
        }
        // let the trackers come up before the caller's CPU-bound sub-checks take every core
        std::thread::sleep(Duration::from_secs(3));
        Self { cases, results, handles }
    }

    /// wait for the first pass and hand the results to the engine (which re-runs failures)
    pub fn finish(self, ctx: &mut Ctx, sub: &str, f: fn(&T) -> CaseResult)
    where
        T: Serialize + serde::de::DeserializeOwned + std::fmt::Debug + PartialEq,
    {
        for h in self.handles {
            let _ = h.join();
        }
        let first: Vec<Option<CaseResult>> = std::mem::take(&mut *self.results.lock().unwrap());
        let first = Arc::new(Mutex::new(first));
        let cases = self.cases.clone();
        let lookup = cases.clone();
        ctx.run_enum(sub, cases, false, move |c: &T| {
            if let Some(i) = lookup.iter().position(|x| x == c) {
                if let Some(r) = first.lock().unwrap().get_mut(i).and_then(|s| s.take()) {
                    return r;
                }
            }
            f(c)
        });
    }
}
