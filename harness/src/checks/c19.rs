//! C19 — A dead worker brings the whole tracker down (DESIGN.md §6 C19)

use std::net::{IpAddr, SocketAddr, TcpListener};
use std::process::Command;
use std::sync::atomic::{AtomicBool, AtomicU64, Ordering};
use std::sync::{Arc, Mutex};
use std::time::{Duration, Instant};

use aquatic_common::verif::{set_probe_handler, ProbeAction};
use serde::{Deserialize, Serialize};

use crate::codecs::*;
use crate::e2e::*;
use crate::engine::*;
use crate::{vensure, vfail};

pub const RULE: &str = "fault enumeration: case = (tracker in {udp-mio, udp-uring, http, ws}, worker kind (socket, swarm, cleaning, statistics, signals, prometheus; detached connection task, cleaning timer task), worker index, worker counts 1..3, fault in {panic, return, set-up failure (unbindable address, occupied prometheus port, reverse-proxy request without header)}, moment in {at start, after k served requests, after 17 / 45 (thorough also 33 / 70) seconds of serving}). Each case runs in a child process that starts the tracker, serves k requests, arms a probe handler (feature verif) that panics or returns in exactly the chosen worker thread, triggers the worker's loop if needed (a request, a connection, SIGUSR1) and measures the time from the fault to run() returning. Oracle: run() returns an error within 10 s of the fault; a tracker still running 20 s after the fault is a violation; a fault that never fires is undecided. non-trivial = the faulted worker is not the only worker of the tracker; distinct = distinct (tracker, worker, index, counts, fault, moment) tuple; plus, in both tiers, cases in which several workers stop within one supervision pass (no socket worker can bind with 2-4 socket workers; the fault armed in every socket / swarm worker at once) and a ladder of fault uptimes (every 3 s from 11 s to 53 s quick, every second to 130 s thorough)";

#[derive(Debug, Clone, Copy, Serialize, Deserialize, PartialEq, Eq, Hash)]
pub enum Trk {
    UdpMio,
    UdpUring,
    Http,
    Ws,
}

#[derive(Debug, Clone, Serialize, Deserialize, PartialEq, Eq, Hash)]
pub enum Fault {
    /// probe name, thread name that must match, panic (true) or return (false)
    Probe { probe: String, thread: String, panic: bool },
    UnbindableAddress,
    PrometheusPortOccupied,
    ReverseProxyRequestWithoutHeader,
}

#[derive(Debug, Clone, Serialize, Deserialize, PartialEq, Eq, Hash)]
pub struct Case {
    pub trk: Trk,
    pub socket_workers: u8,
    pub swarm_workers: u8,
    pub fault: Fault,
    /// requests served before the fault is armed
    pub after_requests: u8,
    /// seconds the tracker keeps running (and serving) before the fault is armed
    #[serde(default)]
    pub uptime_before_fault_s: u8,
}

fn udp_request_ok(port: u16) -> bool {
    let Ok(c) = UdpClient::new("127.0.0.1".parse().unwrap(), port) else { return false };
    for _ in 0..20 {
        let _ = c.send(&bep15_encode_request(&UReq::Connect { tid: 5 }));
        if c.recv(Duration::from_millis(100)).is_some() {
            return true;
        }
    }
    false
}

fn http_request(port: u16, with_header: bool, variant: u8) -> bool {
    let to: SocketAddr = (std::net::Ipv4Addr::LOCALHOST, port).into();
    let Ok(mut c) = HttpClient::connect("127.0.0.1".parse::<IpAddr>().unwrap(), to) else { return false };
    let hdr = if with_header { "X-Forwarded-For: 10.1.2.3\r\n" } else { "" };
    let first = (b'a' + variant % 6) as char;
    let req = format!("GET /announce?info_hash={first}aaaaaaaaaaaaaaaaaaa&peer_id=-TR2940-abcdefghijkl&port=1&uploaded=0&downloaded=0&left=1 HTTP/1.1\r\nHost: x\r\n{hdr}\r\n");
    if c.send_segments(&[req.as_bytes()]).is_err() {
        return false;
    }
    matches!(c.read_reply(Duration::from_secs(2)), HttpRead::Ok { .. })
}

fn ws_request(port: u16, close_after: bool, variant: u8) -> bool {
    use aquatic_ws_protocol::common::*;
    use aquatic_ws_protocol::incoming::*;
    let to: SocketAddr = (std::net::Ipv4Addr::LOCALHOST, port).into();
    let Ok(mut c) = WsClient::connect("127.0.0.1".parse::<IpAddr>().unwrap(), to) else { return false };
    let req = InMessage::AnnounceRequest(AnnounceRequest {
        action: AnnounceAction::Announce,
        info_hash: InfoHash({ let mut h = [b'h'; 20]; h[0] = variant % 6; h }),
        peer_id: PeerId([b'p'; 20]),
        bytes_left: Some(1),
        event: None,
        offers: None,
        numwant: None,
        answer: None,
        answer_to_peer_id: None,
        answer_offer_id: None,
    });
    let text = match req.to_ws_message() {
        tungstenite::Message::Text(t) => t.as_str().to_string(),
        _ => return false,
    };
    if c.send_text(text).is_err() {
        return false;
    }
    let ok = matches!(c.recv(Duration::from_secs(2)), Ok(Some(_)));
    if close_after {
        drop(c);
    } else {
        std::mem::forget(c); // keep the connection open for the rest of the child's life
    }
    ok
}

/// Child process: prints `READY`, `FAULT <name>`, `RETURNED <ms since fault> <text>` lines
pub fn child_main(args: &[String]) -> i32 {
    let case: Case = match args.first().and_then(|s| serde_json::from_str(s).ok()) {
        Some(c) => c,
        None => return 2,
    };
    let armed = Arc::new(AtomicBool::new(false));
    let fault_at: Arc<Mutex<Option<Instant>>> = Arc::new(Mutex::new(None));
    let fired = Arc::new(AtomicU64::new(0));
    if let Fault::Probe { probe, thread, panic } = &case.fault {
        let (probe, thread, panic) = (probe.clone(), thread.clone(), *panic);
        let armed = armed.clone();
        let fault_at = fault_at.clone();
        let fired = fired.clone();
        set_probe_handler(Some(Arc::new(move |name, _ctx| {
            if !armed.load(Ordering::SeqCst) || name != probe {
                return ProbeAction::Continue;
            }
            let tn = std::thread::current().name().unwrap_or("").to_string();
            // "socket-*" = every worker of that kind (several workers die at about the same time)
            let hit = match thread.strip_suffix('*') {
                Some(prefix) => tn.starts_with(prefix),
                None => tn == thread,
            };
            if !hit {
                return ProbeAction::Continue;
            }
            if fired.fetch_add(1, Ordering::SeqCst) == 0 {
                *fault_at.lock().unwrap() = Some(Instant::now());
                println!("FAULT {name} in {tn}");
                use std::io::Write;
                let _ = std::io::stdout().flush();
            }
            if panic {
                panic!("injected fault in {tn} at {name}");
            }
            ProbeAction::Return
        })));
    }
    // faults "at start" are armed before the tracker starts
    let at_start = case.after_requests == 0 && matches!(&case.fault, Fault::Probe { probe, .. } if probe.ends_with(":start") || probe.ends_with(":loop") || probe.ends_with(":clean"));
    if at_start {
        armed.store(true, Ordering::SeqCst);
    }
    let lease = match lease_port() {
        Ok(l) => l,
        Err(_) => return 2,
    };
    let port = lease.port;
    let prom_lease = lease_port().ok();
    let prom_port = prom_lease.as_ref().map(|l| l.port).unwrap_or(0);
    let _occupier = if matches!(case.fault, Fault::PrometheusPortOccupied) { TcpListener::bind(("127.0.0.1", prom_port)).ok() } else { None };
    let bad_addr = matches!(case.fault, Fault::UnbindableAddress);
    let sw = case.socket_workers as usize;
    let wanted_prometheus = matches!(&case.fault, Fault::PrometheusPortOccupied) || matches!(&case.fault, Fault::Probe { thread, .. } if thread == "prometheus");
    let c2 = case.clone();
    let handle = std::thread::Builder::new()
        .name("tracker-main".into())
        .spawn(move || -> anyhow::Result<()> {
            match c2.trk {
                Trk::UdpMio | Trk::UdpUring => {
                    let mut c = udp_config(port, SocketMode::Both, c2.trk == Trk::UdpUring, sw);
                    c.cleaning.torrent_cleaning_interval = 1;
                    c.statistics.interval = 1;
                    c.statistics.write_html_to_file = true;
                    c.statistics.html_file_path = format!("/dev/shm/vcheck-c19-{port}.html").into();
                    if wanted_prometheus {
                        c.statistics.run_prometheus_endpoint = true;
                        c.statistics.prometheus_endpoint_address = (std::net::Ipv4Addr::LOCALHOST, prom_port).into();
                    }
                    if bad_addr {
                        c.network.address_ipv4 = std::net::SocketAddrV4::new(std::net::Ipv4Addr::new(203, 0, 113, 1), port);
                    }
                    aquatic_udp::run(c)
                }
                Trk::Http => {
                    let mut c = http_config(port, sw, c2.swarm_workers as usize);
                    c.network.use_ipv6 = false;
                    c.cleaning.torrent_cleaning_interval = 1;
                    if wanted_prometheus {
                        c.metrics.run_prometheus_endpoint = true;
                        c.metrics.prometheus_endpoint_address = (std::net::Ipv4Addr::LOCALHOST, prom_port).into();
                    }
                    if matches!(c2.fault, Fault::ReverseProxyRequestWithoutHeader) {
                        c.network.runs_behind_reverse_proxy = true;
                    }
                    if bad_addr {
                        c.network.address_ipv4 = std::net::SocketAddrV4::new(std::net::Ipv4Addr::new(203, 0, 113, 1), port);
                    }
                    aquatic_http::run(c)
                }
                Trk::Ws => {
                    let mut c = ws_config(port, sw, c2.swarm_workers as usize, false);
                    c.cleaning.torrent_cleaning_interval = 1;
                    if wanted_prometheus {
                        c.metrics.run_prometheus_endpoint = true;
                        c.metrics.prometheus_endpoint_address = (std::net::Ipv4Addr::LOCALHOST, prom_port).into();
                    }
                    if bad_addr {
                        c.network.address = (std::net::Ipv4Addr::new(203, 0, 113, 1), port).into();
                    }
                    aquatic_ws::run(c)
                }
            }
        })
        .unwrap();
    let started = Instant::now();
    let setup_fault = !matches!(case.fault, Fault::Probe { .. } | Fault::ReverseProxyRequestWithoutHeader) || at_start;
    if setup_fault && !matches!(case.fault, Fault::Probe { .. }) {
        *fault_at.lock().unwrap() = Some(started);
        println!("FAULT setup");
    }
    let request = |close: bool| -> bool {
        match case.trk {
            Trk::UdpMio | Trk::UdpUring => udp_request_ok(port),
            Trk::Http => http_request(port, matches!(case.fault, Fault::ReverseProxyRequestWithoutHeader), 0),
            Trk::Ws => ws_request(port, close, 0),
        }
    };
    if !setup_fault {
        // wait until the tracker serves, then serve k requests
        let t0 = Instant::now();
        let mut ready = false;
        while t0.elapsed() < Duration::from_secs(60) && !handle.is_finished() {
            if request(true) {
                ready = true;
                break;
            }
            std::thread::sleep(Duration::from_millis(50));
        }
        if !ready {
            println!("NOTREADY");
            return 2;
        }
        println!("READY");
        for _ in 1..case.after_requests {
            request(true);
        }
        // let the tracker age: a supervision loop must notice a death at any later time as well
        let until = Instant::now() + Duration::from_secs(case.uptime_before_fault_s as u64);
        while Instant::now() < until {
            request(true);
            std::thread::sleep(Duration::from_millis(500));
        }
        armed.store(true, Ordering::SeqCst);
        if matches!(case.fault, Fault::ReverseProxyRequestWithoutHeader) {
            *fault_at.lock().unwrap() = Some(Instant::now());
            println!("FAULT request-without-header");
            http_request(port, false, 0);
        }
    }
    // keep poking so that the chosen worker reaches its probe: requests, connections, signals.
    // Poking happens in its own thread: a poke can block for seconds once the tracker is dying,
    // and must not delay the measurement below.
    {
        let fault_at = fault_at.clone();
        let case = case.clone();
        std::thread::spawn(move || {
            let until = Instant::now() + Duration::from_secs(55);
            while Instant::now() < until && fault_at.lock().unwrap().is_none() {
                if let Fault::Probe { probe, .. } = &case.fault {
                    if probe.ends_with(":signals:loop") {
                        unsafe { libc::kill(libc::getpid(), libc::SIGUSR1) };
                    } else if probe.ends_with(":start") {
                        // nothing to trigger
                    } else {
                        // several requests so that SO_REUSEPORT spreads connections over the socket
                        // workers and the info hash's first byte spreads them over the swarm workers
                        for i in 0..6u8 {
                            if fault_at.lock().unwrap().is_some() {
                                break;
                            }
                            match case.trk {
                                Trk::UdpMio | Trk::UdpUring => {
                                    udp_request_ok(port);
                                }
                                Trk::Http => {
                                    http_request(port, matches!(case.fault, Fault::ReverseProxyRequestWithoutHeader), i);
                                }
                                Trk::Ws => {
                                    ws_request(port, true, i);
                                }
                            }
                        }
                    }
                }
                std::thread::sleep(Duration::from_millis(200));
            }
        });
    }
    let poke_until = Instant::now() + Duration::from_secs(60);
    let returned_after: Option<Duration>;
    loop {
        let fa = *fault_at.lock().unwrap();
        if handle.is_finished() {
            returned_after = fa.map(|f| f.elapsed());
            break;
        }
        if let Some(f) = fa {
            if f.elapsed() > Duration::from_secs(20) {
                println!("STILL-RUNNING {} ms after the fault", f.elapsed().as_millis());
                return 1;
            }
        } else if Instant::now() > poke_until {
            println!("NOFAULT the probe never fired");
            return 2;
        }
        std::thread::sleep(Duration::from_millis(5));
    }
    let fa = *fault_at.lock().unwrap();
    let result = handle.join();
    let text = match &result {
        Ok(Ok(())) => "Ok".to_string(),
        Ok(Err(e)) => format!("Err: {e:#}").replace('\n', " "),
        Err(_) => "run() itself panicked".to_string(),
    };
    match returned_after.or(fa.map(|f| f.elapsed())) {
        Some(d) => {
            println!("RETURNED {} {}", d.as_millis(), text);
            if matches!(result, Ok(Err(_))) && d <= Duration::from_secs(10) {
                0
            } else {
                1
            }
        }
        None => {
            println!("RETURNED-WITHOUT-FAULT {text}");
            2
        }
    }
}

pub fn prop(case: &Case) -> CaseResult {
    let mut out = Outcome::default();
    let exe = std::env::current_exe().map_err(|e| Violation::new("inconclusive-io", e.to_string()))?;
    let o = Command::new(exe)
        .arg("--c19-child")
        .arg(serde_json::to_string(case).unwrap())
        .env("RUST_BACKTRACE", "0")
        .output()
        .map_err(|e| Violation::new("inconclusive-io", e.to_string()))?;
    let stdout = String::from_utf8_lossy(&o.stdout).to_string();
    let last = stdout.lines().last().unwrap_or("").to_string();
    out.checks += 1;
    match o.status.code() {
        Some(0) => {
            let ms: u64 = last.split_whitespace().nth(1).and_then(|s| s.parse().ok()).unwrap_or(0);
            vensure!(last.starts_with("RETURNED "), "inconclusive-child", "child exit 0 without RETURNED line: {stdout}");
            out.label("tracker-went-down");
            if ms > 5_000 {
                out.label("took-over-5s");
            }
        }
        Some(1) => vfail!(
            "tracker-kept-running",
            "{:?}: after the fault, run() did not return an error within 10 s: {} (child output: {})",
            case,
            last,
            stdout.replace('\n', " | ")
        ),
        Some(2) | None | Some(_) => {
            return Err(Violation::new(
                "inconclusive-fault-not-delivered",
                format!("{:?}: {} (status {:?}, stderr tail: {})", case, stdout.replace('\n', " | "), o.status, String::from_utf8_lossy(&o.stderr).lines().last().unwrap_or("")),
            ));
        }
    }
    let total_workers = case.socket_workers as u32 + if matches!(case.trk, Trk::Http | Trk::Ws) { case.swarm_workers as u32 } else { 0 };
    if total_workers > 1 {
        out.nontrivial = true;
    }
    if case.uptime_before_fault_s > 0 {
        out.label("fault-long-after-start");
    }
    if matches!(&case.fault, Fault::Probe { thread, .. } if thread.ends_with('*')) || (matches!(case.fault, Fault::UnbindableAddress) && case.socket_workers >= 2) {
        out.label("several-workers-at-once");
    }
    out.label(match case.trk {
        Trk::UdpMio => "udp-mio",
        Trk::UdpUring => "udp-uring",
        Trk::Http => "http",
        Trk::Ws => "ws",
    });
    match &case.fault {
        Fault::Probe { panic: true, .. } => out.label("panic"),
        Fault::Probe { panic: false, .. } => out.label("return"),
        _ => out.label("setup-failure"),
    }
    Ok(out)
}

fn probe(p: &str, t: &str, panic: bool) -> Fault {
    Fault::Probe { probe: p.to_string(), thread: t.to_string(), panic }
}

pub fn grid(tier: Tier) -> Vec<Case> {
    let mut v = Vec::new();
    let counts: Vec<(u8, u8)> = match tier {
        Tier::Quick => vec![(1, 1), (2, 2)],
        Tier::Thorough => vec![(1, 1), (2, 1), (1, 2), (2, 2), (3, 3)],
    };
    let moments: Vec<u8> = tier.pick(vec![1, 3], vec![1, 2, 5]);
    for (so, sw) in counts.iter().copied() {
        for k in moments.iter().copied() {
            // --- UDP, both backends
            for trk in [Trk::UdpMio, Trk::UdpUring] {
                for idx in 1..=so {
                    let t = format!("socket-{:02}", idx);
                    v.push(Case { trk, socket_workers: so, swarm_workers: 0, fault: probe("udp:socket:loop", &t, true), after_requests: k, uptime_before_fault_s: 0 });
                    v.push(Case { trk, socket_workers: so, swarm_workers: 0, fault: probe("udp:socket:loop", &t, false), after_requests: k, uptime_before_fault_s: 0 });
                }
                if sw == 1 {
                    for panic in [true, false] {
                        v.push(Case { trk, socket_workers: so, swarm_workers: 0, fault: probe("udp:cleaning:loop", "cleaning", panic), after_requests: k, uptime_before_fault_s: 0 });
                        v.push(Case { trk, socket_workers: so, swarm_workers: 0, fault: probe("udp:statistics:loop", "statistics", panic), after_requests: k, uptime_before_fault_s: 0 });
                        v.push(Case { trk, socket_workers: so, swarm_workers: 0, fault: probe("udp:signals:loop", "signals", panic), after_requests: k, uptime_before_fault_s: 0 });
                    }
                }
            }
            // --- HTTP
            for idx in 1..=so {
                let t = format!("socket-{:02}", idx);
                v.push(Case { trk: Trk::Http, socket_workers: so, swarm_workers: sw, fault: probe("http:socket:accept", &t, true), after_requests: k, uptime_before_fault_s: 0 });
                v.push(Case { trk: Trk::Http, socket_workers: so, swarm_workers: sw, fault: probe("http:socket:accept", &t, false), after_requests: k, uptime_before_fault_s: 0 });
                v.push(Case { trk: Trk::Http, socket_workers: so, swarm_workers: sw, fault: probe("http:socket:conn", &t, true), after_requests: k, uptime_before_fault_s: 0 });
            }
            for idx in 1..=sw {
                let t = format!("swarm-{:02}", idx);
                v.push(Case { trk: Trk::Http, socket_workers: so, swarm_workers: sw, fault: probe("http:swarm:request", &t, true), after_requests: k, uptime_before_fault_s: 0 });
                v.push(Case { trk: Trk::Http, socket_workers: so, swarm_workers: sw, fault: probe("http:swarm:clean", &t, true), after_requests: k, uptime_before_fault_s: 0 });
                if so == 1 {
                    v.push(Case { trk: Trk::Http, socket_workers: so, swarm_workers: sw, fault: probe("http:swarm:request", &t, false), after_requests: k, uptime_before_fault_s: 0 });
                }
            }
            // --- WS
            for idx in 1..=so {
                let t = format!("socket-{:02}", idx);
                v.push(Case { trk: Trk::Ws, socket_workers: so, swarm_workers: sw, fault: probe("ws:socket:accept", &t, true), after_requests: k, uptime_before_fault_s: 0 });
                v.push(Case { trk: Trk::Ws, socket_workers: so, swarm_workers: sw, fault: probe("ws:socket:accept", &t, false), after_requests: k, uptime_before_fault_s: 0 });
                v.push(Case { trk: Trk::Ws, socket_workers: so, swarm_workers: sw, fault: probe("ws:socket:conn", &t, true), after_requests: k, uptime_before_fault_s: 0 });
            }
            for idx in 1..=sw {
                let t = format!("swarm-{:02}", idx);
                v.push(Case { trk: Trk::Ws, socket_workers: so, swarm_workers: sw, fault: probe("ws:swarm:request", &t, true), after_requests: k, uptime_before_fault_s: 0 });
                v.push(Case { trk: Trk::Ws, socket_workers: so, swarm_workers: sw, fault: probe("ws:swarm:control", &t, true), after_requests: k, uptime_before_fault_s: 0 });
                v.push(Case { trk: Trk::Ws, socket_workers: so, swarm_workers: sw, fault: probe("ws:swarm:clean", &t, true), after_requests: k, uptime_before_fault_s: 0 });
            }
        }
        // --- faults at start and set-up failures (hook-free)
        for trk in [Trk::UdpMio, Trk::UdpUring, Trk::Http, Trk::Ws] {
            v.push(Case { trk, socket_workers: so, swarm_workers: sw, fault: Fault::UnbindableAddress, after_requests: 0, uptime_before_fault_s: 0 });
            v.push(Case { trk, socket_workers: so, swarm_workers: sw, fault: Fault::PrometheusPortOccupied, after_requests: 0, uptime_before_fault_s: 0 });
            let sig = match trk {
                Trk::UdpMio | Trk::UdpUring => "udp:signals:start",
                Trk::Http => "http:signals:start",
                Trk::Ws => "ws:signals:start",
            };
            for panic in [true, false] {
                v.push(Case { trk, socket_workers: so, swarm_workers: sw, fault: probe(sig, "signals", panic), after_requests: 0, uptime_before_fault_s: 0 });
            }
        }
        for trk in [Trk::UdpMio, Trk::UdpUring] {
            v.push(Case { trk, socket_workers: so, swarm_workers: sw, fault: probe("udp:socket:loop", "socket-01", true), after_requests: 0, uptime_before_fault_s: 0 });
            v.push(Case { trk, socket_workers: so, swarm_workers: sw, fault: probe("udp:cleaning:loop", "cleaning", false), after_requests: 0, uptime_before_fault_s: 0 });
        }
        v.push(Case { trk: Trk::Http, socket_workers: so, swarm_workers: sw, fault: Fault::ReverseProxyRequestWithoutHeader, after_requests: 2, uptime_before_fault_s: 0 });
        v.push(Case { trk: Trk::Http, socket_workers: so, swarm_workers: sw, fault: probe("http:swarm:clean", "swarm-01", true), after_requests: 0, uptime_before_fault_s: 0 });
        v.push(Case { trk: Trk::Ws, socket_workers: so, swarm_workers: sw, fault: probe("ws:swarm:clean", "swarm-01", true), after_requests: 0, uptime_before_fault_s: 0 });
    }
    let mut seen = std::collections::HashSet::new();
    v.retain(|c| seen.insert(c.clone()));
    v
}

/// Several workers stopping at (about) the same time - all socket workers unable to bind, every
/// worker of one kind hitting the fault within one pass of a supervision loop. Always run, in
/// both tiers.
pub fn simultaneous_grid(tier: Tier) -> Vec<Case> {
    let mut v = Vec::new();
    let counts: Vec<(u8, u8)> = tier.pick(vec![(2, 2), (3, 3)], vec![(2, 1), (2, 2), (3, 3), (4, 2)]);
    for (so, sw) in counts {
        for trk in [Trk::UdpMio, Trk::UdpUring, Trk::Http, Trk::Ws] {
            v.push(Case { trk, socket_workers: so, swarm_workers: sw, fault: Fault::UnbindableAddress, after_requests: 0, uptime_before_fault_s: 0 });
        }
        for trk in [Trk::UdpMio, Trk::UdpUring] {
            for (k, panic) in [(0u8, true), (1, true), (2, false)] {
                v.push(Case { trk, socket_workers: so, swarm_workers: 0, fault: probe("udp:socket:loop", "socket-*", panic), after_requests: k, uptime_before_fault_s: 0 });
            }
        }
        v.push(Case { trk: Trk::Http, socket_workers: so, swarm_workers: sw, fault: probe("http:swarm:clean", "swarm-*", true), after_requests: 0, uptime_before_fault_s: 0 });
        v.push(Case { trk: Trk::Http, socket_workers: so, swarm_workers: sw, fault: probe("http:socket:accept", "socket-*", true), after_requests: 1, uptime_before_fault_s: 0 });
        v.push(Case { trk: Trk::Ws, socket_workers: so, swarm_workers: sw, fault: probe("ws:swarm:clean", "swarm-*", true), after_requests: 0, uptime_before_fault_s: 0 });
        v.push(Case { trk: Trk::Ws, socket_workers: so, swarm_workers: sw, fault: probe("ws:socket:accept", "socket-*", true), after_requests: 1, uptime_before_fault_s: 0 });
    }
    v
}

/// Faults long after start-up (the supervision must not slow down or stop looking): the tracker
/// serves requests for `uptime` seconds first. "Any moment of its life" is sampled by a ladder of
/// uptimes (every 3 s from 11 s to 53 s in the quick tier, offset by the seed; every second from
/// 11 s to 130 s in the thorough tier), the worker kind rotating along the ladder. The cases
/// mostly sleep, so they all run in parallel; longest first.
pub fn late_grid(tier: Tier, seed: u64) -> Vec<Case> {
    let ups: Vec<u8> = match tier {
        Tier::Quick => (0..15u64).map(|i| (11 + 3 * i + seed % 3) as u8).collect(),
        Tier::Thorough => (11..=130u64).map(|u| u as u8).collect(),
    };
    let mut v = Vec::new();
    for (i, up) in ups.into_iter().enumerate() {
        let c = match (i as u64 + seed) % 7 {
            0 => Case { trk: Trk::UdpMio, socket_workers: 2, swarm_workers: 0, fault: probe("udp:socket:loop", "socket-02", true), after_requests: 1, uptime_before_fault_s: up },
            1 => Case { trk: Trk::UdpUring, socket_workers: 1, swarm_workers: 0, fault: probe("udp:socket:loop", "socket-01", false), after_requests: 1, uptime_before_fault_s: up },
            2 => Case { trk: Trk::UdpMio, socket_workers: 1, swarm_workers: 0, fault: probe("udp:cleaning:loop", "cleaning", true), after_requests: 1, uptime_before_fault_s: up },
            3 => Case { trk: Trk::Http, socket_workers: 2, swarm_workers: 2, fault: probe("http:swarm:request", "swarm-02", true), after_requests: 1, uptime_before_fault_s: up },
            4 => Case { trk: Trk::Http, socket_workers: 1, swarm_workers: 1, fault: probe("http:socket:accept", "socket-01", false), after_requests: 1, uptime_before_fault_s: up },
            5 => Case { trk: Trk::Ws, socket_workers: 2, swarm_workers: 2, fault: probe("ws:socket:conn", "socket-01", true), after_requests: 1, uptime_before_fault_s: up },
            _ => Case { trk: Trk::Ws, socket_workers: 1, swarm_workers: 2, fault: probe("ws:swarm:clean", "swarm-02", true), after_requests: 1, uptime_before_fault_s: up },
        };
        v.push(c);
    }
    v.sort_by(|a, b| b.uptime_before_fault_s.cmp(&a.uptime_before_fault_s));
    v
}


pub fn run(ctx: &mut Ctx) {
    ctx.confirm_runs = 2;
    ctx.assume("fault locations are the probe points of hooks H4-H6 (worker loop heads, detached connection tasks, cleaning timer tasks, signal loops) plus hook-free set-up failures; 'at any moment' is sampled by the number of requests served before the fault");
    ctx.assume("`return` faults are only injected where returning ends the worker function (UDP loops, single-listener HTTP/WS accept loop, HTTP swarm request stream with one socket worker)");
    ctx.run_regress::<Case, _>("faults", prop);
    let all = grid(ctx.tier);
    let early: Vec<Case> = match ctx.tier {
        Tier::Thorough => all,
        Tier::Quick => {
            // deterministic sample of the grid: every 3rd case, offset by the seed
            let off = (ctx.seed % 3) as usize;
            all.into_iter().enumerate().filter(|(i, _)| i % 3 == off).map(|(_, c)| c).collect()
        }
    };
    // the late cases sleep most of the time: start them first and give them their own threads
    let mut cases = late_grid(ctx.tier, ctx.seed);
    ctx.threads = (ctx.threads + cases.len().min(24)).min(40);
    cases.extend(simultaneous_grid(ctx.tier));
    cases.extend(early);
    let mut seen = std::collections::HashSet::new();
    cases.retain(|c| seen.insert(c.clone()));
    let exhaustive = ctx.tier == Tier::Thorough;
    ctx.run_enum("faults", cases, exhaustive, prop);
    for l in ["udp-mio", "udp-uring", "http", "ws", "panic", "return", "setup-failure", "fault-long-after-start", "several-workers-at-once"] {
        ctx.require_label("faults", l, 0.03);
    }
}

pub fn replay(path: &str, _sub: &str, case: serde_json::Value) -> i32 {
    replay_one::<Case, _>("C19", path, case, prop)
}
