//! C13 — UDP wire codec conforms to BEP 15 and round-trips (DESIGN.md §6 C13)

use std::num::NonZeroU16;

use aquatic_udp_protocol::*;
use proptest::prelude::*;
use serde::{Deserialize, Serialize};

use crate::codecs::*;
use crate::engine::*;
use crate::{vensure, vfail};

pub const RULE: &str = "generated BEP 15 messages (all kinds, boundary-biased fields, all four events, 0..409 scrape hashes (what an 8192-byte datagram holds) x max_scrape_torrents in {0,1,2,69,70,71,254,255}, 0..300 reply peers per family) checked three ways: aquatic write_bytes == independent encoder byte for byte; aquatic parse_bytes of independently encoded bytes == expected fields; parse(write(x)) == x; plus rejection cases (every truncation length, unknown action/event, wrong protocol id, port 0, empty or ragged hash list) against an independent acceptance rule. non-trivial = event Stopped, >=1 peer/hash, or a rejection case; distinct = distinct serialised case";

#[derive(Debug, Clone, Serialize, Deserialize)]
pub enum Case {
    Request {
        req: UReq,
        max_scrape: u8,
        /// extension bytes appended after an announce
        ext: Vec<u8>,
        mutation: Mutation,
    },
    Response {
        rsp: URsp,
    },
}

#[derive(Debug, Clone, Serialize, Deserialize, PartialEq)]
pub enum Mutation {
    None,
    /// keep only the first n bytes (n taken modulo len+1)
    Truncate(u16),
    Action(i32),
    Event(i32),
    ProtocolId(i64),
    PortZero,
    /// append k (1..19) bytes to a scrape so the hash list is ragged
    RaggedHashes(u8),
}

pub fn to_aquatic_request(r: &UReq) -> Option<Request> {
    Some(match r {
        UReq::Connect { tid } => Request::Connect(ConnectRequest {
            transaction_id: TransactionId::new(*tid),
        }),
        UReq::Announce {
            cid,
            tid,
            info_hash,
            peer_id,
            downloaded,
            left,
            uploaded,
            event,
            ip,
            key,
            numwant,
            port,
        } => Request::Announce(AnnounceRequest {
            connection_id: ConnectionId::new(*cid),
            action_placeholder: Default::default(),
            transaction_id: TransactionId::new(*tid),
            info_hash: InfoHash(*info_hash),
            peer_id: PeerId(*peer_id),
            bytes_downloaded: NumberOfBytes::new(*downloaded),
            bytes_left: NumberOfBytes::new(*left),
            bytes_uploaded: NumberOfBytes::new(*uploaded),
            event: match event {
                0 => AnnounceEvent::None,
                1 => AnnounceEvent::Completed,
                2 => AnnounceEvent::Started,
                3 => AnnounceEvent::Stopped,
                _ => return None,
            },
            ip_address: Ipv4AddrBytes(*ip),
            key: PeerKey::new(*key),
            peers_wanted: NumberOfPeers::new(*numwant),
            port: Port::new(NonZeroU16::new(*port)?),
        }),
        UReq::Scrape { cid, tid, hashes } => Request::Scrape(ScrapeRequest {
            connection_id: ConnectionId::new(*cid),
            transaction_id: TransactionId::new(*tid),
            info_hashes: hashes.iter().map(|h| InfoHash(*h)).collect(),
        }),
    })
}

pub fn from_aquatic_request(r: &Request) -> UReq {
    match r {
        Request::Connect(c) => UReq::Connect {
            tid: c.transaction_id.0.get(),
        },
        Request::Announce(a) => UReq::Announce {
            cid: a.connection_id.0.get(),
            tid: a.transaction_id.0.get(),
            info_hash: a.info_hash.0,
            peer_id: a.peer_id.0,
            downloaded: a.bytes_downloaded.0.get(),
            left: a.bytes_left.0.get(),
            uploaded: a.bytes_uploaded.0.get(),
            event: match a.event {
                AnnounceEvent::None => 0,
                AnnounceEvent::Completed => 1,
                AnnounceEvent::Started => 2,
                AnnounceEvent::Stopped => 3,
            },
            ip: a.ip_address.0,
            key: a.key.0.get(),
            numwant: a.peers_wanted.0.get(),
            port: a.port.0.get(),
        },
        Request::Scrape(s) => UReq::Scrape {
            cid: s.connection_id.0.get(),
            tid: s.transaction_id.0.get(),
            hashes: s.info_hashes.iter().map(|h| h.0).collect(),
        },
    }
}

pub fn to_aquatic_response(r: &URsp) -> Response {
    match r {
        URsp::Connect { tid, cid } => Response::Connect(ConnectResponse {
            transaction_id: TransactionId::new(*tid),
            connection_id: ConnectionId::new(*cid),
        }),
        URsp::Announce4 {
            tid,
            interval,
            leechers,
            seeders,
            peers,
        } => Response::AnnounceIpv4(AnnounceResponse {
            fixed: AnnounceResponseFixedData {
                transaction_id: TransactionId::new(*tid),
                announce_interval: AnnounceInterval::new(*interval),
                leechers: NumberOfPeers::new(*leechers),
                seeders: NumberOfPeers::new(*seeders),
            },
            peers: peers
                .iter()
                .map(|(ip, port)| ResponsePeer {
                    ip_address: Ipv4AddrBytes(*ip),
                    port: Port(zerocopy_u16(*port)),
                })
                .collect(),
        }),
        URsp::Announce6 {
            tid,
            interval,
            leechers,
            seeders,
            peers,
        } => Response::AnnounceIpv6(AnnounceResponse {
            fixed: AnnounceResponseFixedData {
                transaction_id: TransactionId::new(*tid),
                announce_interval: AnnounceInterval::new(*interval),
                leechers: NumberOfPeers::new(*leechers),
                seeders: NumberOfPeers::new(*seeders),
            },
            peers: peers
                .iter()
                .map(|(ip, port)| ResponsePeer {
                    ip_address: Ipv6AddrBytes(*ip),
                    port: Port(zerocopy_u16(*port)),
                })
                .collect(),
        }),
        URsp::Scrape { tid, stats } => Response::Scrape(ScrapeResponse {
            transaction_id: TransactionId::new(*tid),
            torrent_stats: stats
                .iter()
                .map(|(s, c, l)| TorrentScrapeStatistics {
                    seeders: NumberOfPeers::new(*s),
                    completed: NumberOfDownloads::new(*c),
                    leechers: NumberOfPeers::new(*l),
                })
                .collect(),
        }),
        URsp::Error { tid, message } => Response::Error(ErrorResponse {
            transaction_id: TransactionId::new(*tid),
            message: message.clone().into(),
        }),
    }
}

fn zerocopy_u16(v: u16) -> zerocopy::network_endian::U16 {
    zerocopy::network_endian::U16::new(v)
}

pub fn from_aquatic_response(r: &Response) -> URsp {
    match r {
        Response::Connect(c) => URsp::Connect {
            tid: c.transaction_id.0.get(),
            cid: c.connection_id.0.get(),
        },
        Response::AnnounceIpv4(a) => URsp::Announce4 {
            tid: a.fixed.transaction_id.0.get(),
            interval: a.fixed.announce_interval.0.get(),
            leechers: a.fixed.leechers.0.get(),
            seeders: a.fixed.seeders.0.get(),
            peers: a
                .peers
                .iter()
                .map(|p| (p.ip_address.0, p.port.0.get()))
                .collect(),
        },
        Response::AnnounceIpv6(a) => URsp::Announce6 {
            tid: a.fixed.transaction_id.0.get(),
            interval: a.fixed.announce_interval.0.get(),
            leechers: a.fixed.leechers.0.get(),
            seeders: a.fixed.seeders.0.get(),
            peers: a
                .peers
                .iter()
                .map(|p| (p.ip_address.0, p.port.0.get()))
                .collect(),
        },
        Response::Scrape(s) => URsp::Scrape {
            tid: s.transaction_id.0.get(),
            stats: s
                .torrent_stats
                .iter()
                .map(|t| (t.seeders.0.get(), t.completed.0.get(), t.leechers.0.get()))
                .collect(),
        },
        Response::Error(e) => URsp::Error {
            tid: e.transaction_id.0.get(),
            message: e.message.to_string(),
        },
    }
}

pub fn prop(case: &Case) -> CaseResult {
    let mut out = Outcome::default();
    match case {
        Case::Request {
            req,
            max_scrape,
            ext,
            mutation,
        } => {
            let mut wire = bep15_encode_request(req);
            let is_announce = matches!(req, UReq::Announce { .. });
            if *mutation == Mutation::None {
                // 1. encoder conformance
                let aq = to_aquatic_request(req).expect("generator produces valid values");
                let mut got = Vec::new();
                aq.write_bytes(&mut got)
                    .map_err(|e| Violation::new("write-error", format!("write_bytes failed: {e}")))?;
                out.checks += 1;
                vensure!(
                    got == wire,
                    "encode-mismatch",
                    "write_bytes produced {:02x?}, BEP 15 layout is {:02x?} for {:?}",
                    got,
                    wire,
                    req
                );
                // 3. round trip through aquatic alone (u8::MAX so nothing is cut)
                if !matches!(req, UReq::Scrape { hashes, .. } if hashes.is_empty()) {
                    let back = Request::parse_bytes(&got, u8::MAX).map_err(|e| {
                        Violation::new("roundtrip-rejected", format!("parse(write(x)) rejected: {:?} for {:?}", e, req))
                    })?;
                    out.checks += 1;
                    // the parser's limit is a u8: at most 255 hashes survive a round trip
                    let expect_back = match &aq {
                        Request::Scrape(s) if s.info_hashes.len() > 255 => Request::Scrape(ScrapeRequest {
                            connection_id: s.connection_id,
                            transaction_id: s.transaction_id,
                            info_hashes: s.info_hashes[..255].to_vec(),
                        }),
                        other => other.clone(),
                    };
                    vensure!(
                        back == expect_back,
                        "roundtrip-mismatch",
                        "parse(write(x)) = {:?}, x = {:?}",
                        back,
                        aq
                    );
                }
                if is_announce {
                    wire.extend_from_slice(ext);
                    if !ext.is_empty() {
                        out.label("announce+extension");
                    }
                }
            } else {
                out.label("rejection-case");
            }
            match mutation {
                Mutation::None => {}
                Mutation::Truncate(n) => {
                    let n = (*n as usize) % (wire.len() + 1);
                    wire.truncate(n);
                }
                Mutation::Action(a) => {
                    if wire.len() >= 12 {
                        wire[8..12].copy_from_slice(&a.to_be_bytes());
                    }
                }
                Mutation::Event(e) => {
                    if is_announce {
                        wire[80..84].copy_from_slice(&e.to_be_bytes());
                    }
                }
                Mutation::ProtocolId(p) => {
                    if matches!(req, UReq::Connect { .. }) {
                        wire[0..8].copy_from_slice(&p.to_be_bytes());
                    }
                }
                Mutation::PortZero => {
                    if is_announce {
                        wire[96..98].copy_from_slice(&[0, 0]);
                    }
                }
                Mutation::RaggedHashes(k) => {
                    if matches!(req, UReq::Scrape { .. }) {
                        let k = 1 + (*k as usize % 19);
                        wire.extend(std::iter::repeat(0xAB).take(k));
                    }
                }
            }
            // 2. decoder conformance against the independent decoder
            let want = bep15_decode_request(&wire, *max_scrape as usize);
            // a connect request followed by extra bytes, or an action-mutated message that now
            // looks like another kind, is judged by the same reference rule
            let got = Request::parse_bytes(&wire, *max_scrape);
            out.checks += 1;
            match (&want, &got) {
                (Ok(w), Ok(g)) => {
                    let g = from_aquatic_request(g);
                    vensure!(
                        g == *w,
                        "decode-mismatch",
                        "parse_bytes = {:?}, BEP 15 reading = {:?} (wire {:02x?}, max_scrape {})",
                        g,
                        w,
                        wire,
                        max_scrape
                    );
                }
                (Err(_), Err(_)) => {}
                (Ok(w), Err(e)) => vfail!(
                    "decode-rejected-conforming",
                    "conforming datagram rejected: {:?}; expected {:?} (wire {:02x?})",
                    e,
                    w,
                    wire
                ),
                (Err(why), Ok(g)) => vfail!(
                    "decode-accepted-malformed",
                    "datagram that must be rejected ({}) was accepted as {:?} (wire {:02x?})",
                    why,
                    g,
                    wire
                ),
            }
            match req {
                UReq::Announce { event: 3, .. } => {
                    out.label("event-stopped");
                    out.nontrivial = true;
                }
                UReq::Scrape { hashes, .. } if !hashes.is_empty() => {
                    out.label("scrape-hashes");
                    if hashes.len() > *max_scrape as usize {
                        out.label("scrape-cut");
                    }
                    out.nontrivial = true;
                }
                _ => {}
            }
            if *mutation != Mutation::None {
                out.nontrivial = true;
                if want.is_err() {
                    out.label("rejected");
                }
            }
        }
        Case::Response { rsp } => {
            let wire = bep15_encode_response(rsp);
            let aq = to_aquatic_response(rsp);
            let mut got = Vec::new();
            aq.write_bytes(&mut got)
                .map_err(|e| Violation::new("write-error", format!("write_bytes failed: {e}")))?;
            out.checks += 3;
            vensure!(
                got == wire,
                "encode-mismatch",
                "response write_bytes produced {:02x?}, BEP 15 layout is {:02x?} for {:?}",
                &got[..got.len().min(64)],
                &wire[..wire.len().min(64)],
                rsp
            );
            let ipv4 = !matches!(rsp, URsp::Announce6 { .. });
            let parsed = Response::parse_bytes(&wire, ipv4).map_err(|e| {
                Violation::new("decode-rejected-conforming", format!("conforming reply rejected: {e} ({:?})", rsp))
            })?;
            vensure!(
                from_aquatic_response(&parsed) == *rsp,
                "decode-mismatch",
                "response parse_bytes = {:?}, expected {:?}",
                parsed,
                rsp
            );
            vensure!(
                parsed == aq,
                "roundtrip-mismatch",
                "parse(write(x)) = {:?}, x = {:?}",
                parsed,
                aq
            );
            // the independent decoder agrees with the independent encoder (self-check of the oracle)
            debug_assert_eq!(bep15_decode_response(&wire, ipv4).ok().as_ref(), Some(rsp));
            match rsp {
                URsp::Announce4 { peers, .. } if !peers.is_empty() => {
                    out.label("peers4");
                    out.nontrivial = true;
                }
                URsp::Announce6 { peers, .. } if !peers.is_empty() => {
                    out.label("peers6");
                    out.nontrivial = true;
                }
                URsp::Scrape { stats, .. } if !stats.is_empty() => {
                    out.label("scrape-stats");
                    out.nontrivial = true;
                }
                URsp::Error { .. } => {
                    out.label("error");
                    out.nontrivial = true;
                }
                _ => {}
            }
        }
    }
    Ok(out)
}

pub fn i32b() -> impl Strategy<Value = i32> + Clone {
    prop_oneof![
        Just(0),
        Just(1),
        Just(-1),
        Just(i32::MIN),
        Just(i32::MAX),
        Just(0x01020304),
        any::<i32>()
    ]
}
pub fn i64b() -> impl Strategy<Value = i64> + Clone {
    prop_oneof![
        Just(0),
        Just(1),
        Just(-1),
        Just(i64::MIN),
        Just(i64::MAX),
        Just(0x0102030405060708),
        any::<i64>()
    ]
}

fn req_strategy(max_hashes: usize) -> impl Strategy<Value = UReq> {
    prop_oneof![
        1 => i32b().prop_map(|tid| UReq::Connect { tid }),
        4 => (
            (i64b(), i32b(), any::<[u8; 20]>(), any::<[u8; 20]>()),
            (i64b(), i64b(), i64b(), 0i32..4),
            (any::<[u8; 4]>(), i32b(), i32b(), prop_oneof![Just(1u16), Just(u16::MAX), Just(0x0102u16), 1u16..=u16::MAX])
        )
            .prop_map(|((cid, tid, info_hash, peer_id), (downloaded, left, uploaded, event), (ip, key, numwant, port))| {
                UReq::Announce { cid, tid, info_hash, peer_id, downloaded, left, uploaded, event, ip, key, numwant, port }
            }),
        3 => (i64b(), i32b(), proptest::collection::vec(any::<[u8; 20]>(), 1..=max_hashes))
            .prop_map(|(cid, tid, hashes)| UReq::Scrape { cid, tid, hashes }),
        // up to what the 8192 byte receive buffer takes: (8192 - 16) / 20 = 408 hashes
        1 => (i64b(), i32b(), prop_oneof![Just(255usize), Just(256usize), Just(257usize), Just(300usize), Just(325usize), Just(408usize), 250usize..=409], any::<u8>())
            .prop_map(|(cid, tid, n, b)| UReq::Scrape { cid, tid, hashes: (0..n).map(|i| { let mut h = [b; 20]; h[0] = (i % 256) as u8; h[1] = (i / 256) as u8; h }).collect() }),
    ]
}

fn strategy(tier: Tier) -> impl Strategy<Value = Case> {
    let max_hashes = tier.pick(80, 255);
    let max_peers = tier.pick(60, 300);
    let request = (
        req_strategy(max_hashes),
        prop_oneof![Just(0u8), Just(1u8), Just(2u8), Just(69u8), Just(70u8), Just(71u8), Just(254u8), Just(255u8)],
        proptest::collection::vec(any::<u8>(), 0..64),
        prop_oneof![
            6 => Just(Mutation::None),
            3 => any::<u16>().prop_map(Mutation::Truncate),
            1 => prop_oneof![Just(3), Just(-1), Just(i32::MAX), Just(4), Just(256), any::<i32>()].prop_map(Mutation::Action),
            1 => prop_oneof![Just(4), Just(-1), Just(i32::MIN), Just(0x01000000), any::<i32>()].prop_map(Mutation::Event),
            1 => prop_oneof![Just(BEP15_MAGIC + 1), Just(BEP15_MAGIC - 1), Just(0), any::<i64>()].prop_map(Mutation::ProtocolId),
            1 => Just(Mutation::PortZero),
            1 => any::<u8>().prop_map(Mutation::RaggedHashes),
        ],
    )
        .prop_map(|(req, max_scrape, ext, mutation)| Case::Request { req, max_scrape, ext, mutation });
    let response = prop_oneof![
        1 => (i32b(), i64b()).prop_map(|(tid, cid)| URsp::Connect { tid, cid }),
        2 => (i32b(), i32b(), i32b(), i32b(), proptest::collection::vec((any::<[u8; 4]>(), any::<u16>()), 0..max_peers))
            .prop_map(|(tid, interval, leechers, seeders, peers)| URsp::Announce4 { tid, interval, leechers, seeders, peers }),
        2 => (i32b(), i32b(), i32b(), i32b(), proptest::collection::vec((any::<[u8; 16]>(), any::<u16>()), 0..max_peers))
            .prop_map(|(tid, interval, leechers, seeders, peers)| URsp::Announce6 { tid, interval, leechers, seeders, peers }),
        2 => (i32b(), proptest::collection::vec((i32b(), i32b(), i32b()), 0..max_hashes))
            .prop_map(|(tid, stats)| URsp::Scrape { tid, stats }),
        1 => (i32b(), prop_oneof![Just(String::new()), "[ -~]{0,40}", "\\PC{0,300}"])
            .prop_map(|(tid, message)| URsp::Error { tid, message }),
    ]
    .prop_map(|rsp| Case::Response { rsp });
    prop_oneof![3 => request, 2 => response]
}

/// every truncation length of a few fixed messages + every (hash count, max) pair: enumerated
fn enumerated() -> Vec<Case> {
    let mut v = Vec::new();
    let ann = UReq::Announce {
        cid: 0x0102030405060708,
        tid: 0x0a0b0c0d,
        info_hash: [0x11; 20],
        peer_id: [0x22; 20],
        downloaded: 1,
        left: 2,
        uploaded: 3,
        event: 3,
        ip: [1, 2, 3, 4],
        key: 5,
        numwant: -1,
        port: 6881,
    };
    for n in 0..=98u16 {
        v.push(Case::Request { req: ann.clone(), max_scrape: 70, ext: vec![], mutation: Mutation::Truncate(n) });
    }
    for n in 0..=16u16 {
        v.push(Case::Request { req: UReq::Connect { tid: 7 }, max_scrape: 70, ext: vec![], mutation: Mutation::Truncate(n) });
    }
    for k in [0usize, 1, 2, 3, 69, 70, 71, 254, 255, 256, 257, 300, 325, 326, 408, 409] {
        for max in [0u8, 1, 2, 69, 70, 71, 254, 255] {
            let hashes: Vec<[u8; 20]> = (0..k).map(|i| [i as u8; 20]).collect();
            let req = UReq::Scrape { cid: 9, tid: 10, hashes };
            v.push(Case::Request { req: req.clone(), max_scrape: max, ext: vec![], mutation: if k == 0 { Mutation::Truncate(u16::MAX) } else { Mutation::None } });
            if k <= 3 {
                let len = 16 + 20 * k;
                for n in 0..=len as u16 {
                    // Truncate(n) with n <= len keeps n bytes
                    v.push(Case::Request { req: req.clone(), max_scrape: max, ext: vec![], mutation: Mutation::Truncate(n) });
                }
            }
        }
    }
    for e in 0..4 {
        let mut a = ann.clone();
        if let UReq::Announce { event, .. } = &mut a {
            *event = e;
        }
        for ext_len in [0usize, 1, 2, 63, 64, 400] {
            v.push(Case::Request { req: a.clone(), max_scrape: 1, ext: vec![0x5a; ext_len], mutation: Mutation::None });
        }
    }
    v
}

pub fn run(ctx: &mut Ctx) {
    ctx.assume("BEP 15 layout as transcribed in codecs.rs (offsets literal); IPv6 announce replies use 18-byte entries (BEP 15 IPv6 extension)");
    ctx.run_regress::<Case, _>("codec", prop);
    ctx.run_enum("boundaries", enumerated(), true, prop);
    let tier = ctx.tier;
    ctx.run_prop("codec", tier.pick(400_000, 6_000_000), move || strategy(tier), prop);
    ctx.require_label("codec", "event-stopped", 0.02);
    ctx.require_label("codec", "rejected", 0.05);
    ctx.require_label("codec", "scrape-cut", 0.02);
    ctx.require_label("codec", "announce+extension", 0.02);
}

pub fn replay(path: &str, _sub: &str, case: serde_json::Value) -> i32 {
    replay_one::<Case, _>("C13", path, case, prop)
}
