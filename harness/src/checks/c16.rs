//! C16 — HTTP tracker: one well-framed reply per request; workers are invisible (DESIGN.md §6 C16)

use std::collections::{BTreeMap, BTreeSet};
use std::net::{IpAddr, SocketAddr};
use std::sync::atomic::{AtomicU32, Ordering};
use std::sync::{Arc, Mutex, OnceLock};
use std::time::Duration;

use proptest::prelude::*;
use serde::{Deserialize, Serialize};

use crate::codecs::*;
use crate::e2e::*;
use crate::engine::*;
use crate::models::*;
use crate::{vensure, vfail};

pub const RULE: &str = "histories over up to 6 simultaneously open TCP connections (from 127.0.0.1..3 and ::1) to running aquatic_http trackers with socket_workers x swarm_workers in {1,2,3}^2, keep_alive on/off, max_scrape_torrents in {2,100}, max_peers in {2,50}: announces and scrapes (1..65 hashes, repeated, spread over all swarm workers) sent only after the previous reply on that connection arrived, requests split into 1..3 TCP segments at generated offsets, 0..12 extra headers, interleaved malformed and 3 KiB requests on other connections; several harness threads drive the same tracker concurrently on disjoint torrents. Oracle: strict reader (status line HTTP/1.1 200 OK, numeric Content-Length, exactly that many bytes = canonical bencode + CRLF, no stray bytes before the next request), one reply per request in order, keep-alive on => reusable / off => EOF, body == reference model S for ONE logical tracker (counts exact, peers by the C02 rule, scrape = first max_scrape_torrents requested once each), and connections other than the one carrying a malformed/oversized request keep working. non-trivial = >= 2 connections active and a scrape spanning >= 2 swarm workers, a kept-alive connection reused, or a split request; distinct = distinct serialised history";

const IPS: [&str; 4] = ["127.0.0.1", "127.0.0.2", "127.0.0.3", "::1"];

#[derive(Debug, Clone, Copy, Serialize, Deserialize, PartialEq, Eq, Hash, PartialOrd, Ord)]
pub struct Spec {
    pub socket_workers: u8,
    pub swarm_workers: u8,
    pub keep_alive: bool,
    pub max_scrape: u16,
    pub max_peers: u16,
}

#[derive(Debug, Clone, Serialize, Deserialize)]
pub enum Op {
    Open { ip: u8 },
    Announce { conn: u8, t: u8, port: u16, event: u8, left: u8, numwant: Option<u32>, split: Vec<u16>, extra_headers: u8 },
    Scrape { conn: u8, hashes: Vec<u8>, split: Vec<u16> },
    Malformed { conn: u8, kind: u8 },
    Close { conn: u8 },
}

#[derive(Debug, Clone, Serialize, Deserialize)]
pub struct Case {
    pub spec: Spec,
    pub ops: Vec<Op>,
}

static TRACKERS: OnceLock<Mutex<BTreeMap<Spec, Result<Arc<Tracker>, String>>>> = OnceLock::new();
static CASE_COUNTER: AtomicU32 = AtomicU32::new(1);

fn tracker_for(spec: Spec) -> Result<Arc<Tracker>, String> {
    let map = TRACKERS.get_or_init(|| Mutex::new(BTreeMap::new()));
    let mut g = map.lock().unwrap();
    g.entry(spec)
        .or_insert_with(|| {
            start_http(|port| {
                let mut c = http_config(port, spec.socket_workers as usize, spec.swarm_workers as usize);
                c.network.keep_alive = spec.keep_alive;
                c.protocol.max_scrape_torrents = spec.max_scrape as usize;
                c.protocol.max_peers = spec.max_peers as usize;
                c.cleaning.torrent_cleaning_interval = 100_000;
                c.cleaning.max_peer_age = 100_000;
                c
            })
            .map(Arc::new)
        })
        .clone()
}

/// 20 unreserved ASCII characters; first byte spreads torrents over swarm workers
pub fn ascii_hash(case_id: u32, t: u8) -> Hash20 {
    let mut h = [b'x'; 20];
    h[0] = b'a' + (t % 24);
    let mut v = case_id;
    for i in 0..7 {
        let d = (v % 36) as u8;
        h[1 + i] = if d < 10 { b'0' + d } else { b'a' + d - 10 };
        v /= 36;
    }
    h[19] = b'A' + (t % 24);
    h[18] = b'0' + (t / 24);
    h
}

struct Conn {
    client: HttpClient,
    ip: IpAddr,
    usable: bool,
    replies: u32,
}

fn split_send(c: &mut HttpClient, bytes: &[u8], split: &[u16]) -> Result<bool, String> {
    let mut cuts: Vec<usize> = split.iter().map(|s| *s as usize % bytes.len().max(1)).filter(|c| *c > 0).collect();
    cuts.sort();
    cuts.dedup();
    let mut segs: Vec<&[u8]> = Vec::new();
    let mut last = 0;
    for cut in &cuts {
        segs.push(&bytes[last..*cut]);
        last = *cut;
    }
    segs.push(&bytes[last..]);
    c.send_segments(&segs)?;
    Ok(segs.len() > 1)
}

fn int_of(b: Option<&Ben>) -> Option<i128> {
    match b {
        Some(Ben::Int(i)) => Some(*i),
        _ => None,
    }
}

pub fn prop(case: &Case) -> CaseResult {
    let mut out = Outcome::default();
    let tracker = match tracker_for(case.spec) {
        Ok(t) => t,
        Err(e) => return Err(Violation::new("inconclusive-tracker-start", format!("{:?}: {e}", case.spec))),
    };
    if tracker.finished() {
        return Err(Violation::new("tracker-died", format!("tracker {:?} is no longer running", case.spec)));
    }
    let port = tracker.port;
    let case_id = CASE_COUNTER.fetch_add(1, Ordering::Relaxed);
    let mut conns: Vec<Conn> = Vec::new();
    let mut model = SwarmModel::default();
    let timeout = crate::e2e::reply_wait();
    let max_peers = case.spec.max_peers as usize;
    let max_scrape = case.spec.max_scrape as usize;
    let swarm_workers = case.spec.swarm_workers as usize;

    let open_conn = |ip_idx: u8| -> Result<Conn, Violation> {
        let ip: IpAddr = IPS[ip_idx as usize % IPS.len()].parse().unwrap();
        let to: SocketAddr = if ip.is_ipv4() { (std::net::Ipv4Addr::LOCALHOST, port).into() } else { (std::net::Ipv6Addr::LOCALHOST, port).into() };
        let client = HttpClient::connect(ip, to).map_err(|e| Violation::new("inconclusive-connect", e))?;
        Ok(Conn { client, ip, usable: true, replies: 0 })
    };

    // one reply, strictly framed; returns the bencode body (without the trailing CRLF)
    fn read_one(conn: &mut Conn, step: usize, what: &str, timeout: Duration) -> Result<Vec<u8>, Violation> {
        match conn.client.read_reply(timeout) {
            HttpRead::Ok { body, head } => {
                if body.len() < 2 || &body[body.len() - 2..] != b"\r\n" {
                    return Err(Violation::new("body-framing", format!("step {step}: body of {} bytes does not end in CRLF (head {:?})", body.len(), head)));
                }
                conn.replies += 1;
                Ok(body[..body.len() - 2].to_vec())
            }
            HttpRead::Eof => Err(Violation::new("connection-closed-without-reply", format!("step {step}: connection closed without a reply to {what}"))),
            HttpRead::Malformed(m) => Err(Violation::new("reply-malformed", format!("step {step}: reply to {what} is not well-framed: {m}"))),
            HttpRead::Timeout => Err(Violation::new("no-reply", format!("step {step}: no reply to {what} within the reply wait (20 s)"))),
        }
    }

    for (step, op) in case.ops.iter().enumerate() {
        let usable: Vec<usize> = (0..conns.len()).filter(|i| conns[*i].usable).collect();
        match op {
            Op::Open { ip } => {
                if usable.len() < 6 {
                    conns.push(open_conn(*ip)?);
                }
            }
            Op::Close { conn } => {
                if !usable.is_empty() {
                    let ci = usable[*conn as usize % usable.len()];
                    conns[ci].usable = false;
                    let _ = conns[ci].client.stream.shutdown(std::net::Shutdown::Both);
                }
            }
            Op::Malformed { conn, kind } => {
                if usable.len() >= 2 {
                    let ci = usable[*conn as usize % usable.len()];
                    let bytes: Vec<u8> = match kind % 6 {
                        0 => b"GET /nothing?x=1 HTTP/1.1\r\nHost: x\r\n\r\n".to_vec(),
                        1 => b"GET /announce?info_hash=short&peer_id=x&port=1 HTTP/1.1\r\n\r\n".to_vec(),
                        2 => b"\x00\x01\x02garbage\r\n\r\n".to_vec(),
                        3 => {
                            let mut v = b"GET /announce?".to_vec();
                            v.extend(std::iter::repeat(b'a').take(3 * 1024));
                            v.extend_from_slice(b" HTTP/1.1\r\n\r\n");
                            v
                        }
                        4 => b"POST /announce HTTP/1.1\r\nContent-Length: 5\r\n\r\nhello".to_vec(),
                        _ => b"GET /scrape? HTTP/1.1\r\n\r\n".to_vec(),
                    };
                    let _ = conns[ci].client.send_segments(&[&bytes]);
                    conns[ci].usable = false; // only its own connection may be affected: never used again
                    out.label("malformed-on-other-connection");
                }
            }
            Op::Announce { conn, t, port: aport, event, left, numwant, split, extra_headers } => {
                if usable.is_empty() {
                    continue;
                }
                let ci = usable[*conn as usize % usable.len()];
                let hash = ascii_hash(case_id, *t % 6);
                let hs = std::str::from_utf8(&hash).unwrap().to_string();
                let ev = match event % 4 {
                    0 => "",
                    1 => "&event=started",
                    2 => "&event=stopped",
                    _ => "&event=completed",
                };
                let mut req = format!(
                    "GET /announce?info_hash={hs}&peer_id=-TR2940-abcdefghijk{}&port={aport}&uploaded=0&downloaded=0&left={}{ev}",
                    (b'a' + (ci as u8 % 26)) as char,
                    left % 2
                );
                if let Some(n) = numwant {
                    req.push_str(&format!("&numwant={n}"));
                }
                req.push_str("&compact=1 HTTP/1.1\r\nHost: localhost\r\n");
                for i in 0..(*extra_headers % 13) {
                    req.push_str(&format!("X-Extra-{i}: v{i}\r\n"));
                }
                req.push_str("\r\n");
                let stray = conns[ci].client.stray_bytes();
                vensure!(stray.is_empty(), "stray-bytes", "step {step}: {} stray bytes on the connection before the next request: {:?}", stray.len(), String::from_utf8_lossy(&stray[..stray.len().min(80)]));
                let was_split = split_send(&mut conns[ci].client, req.as_bytes(), split).map_err(|e| Violation::new("inconclusive-send", e))?;
                let ip = conns[ci].ip;
                let exp = model.announce(hash, ip, *aport, event % 4 == 2, left % 2 == 0, u64::MAX, [0; 20]);
                let body = read_one(&mut conns[ci], step, "an announce", timeout)?;
                let tree = ben_parse_strict(&body).map_err(|e| Violation::new("body-not-canonical-bencode", format!("step {step}: {e}: {:?}", String::from_utf8_lossy(&body))))?;
                out.checks += 3;
                if let Some(Ben::Bytes(reason)) = tree.get(b"failure reason") {
                    vfail!("unexpected-failure-reply", "step {step}: failure reply {:?}", String::from_utf8_lossy(reason));
                }
                let (c, i, iv) = (int_of(tree.get(b"complete")), int_of(tree.get(b"incomplete")), int_of(tree.get(b"interval")));
                vensure!(
                    c == Some(exp.seeders as i128) && i == Some(exp.leechers as i128),
                    "announce-counts",
                    "step {step}: complete/incomplete {:?}/{:?}, one reference tracker says {}/{} (spec {:?})",
                    c,
                    i,
                    exp.seeders,
                    exp.leechers,
                    case.spec
                );
                vensure!(iv == Some(120), "announce-interval", "step {step}: interval {:?}", iv);
                let (p4, p6) = match (tree.get(b"peers"), tree.get(b"peers6")) {
                    (Some(Ben::Bytes(a)), Some(Ben::Bytes(b))) => (a.clone(), b.clone()),
                    _ => vfail!("body-shape", "step {step}: peers/peers6 missing"),
                };
                vensure!(p4.len() % 6 == 0 && p6.len() % 18 == 0, "compact-entry-size", "step {step}: peers {} bytes, peers6 {} bytes", p4.len(), p6.len());
                let list: Vec<PKey> = if ip.is_ipv4() {
                    vensure!(p6.is_empty(), "peer-list-wrong-family", "step {step}: v4 announcer got peers6");
                    p4.chunks(6).map(|c| PKey { ip: IpAddr::V4([c[0], c[1], c[2], c[3]].into()), port: u16::from_be_bytes([c[4], c[5]]) }).collect()
                } else {
                    vensure!(p4.is_empty(), "peer-list-wrong-family", "step {step}: v6 announcer got v4 peers");
                    p6.chunks(18).map(|c| { let mut a = [0u8; 16]; a.copy_from_slice(&c[..16]); PKey { ip: IpAddr::V6(a.into()), port: u16::from_be_bytes([c[16], c[17]]) } }).collect()
                };
                let limit = match numwant {
                    None | Some(0) => max_peers,
                    Some(n) => (*n as usize).min(max_peers),
                };
                let requester = PKey { ip, port: *aport };
                if let Err((kind, msg)) = check_peer_list(&list, &exp.others, Some(&requester), limit, false) {
                    return Err(Violation::new(&kind, format!("step {step}: {msg}")));
                }
                after_reply(&mut conns[ci], case.spec.keep_alive, step, &mut out)?;
                if was_split {
                    out.label("split-request");
                    out.nontrivial = true;
                }
                out.label("announce");
            }
            Op::Scrape { conn, hashes, split } => {
                if usable.is_empty() || hashes.is_empty() {
                    continue;
                }
                let ci = usable[*conn as usize % usable.len()];
                let hs: Vec<Hash20> = hashes.iter().map(|t| ascii_hash(case_id, if hashes.len() >= 50 { *t } else { *t % 8 })).collect();
                let q: Vec<String> = hs.iter().map(|h| format!("info_hash={}", std::str::from_utf8(h).unwrap())).collect();
                let req = format!("GET /scrape?{} HTTP/1.1\r\nHost: localhost\r\n\r\n", q.join("&"));
                if req.len() > 2040 {
                    continue; // does not fit the documented 2048 byte request buffer
                }
                let stray = conns[ci].client.stray_bytes();
                vensure!(stray.is_empty(), "stray-bytes", "step {step}: {} stray bytes before the next request", stray.len());
                let was_split = split_send(&mut conns[ci].client, req.as_bytes(), split).map_err(|e| Violation::new("inconclusive-send", e))?;
                let is_v4 = conns[ci].ip.is_ipv4();
                let body = read_one(&mut conns[ci], step, &format!("a scrape of {} hashes", hs.len()), timeout)?;
                let tree = ben_parse_strict(&body).map_err(|e| Violation::new("body-not-canonical-bencode", format!("step {step}: {e}")))?;
                let files = match tree.get(b"files") {
                    Some(Ben::Dict(d)) => d.clone(),
                    _ => vfail!("body-shape", "step {step}: scrape reply without files dict: {:?}", String::from_utf8_lossy(&body)),
                };
                let mut want: BTreeMap<Vec<u8>, (i128, i128)> = BTreeMap::new();
                for hsh in hs.iter().take(max_scrape) {
                    let (s, l) = model.scrape(is_v4, hsh);
                    want.insert(hsh.to_vec(), (s as i128, l as i128));
                }
                let mut got: BTreeMap<Vec<u8>, (i128, i128)> = BTreeMap::new();
                for (k, v) in files {
                    let c = int_of(v.get(b"complete"));
                    let i = int_of(v.get(b"incomplete"));
                    let d = int_of(v.get(b"downloaded"));
                    vensure!(c.is_some() && i.is_some() && d == Some(0), "body-shape", "step {step}: scrape entry malformed");
                    got.insert(k, (c.unwrap(), i.unwrap()));
                }
                out.checks += 1;
                vensure!(
                    got == want,
                    "scrape-content",
                    "step {step}: scrape of {} hashes (limit {}, {} swarm workers) lists {} torrents {:?}; one reference tracker lists the first {} requested: {:?}",
                    hs.len(),
                    max_scrape,
                    swarm_workers,
                    got.len(),
                    got.iter().map(|(k, v)| (String::from_utf8_lossy(k).to_string(), *v)).collect::<Vec<_>>(),
                    max_scrape.min(hs.len()),
                    want.iter().map(|(k, v)| (String::from_utf8_lossy(k).to_string(), *v)).collect::<Vec<_>>()
                );
                after_reply(&mut conns[ci], case.spec.keep_alive, step, &mut out)?;
                let workers: BTreeSet<usize> = hs.iter().map(|h| h[0] as usize % swarm_workers).collect();
                if workers.len() >= 2 && conns.iter().filter(|c| c.usable).count() >= 2 {
                    out.label("scrape-spanning-workers");
                    out.nontrivial = true;
                }
                if hs.len() >= 50 {
                    out.label("long-scrape");
                }
                if was_split {
                    out.label("split-request");
                    out.nontrivial = true;
                }
                out.label("scrape");
            }
        }
    }
    Ok(out)
}

fn after_reply(conn: &mut Conn, keep_alive: bool, step: usize, out: &mut Outcome) -> Result<(), Violation> {
    if keep_alive {
        if conn.replies >= 2 {
            out.label("kept-alive-reused");
            out.nontrivial = true;
        }
    } else {
        out.checks += 1;
        if !conn.client.wait_eof(crate::e2e::reply_wait()) {
            return Err(Violation::new("no-eof-without-keep-alive", format!("step {step}: keep_alive is off but the connection stayed open after the reply")));
        }
        conn.usable = false;
        out.label("closed-after-reply");
    }
    Ok(())
}

fn op() -> impl Strategy<Value = Op> {
    let split = prop_oneof![4 => Just(vec![]), 1 => proptest::collection::vec(any::<u16>(), 1..3)];
    prop_oneof![
        3 => (0u8..4).prop_map(|ip| Op::Open { ip }),
        12 => (0u8..8, 0u8..6, prop_oneof![Just(1000u16), Just(1001u16), 1u16..=u16::MAX], 0u8..4, 0u8..2,
               prop_oneof![3 => Just(None), 1 => Just(Some(0u32)), 1 => Just(Some(1u32)), 1 => Just(Some(3u32)), 1 => any::<u32>().prop_map(Some)],
               split.clone(), prop_oneof![3 => Just(0u8), 1 => 0u8..13])
            .prop_map(|(conn, t, port, event, left, numwant, split, extra_headers)| Op::Announce { conn, t, port, event, left, numwant, split, extra_headers }),
        5 => (0u8..8, prop_oneof![6 => proptest::collection::vec(0u8..8, 1..8), 1 => (50usize..66, any::<u8>()).prop_map(|(n, off)| (0..n).map(|i| ((off as usize + i * 3) % 200) as u8).collect::<Vec<u8>>())], split)
            .prop_map(|(conn, hashes, split)| Op::Scrape { conn, hashes, split }),
        1 => (0u8..8, 0u8..6).prop_map(|(conn, kind)| Op::Malformed { conn, kind }),
        1 => (0u8..8).prop_map(|conn| Op::Close { conn }),
    ]
}

fn case_strategy(specs: Vec<Spec>, max_len: usize) -> impl Strategy<Value = Case> {
    (proptest::sample::select(specs), proptest::collection::vec(0u8..4, 2..4), proptest::collection::vec(op(), 1..max_len)).prop_map(|(spec, opens, ops)| {
        let mut all: Vec<Op> = opens.into_iter().map(|ip| Op::Open { ip }).collect();
        all.extend(ops);
        Case { spec, ops: all }
    })
}

pub fn specs(tier: Tier) -> Vec<Spec> {
    let mut v = vec![
        Spec { socket_workers: 1, swarm_workers: 1, keep_alive: true, max_scrape: 100, max_peers: 50 },
        Spec { socket_workers: 2, swarm_workers: 3, keep_alive: true, max_scrape: 2, max_peers: 2 },
        Spec { socket_workers: 3, swarm_workers: 2, keep_alive: false, max_scrape: 100, max_peers: 50 },
        Spec { socket_workers: 3, swarm_workers: 3, keep_alive: true, max_scrape: 100, max_peers: 2 },
    ];
    if tier == Tier::Thorough {
        for sw in 1..=3u8 {
            for so in 1..=3u8 {
                for ka in [true, false] {
                    let s = Spec { socket_workers: so, swarm_workers: sw, keep_alive: ka, max_scrape: if (sw + so) % 2 == 0 { 2 } else { 100 }, max_peers: if so % 2 == 0 { 2 } else { 50 } };
                    if !v.contains(&s) {
                        v.push(s);
                    }
                }
            }
        }
    }
    v
}

pub fn run(ctx: &mut Ctx) {
    ctx.confirm_runs = 2;
    ctx.assume("which socket worker accepts a connection is the kernel's SO_REUSEPORT choice: sampled, not controlled; within one history requests are issued sequentially (the reference answer is then unique), concurrency comes from several harness threads driving the same tracker on disjoint torrents");
    ctx.assume("pipelining, > 16 headers and requests over 2048 bytes are outside the stated domain; TLS is not exercised");
    ctx.run_regress::<Case, _>("http", prop);
    let tier = ctx.tier;
    let sp = specs(tier);
    let n = tier.pick(2_000, 40_000);
    let threads = ctx.threads.min(8);
    ctx.run_prop_threads("http", n, threads, move || case_strategy(sp.clone(), tier.pick(20, 50)), prop);
    for l in ["announce", "scrape", "scrape-spanning-workers", "kept-alive-reused", "closed-after-reply", "split-request", "malformed-on-other-connection", "long-scrape"] {
        ctx.require_label("http", l, 0.03);
    }
}

pub fn replay(path: &str, _sub: &str, case: serde_json::Value) -> i32 {
    replay_one::<Case, _>("C16", path, case, prop)
}
