//! C07 — HTTP swarm bookkeeping equals a reference tracker (DESIGN.md §6 C07)

use crate::engine::*;
use crate::httpdrv::*;

pub const RULE: &str = "(hist) histories vec(op) of announce/scrape/clean/observe over 4 torrents, 3 source kinds (v4, v6, v4-mapped) x up to 4 IPs x 6 ports, HTTP option shapes (numwant None/Some(0)/../usize::MAX, left usize, event incl. Empty), scrapes with repeated hashes and longer than max_scrape_torrents in {0,1,3,100}, cleans through the real clean() under the mock clock; interpreted against aquatic_http's TorrentMaps (verif_api) and reference model S after every step, torrent count compared after every clean; non-trivial = history crosses the inline(<=4)<->heap switch, flips a seeder flag, stops an existing key, or scrapes past the limit / a repeated hash; distinct = distinct serialised history; (big-swarm) the same interpreter and oracle on one torrent with a key domain of 50 IPs x 40 ports per source kind, 1600-3200 (quick) / 3000-6000 (thorough) operations and lifetimes up to 3000 s, so that swarms exceed 255 peers and 255 seeders per family and replies are limited far below the swarm size";

pub fn prop(case: &HttpCase) -> CaseResult {
    let mut o = run_http_case(case, false)?;
    o.nontrivial = o.labels.iter().any(|l| {
        matches!(
            l.as_str(),
            "inline->heap"
                | "heap->inline-by-stop"
                | "heap->inline-by-clean"
                | "seeder-flag-flip"
                | "stop-existing"
                | "scrape>limit"
                | "scrape-repeated-hash"
        )
    });
    Ok(o)
}

pub fn params(tier: Tier) -> HttpGen {
    HttpGen {
        stop_w: 3,
        clean_w: 3,
        torrents: 4,
        max_ops: tier.pick(70, 250),
        ips: tier.pick(4, 12),
        ports: 6,
        access_list: false,
        max_ttl: 4,
    }
}

pub fn run(ctx: &mut Ctx) {
    ctx.assume("storage is reached through the feature-gated re-export of the private module; the swarm worker calls exactly handle_announce_request / handle_scrape_request / clean (read from workers/swarm/mod.rs)");
    ctx.assume("clean() reads ServerStartInstant::seconds_elapsed, which returns the thread-local mock value under feature verif");
    ctx.run_regress::<HttpCase, _>("hist", prop);
    let p = params(ctx.tier);
    let n = ctx.tier.pick(200_000, 4_000_000);
    ctx.run_prop("hist", n, move || http_case(p), prop);
    for l in [
        "inline->heap",
        "heap->inline-by-stop",
        "heap->inline-by-clean",
        "seeder-flag-flip",
        "stop-existing",
        "scrape>limit",
        "scrape-repeated-hash",
    ] {
        ctx.require_label("hist", l, 0.01);
    }
    // swarms of hundreds of peers in one torrent (counters beyond u8, replies far below swarm size)
    let big = HttpGen { max_ops: ctx.tier.pick(3200, 6000), ips: 50, ports: 40, max_ttl: 3000, ..p };
    ctx.run_prop("big-swarm", ctx.tier.pick(240, 5000), move || crate::httpdrv::http_big_swarm(big), prop);
    ctx.require_label("big-swarm", "swarm>255", 0.5);
    ctx.require_label("big-swarm", "seeders>255", 0.03);
}

pub fn replay(path: &str, _sub: &str, case: serde_json::Value) -> i32 {
    replay_one::<HttpCase, _>("C07", path, case, prop)
}
