//! C06 — UDP request/reply contract: one reply, to the sender, no amplification (DESIGN.md §6 C06)

use std::collections::{BTreeMap, HashMap};
use std::net::IpAddr;
use std::sync::atomic::{AtomicU32, Ordering};
use std::sync::{Arc, Mutex, OnceLock};
use std::time::Duration;

use proptest::prelude::*;
use serde::{Deserialize, Serialize};

use crate::codecs::*;
use crate::e2e::*;
use crate::engine::*;
use crate::models::*;
use crate::{vensure, vfail};

pub const RULE: &str = "histories of datagrams sent from 6 loopback client sockets (127.0.0.1 twice, 127.0.0.2, 127.0.0.3, ::1 twice) to running trackers (mio and io_uring backends, 1 and 3 socket workers, max_scrape_torrents in {3, 70}, plus one tracker with max_connection_age = 0 so every id is stale): well-formed connect / announce (4 events, port 0 allowed) / scrape (1..408 hashes, repeated, unknown) carrying an id that is own / issued to another socket on the same IP (valid) / issued to another IP / bit-flipped / random / zero, structure-aware mutations (truncate, extend, bit flips, action/event out of range, protocol id off by one, ragged hash list) and random bytes. Every sent datagram gets a unique transaction id; after each one the same socket sends a fence (connect) and all sockets are drained. Oracle per datagram: replies attributed by transaction id: at most one, only on the sending socket, none for unparseable input or an id not valid for the source IP, exactly one of the right kind (connect 16 bytes <= request; announce of the sender's family with counts/peers equal to reference model S built from the valid announces; scrape with exactly min(n, max) entries in request order; error only with a valid id) for well-formed requests. non-trivial = foreign/forged/stale id, a sendable parse error, a mutated message; distinct = distinct serialised history; two (quick) / five (thorough) of the trackers run with an access list file (deny mode listing torrent index 3 of every case, allow mode listing indices 0-2, 400000 cases each): an announce for a refused torrent - incl. every bit-flipped hash in allow mode - gets exactly one error reply with a valid id and silence without, and creates no state";

const IPS: [&str; 6] = ["127.0.0.1", "127.0.0.1", "127.0.0.2", "127.0.0.3", "::1", "::1"];

#[derive(Debug, Clone, Copy, Serialize, Deserialize, PartialEq, Eq, Hash, PartialOrd, Ord)]
pub struct TrackerSpec {
    pub uring: bool,
    pub workers: u8,
    pub max_scrape: u8,
    pub stale_ids: bool,
    /// access list: 0 off, 1 deny mode listing torrent index 3 of every case, 2 allow mode
    /// listing torrent indices 0..=2 of every case (index 3 and every mutated hash are refused)
    #[serde(default)]
    pub access: u8,
}

#[derive(Debug, Clone, Serialize, Deserialize)]
pub enum IdSrc {
    Own,
    /// id most recently issued to another client socket (index offset)
    OfClient(u8),
    Random(i64),
    BitFlip(u8),
    Zero,
}

#[derive(Debug, Clone, Serialize, Deserialize)]
pub enum Kind {
    Connect,
    Announce { t: u8, event: u8, left: i64, numwant: i32, port: u16 },
    Scrape { hashes: Vec<u8> },
    Random(Vec<u8>),
}

#[derive(Debug, Clone, Serialize, Deserialize, PartialEq)]
pub enum Mutn {
    None,
    Truncate(u16),
    Extend(u16),
    FlipBits(Vec<u16>),
    Action(i32),
    Event(i32),
    ProtocolId(i8),
    Ragged(u8),
}

#[derive(Debug, Clone, Serialize, Deserialize)]
pub struct Dg {
    pub client: u8,
    pub kind: Kind,
    pub id: IdSrc,
    pub mutation: Mutn,
}

#[derive(Debug, Clone, Serialize, Deserialize)]
pub struct Case {
    pub tracker: TrackerSpec,
    pub datagrams: Vec<Dg>,
}

struct Running {
    tracker: Tracker,
    _list_file: Option<tempfile::NamedTempFile>,
}

/// case ids whose torrents are written into the access list files
const LISTED_CASES: u32 = 400_000;

/// Is `h` one of the hashes written into the list file of an `access` tracker? (structural: the
/// file holds torrent(cid, t) for cid in 1..=LISTED_CASES and the mode's torrent indices)
fn listed(access: u8, h: &Hash20) -> bool {
    let cid = u32::from_be_bytes([h[1], h[2], h[3], h[4]]);
    let t = h[5];
    let in_mode = match access {
        1 => t == 3,
        2 => t <= 2,
        _ => false,
    };
    in_mode && cid >= 1 && cid <= LISTED_CASES && *h == torrent(cid, t)
}

fn refused(access: u8, h: &Hash20) -> bool {
    match access {
        1 => listed(1, h),
        2 => !listed(2, h),
        _ => false,
    }
}

fn write_list_file(access: u8) -> Result<tempfile::NamedTempFile, String> {
    use std::io::Write;
    let mut f = tempfile::Builder::new().prefix("vcheck-c06-list-").tempfile().map_err(|e| e.to_string())?;
    {
        let mut w = std::io::BufWriter::new(f.as_file_mut());
        let ts: &[u8] = if access == 1 { &[3] } else { &[0, 1, 2] };
        for cid in 1..=LISTED_CASES {
            for t in ts {
                let h = torrent(cid, *t);
                let mut line = [0u8; 41];
                for (i, b) in h.iter().enumerate() {
                    line[2 * i] = b"0123456789abcdef"[(b >> 4) as usize];
                    line[2 * i + 1] = b"0123456789abcdef"[(b & 15) as usize];
                }
                line[40] = b'\n';
                w.write_all(&line).map_err(|e| e.to_string())?;
            }
        }
        w.flush().map_err(|e| e.to_string())?;
    }
    Ok(f)
}

static TRACKERS: OnceLock<Mutex<BTreeMap<TrackerSpec, Result<Arc<Running>, String>>>> = OnceLock::new();
static CASE_COUNTER: AtomicU32 = AtomicU32::new(1);
static TID: AtomicU32 = AtomicU32::new(0x0100_0000);

fn tracker_for(spec: TrackerSpec) -> Result<Arc<Running>, String> {
    let map = TRACKERS.get_or_init(|| Mutex::new(BTreeMap::new()));
    let mut g = map.lock().unwrap();
    g.entry(spec)
        .or_insert_with(|| {
            let list_file = if spec.access != 0 { Some(write_list_file(spec.access)?) } else { None };
            let list_path = list_file.as_ref().map(|f| f.path().to_path_buf());
            start_udp(|port| {
                let mut c = udp_config(port, SocketMode::Both, spec.uring, spec.workers as usize);
                c.protocol.max_scrape_torrents = spec.max_scrape;
                c.cleaning.torrent_cleaning_interval = 100_000;
                c.cleaning.max_peer_age = 100_000;
                if spec.stale_ids {
                    c.cleaning.max_connection_age = 0;
                }
                if let Some(p) = &list_path {
                    c.access_list.mode = if spec.access == 1 { aquatic_common::access_list::AccessListMode::Deny } else { aquatic_common::access_list::AccessListMode::Allow };
                    c.access_list.path = p.clone();
                }
                c
            })
            .map(|tracker| Arc::new(Running { tracker, _list_file: list_file }))
        })
        .clone()
}

fn next_tid() -> i32 {
    TID.fetch_add(1, Ordering::Relaxed) as i32
}

fn torrent(case_id: u32, t: u8) -> Hash20 {
    let mut h = [0u8; 20];
    h[0] = t.wrapping_mul(17);
    h[1..5].copy_from_slice(&case_id.to_be_bytes());
    h[5] = t;
    h[6..14].copy_from_slice(b"c06-e2e!");
    h
}

#[derive(Debug)]
enum Expect {
    None(&'static str),
    /// at most one, and only of this class
    AtMostOneError,
    /// exactly one error reply (announce of a torrent the access list refuses, valid id)
    OneError,
    AtMostOneConnect,
    Connect,
    Announce { seeders: usize, leechers: usize, others: std::collections::BTreeSet<PKey>, requester: PKey, limit: usize, v4: bool },
    Scrape { stats: Vec<(usize, usize)> },
}

pub fn prop(case: &Case) -> CaseResult {
    let mut out = Outcome::default();
    let running = match tracker_for(case.tracker) {
        Ok(r) => r,
        Err(e) => return Err(Violation::new("inconclusive-tracker-start", format!("{:?}: {e}", case.tracker))),
    };
    if running.tracker.finished() {
        return Err(Violation::new("tracker-died", format!("tracker {:?} is no longer running", case.tracker)));
    }
    let port = running.tracker.port;
    let case_id = CASE_COUNTER.fetch_add(1, Ordering::Relaxed);
    let mut clients = Vec::new();
    for ip in IPS {
        let ip: IpAddr = ip.parse().unwrap();
        clients.push(UdpClient::new(ip, port).map_err(|e| Violation::new("inconclusive-client", e))?);
    }
    let mut ids: Vec<Option<i64>> = vec![None; clients.len()];
    let mut model = SwarmModel::default();
    let max_scrape = case.tracker.max_scrape as usize;
    let timeout = crate::e2e::reply_wait();

    // every client obtains an id first (part of the history)
    let mut prelude: Vec<Dg> = (0..clients.len() as u8)
        .map(|c| Dg { client: c, kind: Kind::Connect, id: IdSrc::Own, mutation: Mutn::None })
        .collect();
    prelude.extend(case.datagrams.iter().cloned());

    for (step, dg) in prelude.iter().enumerate() {
        let ci = dg.client as usize % clients.len();
        let c = &clients[ci];
        let v4 = c.canonical_ip.is_ipv4();
        // connection id to put into the datagram, and whether it is valid for this source
        let own = ids[ci];
        let (cid, cid_valid): (i64, bool) = match &dg.id {
            IdSrc::Own => (own.unwrap_or(0), own.is_some()),
            IdSrc::OfClient(k) => {
                let oi = (ci + 1 + *k as usize % (clients.len() - 1)) % clients.len();
                match ids[oi] {
                    Some(id) => (id, clients[oi].canonical_ip == c.canonical_ip),
                    None => (0, false),
                }
            }
            IdSrc::Random(r) => (*r, false),
            IdSrc::BitFlip(b) => (own.unwrap_or(0) ^ (1i64 << (*b % 64)), false),
            IdSrc::Zero => (0, false),
        };
        // a random/flipped id can coincide with a valid one only with negligible probability;
        // ids equal to a valid one are treated as valid
        let cid_valid = (cid_valid || ids.iter().zip(clients.iter()).any(|(i, cl)| *i == Some(cid) && cl.canonical_ip == c.canonical_ip)) && !case.tracker.stale_ids;
        let tid = next_tid();
        let mut wire = match &dg.kind {
            Kind::Connect => bep15_encode_request(&UReq::Connect { tid }),
            Kind::Announce { t, event, left, numwant, port } => bep15_encode_request(&UReq::Announce {
                cid,
                tid,
                info_hash: torrent(case_id, *t % 4),
                peer_id: peer_id_for(ci as u8),
                downloaded: 0,
                left: *left,
                uploaded: 0,
                event: (*event % 4) as i32,
                ip: [1, 2, 3, 4],
                key: 0,
                numwant: *numwant,
                port: *port,
            }),
            Kind::Scrape { hashes } => bep15_encode_request(&UReq::Scrape { cid, tid, hashes: hashes.iter().map(|t| torrent(case_id, *t % 6)).collect() }),
            Kind::Random(b) => b.clone(),
        };
        match &dg.mutation {
            Mutn::None => {}
            Mutn::Truncate(n) => {
                let n = *n as usize % (wire.len() + 1);
                wire.truncate(n);
            }
            Mutn::Extend(n) => wire.extend(std::iter::repeat(0x5a).take(1 + *n as usize % 400)),
            Mutn::FlipBits(bits) => {
                for b in bits {
                    if !wire.is_empty() {
                        let i = *b as usize % (wire.len() * 8);
                        wire[i / 8] ^= 1 << (i % 8);
                    }
                }
            }
            Mutn::Action(a) => {
                if wire.len() >= 12 {
                    wire[8..12].copy_from_slice(&a.to_be_bytes());
                }
            }
            Mutn::Event(e) => {
                if wire.len() >= 98 {
                    wire[80..84].copy_from_slice(&e.to_be_bytes());
                }
            }
            Mutn::ProtocolId(d) => {
                if matches!(dg.kind, Kind::Connect) {
                    wire[0..8].copy_from_slice(&(BEP15_MAGIC + *d as i64).to_be_bytes());
                }
            }
            Mutn::Ragged(k) => {
                if matches!(dg.kind, Kind::Scrape { .. }) {
                    wire.extend(std::iter::repeat(0xAB).take(1 + *k as usize % 19));
                }
            }
        }
        // The tracker's receive buffers take 8192 payload bytes (mio: BUFFER_SIZE; io_uring:
        // BUFFER_SIZE + 64 incl. the message header): a longer datagram is cut by the kernel and
        // what the tracker *receives* is its first 8192 bytes. The harness sends and judges
        // exactly those bytes.
        if wire.len() > 8192 {
            wire.truncate(8192);
            out.label("cut-to-receive-buffer");
        }
        // keep mutated info hashes inside this case's private hash space (bytes 1..5 of every
        // hash carry the case id): a flipped bit there would address another case's torrent
        match &dg.kind {
            Kind::Announce { .. } if wire.len() >= 21 => wire[17..21].copy_from_slice(&case_id.to_be_bytes()),
            Kind::Scrape { .. } => {
                let mut k = 0;
                while wire.len() >= 16 + 20 * k + 5 {
                    wire[16 + 20 * k + 1..16 + 20 * k + 5].copy_from_slice(&case_id.to_be_bytes());
                    k += 1;
                }
            }
            _ => {}
        }
        // unique transaction id after mutation (when the datagram has room for one)
        let has_tid = wire.len() >= 16;
        if has_tid {
            wire[12..16].copy_from_slice(&tid.to_be_bytes());
        }
        if wire.is_empty() {
            continue; // an empty datagram cannot be told apart from nothing; skip
        }
        // the id actually on the wire (mutations may have changed it)
        let wire_cid = if wire.len() >= 8 { i64::from_be_bytes(wire[0..8].try_into().unwrap()) } else { 0 };
        let wire_cid_valid = !case.tracker.stale_ids
            && ids.iter().zip(clients.iter()).any(|(i, cl)| *i == Some(wire_cid) && cl.canonical_ip == c.canonical_ip);
        let _ = cid_valid;

        // ---- expectation from the independent decoder
        let decoded = bep15_decode_request(&wire, max_scrape);
        let expect = match &decoded {
            Ok(UReq::Connect { .. }) => {
                if wire.len() == 16 {
                    Expect::Connect
                } else {
                    Expect::AtMostOneConnect
                }
            }
            Ok(UReq::Announce { info_hash, left, event, numwant, port: p, peer_id, .. }) => {
                if wire_cid_valid && refused(case.tracker.access, info_hash) {
                    // refused by the access list: an error reply, no state
                    Expect::OneError
                } else if wire_cid_valid {
                    let exp = model.announce(*info_hash, c.canonical_ip, *p, *event == 3, *left == 0, u64::MAX, *peer_id);
                    let limit = if *numwant <= 0 { 30 } else { (*numwant as usize).min(30) };
                    Expect::Announce {
                        seeders: exp.seeders,
                        leechers: exp.leechers,
                        others: exp.others,
                        requester: PKey { ip: c.canonical_ip, port: *p },
                        limit,
                        v4,
                    }
                } else {
                    Expect::None("announce without an id valid for this source")
                }
            }
            Ok(UReq::Scrape { hashes, .. }) => {
                if wire_cid_valid {
                    Expect::Scrape { stats: hashes.iter().map(|h| model.scrape(v4, h)).collect() }
                } else {
                    Expect::None("scrape without an id valid for this source")
                }
            }
            Err(why) => {
                // sendable parse errors (port 0, empty / ragged hash list) may be answered with an
                // error, but only to a holder of a valid id
                let sendable = matches!(*why, "port 0" | "empty hash list" | "hash list not a multiple of 20");
                if sendable && wire_cid_valid {
                    Expect::AtMostOneError
                } else {
                    Expect::None("malformed datagram / no valid id")
                }
            }
        };

        // ---- send, fence, collect
        c.send(&wire).map_err(|e| Violation::new("inconclusive-send", e))?;
        let fence_tid = next_tid();
        c.send(&bep15_encode_request(&UReq::Connect { tid: fence_tid })).map_err(|e| Violation::new("inconclusive-send", e))?;
        let mut replies: Vec<Vec<u8>> = Vec::new();
        let mut fence_seen = false;
        let start = std::time::Instant::now();
        while !fence_seen {
            let left = timeout.saturating_sub(start.elapsed());
            if left.is_zero() {
                return Err(Violation::new(
                    "inconclusive-fence-timeout",
                    format!("step {step}: no reply to the fence connect request within the reply wait (20 s) on {:?}", case.tracker),
                ));
            }
            match c.recv(left) {
                Some((bytes, from)) => {
                    vensure!(from.port() == port, "reply-from-wrong-port", "step {step}: datagram from {from}");
                    if bytes.len() >= 8 && i32::from_be_bytes(bytes[4..8].try_into().unwrap()) == fence_tid {
                        fence_seen = true;
                        // fence replies also refresh nothing: ids stay as they are
                    } else {
                        replies.push(bytes);
                    }
                }
                None => {}
            }
        }
        // nothing may arrive on any other socket
        for (oi, other) in clients.iter().enumerate() {
            if oi == ci {
                continue;
            }
            if let Some((bytes, _)) = other.try_recv() {
                vfail!(
                    "reply-to-wrong-socket",
                    "step {step}: datagram sent from client {ci} ({}) caused a datagram at client {oi} ({}): {:02x?}",
                    c.local,
                    other.local,
                    &bytes[..bytes.len().min(32)]
                );
            }
        }
        out.checks += 1;
        // replies must carry this datagram's transaction id
        for r in &replies {
            let rtid = if r.len() >= 8 { Some(i32::from_be_bytes(r[4..8].try_into().unwrap())) } else { None };
            vensure!(
                has_tid && rtid == Some(tid),
                "reply-transaction-id",
                "step {step}: reply with transaction id {:?} while the datagram sent carried {:?} ({:?}, {} bytes)",
                rtid,
                if has_tid { Some(tid) } else { None },
                dg,
                wire.len()
            );
        }
        vensure!(
            replies.len() <= 1,
            "more-than-one-reply",
            "step {step}: {} datagrams in reply to one ({:?})",
            replies.len(),
            dg
        );
        let reply = replies.first();
        let parsed = reply.map(|r| bep15_decode_response(r, v4));
        match (&expect, parsed) {
            (Expect::None(why), Some(p)) => vfail!(
                "reply-without-valid-id-or-to-malformed",
                "step {step}: expected silence ({why}) but got {:?} for {:?} (wire {} bytes, id valid for source: {})",
                p,
                dg,
                wire.len(),
                wire_cid_valid
            ),
            (Expect::None(_), None) => {
                out.label("silence");
            }
            (Expect::AtMostOneError, None) | (Expect::AtMostOneConnect, None) => {}
            (Expect::AtMostOneError, Some(Ok(URsp::Error { .. }))) => {
                out.label("error-reply");
            }
            (Expect::AtMostOneError, Some(other)) => vfail!("wrong-reply-kind", "step {step}: sendable parse error answered with {:?}", other),
            (Expect::OneError, Some(Ok(URsp::Error { .. }))) => {
                out.label("access-list-refusal");
                out.nontrivial = true;
            }
            (Expect::OneError, other) => vfail!("wrong-reply-kind", "step {step}: announce with a valid id for a torrent the access list refuses ({:?}) must get exactly one error reply, got {:?}", dg, other),
            (Expect::AtMostOneConnect, Some(Ok(URsp::Connect { .. }))) => {}
            (Expect::AtMostOneConnect, Some(other)) => vfail!("wrong-reply-kind", "step {step}: over-long connect answered with {:?}", other),
            (Expect::Connect, Some(Ok(URsp::Connect { cid, .. }))) => {
                let r = reply.unwrap();
                vensure!(r.len() == 16 && r.len() <= wire.len(), "connect-reply-size", "step {step}: connect reply {} bytes for a {} byte request", r.len(), wire.len());
                ids[ci] = Some(cid);
                out.label("connect");
            }
            (Expect::Announce { seeders, leechers, others, requester, limit, v4 }, Some(Ok(rsp))) => {
                let (s, l, peers): (i32, i32, Vec<PKey>) = match (&rsp, *v4) {
                    (URsp::Announce4 { seeders, leechers, peers, .. }, true) => {
                        (*seeders, *leechers, peers.iter().map(|(ip, p)| PKey { ip: IpAddr::V4((*ip).into()), port: *p }).collect())
                    }
                    (URsp::Announce6 { seeders, leechers, peers, .. }, false) => {
                        (*seeders, *leechers, peers.iter().map(|(ip, p)| PKey { ip: IpAddr::V6((*ip).into()), port: *p }).collect())
                    }
                    (other, _) => vfail!("wrong-reply-kind", "step {step}: announce from {} answered with {:?}", c.local, other),
                };
                vensure!(
                    s as usize == *seeders && l as usize == *leechers,
                    "announce-counts",
                    "step {step}: announce reply seeders/leechers {s}/{l}, reference {seeders}/{leechers}"
                );
                if let Err((kind, msg)) = check_peer_list(&peers, others, Some(requester), *limit, false) {
                    return Err(Violation::new(&kind, format!("step {step}: {msg}")));
                }
                out.label("announce");
            }
            (Expect::Scrape { stats }, Some(Ok(URsp::Scrape { stats: got, .. }))) => {
                let got2: Vec<(usize, usize)> = got.iter().map(|(s, _, l)| (*s as usize, *l as usize)).collect();
                vensure!(
                    got2 == *stats,
                    "scrape-content",
                    "step {step}: scrape reply has {} entries {:?}; expected exactly the first min(n, {}) requested torrents in order: {:?}",
                    got.len(),
                    got2,
                    max_scrape,
                    stats
                );
                out.label("scrape");
            }
            (exp, Some(Ok(other))) => vfail!("wrong-reply-kind", "step {step}: expected {:?}, got {:?}", exp, other),
            (exp, Some(Err(e))) => vfail!("reply-unparseable", "step {step}: expected {:?}, reply does not parse: {e}", exp),
            (exp, None) => {
                return Err(Violation::new(
                    "no-reply",
                    format!(
                        "step {step}: no reply to a well-formed request carrying a valid id before the fence was answered: {:?} ({} bytes, expected {:?}) on {:?}",
                        dg,
                        wire.len(),
                        exp,
                        case.tracker
                    ),
                ));
            }
        }
        // labels
        if step >= clients.len() {
            match &dg.id {
                IdSrc::OfClient(_) if !wire_cid_valid => {
                    out.label("foreign-ip-id");
                    out.nontrivial = true;
                }
                IdSrc::OfClient(_) => {
                    out.label("same-ip-other-socket-id");
                }
                IdSrc::Random(_) | IdSrc::BitFlip(_) | IdSrc::Zero => {
                    out.label("forged-id");
                    out.nontrivial = true;
                }
                IdSrc::Own => {}
            }
            if dg.mutation != Mutn::None {
                out.label("mutated");
                out.nontrivial = true;
            }
            if matches!(expect, Expect::AtMostOneError) {
                out.label("sendable-parse-error");
                out.nontrivial = true;
            }
            if case.tracker.stale_ids {
                out.label("stale-ids");
                out.nontrivial = true;
            }
        }
    }
    out.label(if case.tracker.uring { "uring" } else { "mio" });
    Ok(out)
}

fn dg() -> impl Strategy<Value = Dg> {
    let kind = prop_oneof![
        2 => Just(Kind::Connect),
        6 => (0u8..4, 0u8..4, prop_oneof![Just(0i64), Just(1i64), any::<i64>()], prop_oneof![Just(0), Just(-1), Just(1), Just(50), any::<i32>()], prop_oneof![6 => 1u16..=u16::MAX, 1 => Just(0u16)])
            .prop_map(|(t, event, left, numwant, port)| Kind::Announce { t, event, left, numwant, port }),
        4 => prop_oneof![
            4 => proptest::collection::vec(0u8..6, 1..8),
            1 => proptest::collection::vec(0u8..6, 8..23),
            // as many as a datagram can carry (the receive buffer takes 408)
            1 => prop_oneof![Just(255usize), Just(256usize), Just(257usize), Just(300usize), 250usize..=408].prop_map(|n| (0..n).map(|i| (i % 6) as u8).collect::<Vec<u8>>()),
            1 => Just(vec![]),
        ].prop_map(|hashes| Kind::Scrape { hashes }),
        1 => prop_oneof![proptest::collection::vec(any::<u8>(), 0..40), proptest::collection::vec(any::<u8>(), 0..1500)].prop_map(Kind::Random),
    ];
    let id = prop_oneof![
        8 => Just(IdSrc::Own),
        4 => (0u8..5).prop_map(IdSrc::OfClient),
        1 => any::<i64>().prop_map(IdSrc::Random),
        1 => (0u8..64).prop_map(IdSrc::BitFlip),
        1 => Just(IdSrc::Zero),
    ];
    let mutation = prop_oneof![
        10 => Just(Mutn::None),
        2 => any::<u16>().prop_map(Mutn::Truncate),
        1 => any::<u16>().prop_map(Mutn::Extend),
        1 => proptest::collection::vec(any::<u16>(), 1..4).prop_map(Mutn::FlipBits),
        1 => prop_oneof![Just(3), Just(4), Just(-1), any::<i32>()].prop_map(Mutn::Action),
        1 => prop_oneof![Just(4), Just(-1), any::<i32>()].prop_map(Mutn::Event),
        1 => prop_oneof![Just(1i8), Just(-1i8)].prop_map(Mutn::ProtocolId),
        1 => any::<u8>().prop_map(Mutn::Ragged),
    ];
    (0u8..6, kind, id, mutation).prop_map(|(client, kind, id, mutation)| Dg { client, kind, id, mutation })
}

fn case_strategy(specs: Vec<TrackerSpec>, max_len: usize) -> impl Strategy<Value = Case> {
    (proptest::sample::select(specs), proptest::collection::vec(dg(), 1..max_len)).prop_map(|(tracker, datagrams)| Case { tracker, datagrams })
}

pub fn specs(tier: Tier) -> Vec<TrackerSpec> {
    let mut v = vec![
        TrackerSpec { uring: false, workers: 1, max_scrape: 70, stale_ids: false, access: 0 },
        TrackerSpec { uring: false, workers: 3, max_scrape: 3, stale_ids: false, access: 0 },
        TrackerSpec { uring: true, workers: 1, max_scrape: 3, stale_ids: false, access: 0 },
        TrackerSpec { uring: true, workers: 3, max_scrape: 70, stale_ids: false, access: 0 },
        TrackerSpec { uring: false, workers: 1, max_scrape: 70, stale_ids: true, access: 0 },
        TrackerSpec { uring: false, workers: 3, max_scrape: 70, stale_ids: false, access: 1 },
        TrackerSpec { uring: true, workers: 1, max_scrape: 70, stale_ids: false, access: 2 },
    ];
    if tier == Tier::Thorough {
        v.extend([
            TrackerSpec { uring: true, workers: 1, max_scrape: 70, stale_ids: true, access: 0 },
            TrackerSpec { uring: false, workers: 3, max_scrape: 0, stale_ids: false, access: 0 },
            TrackerSpec { uring: true, workers: 3, max_scrape: 1, stale_ids: false, access: 0 },
            TrackerSpec { uring: false, workers: 1, max_scrape: 255, stale_ids: false, access: 0 },
            TrackerSpec { uring: true, workers: 3, max_scrape: 70, stale_ids: false, access: 1 },
            TrackerSpec { uring: false, workers: 1, max_scrape: 3, stale_ids: false, access: 2 },
            TrackerSpec { uring: false, workers: 1, max_scrape: 70, stale_ids: true, access: 2 },
        ]);
    }
    v
}

pub fn run(ctx: &mut Ctx) {
    ctx.confirm_runs = 2;
    ctx.assume("replies are attributed by the unique transaction id written into every sent datagram; the fence (a connect from the same socket, answered by the same socket worker after the datagram before it) only bounds the wait");
    ctx.assume("trackers run in-process on leased loopback ports; no cleaning pass happens during a run (interval 100000 s); source port 0 needs a raw socket and is covered by sub-check raw-port-0 when the sandbox allows it");
    ctx.run_regress::<Case, _>("datagrams", prop);
    let tier = ctx.tier;
    let sp = specs(tier);
    let n = tier.pick(15_000, 300_000);
    let threads = ctx.threads.min(8);
    ctx.run_prop_threads("datagrams", n, threads, move || case_strategy(sp.clone(), tier.pick(24, 60)), prop);
    // source port 0 through a raw socket, with controls from ordinary ports
    let mut raw = Vec::new();
    // the scrape that observes the state needs a limit of at least one torrent
    for spec in specs(tier).into_iter().filter(|s| !s.stale_ids && s.access == 0 && s.max_scrape >= 1) {
        for announce in [false, true] {
            for src_port in [0u16, 0, 0, 40_001, 40_002] {
                raw.push(RawCase { tracker: spec, src_port, announce });
            }
        }
    }
    let saved = ctx.threads;
    ctx.threads = 1; // the sniffer sees all loopback UDP traffic; keep it quiet
    ctx.run_enum("raw-port-0", raw, false, prop_raw);
    ctx.threads = saved;
    // the mio back end's resend queue: sendto failures injected into a child process by strace
    ctx.run_regress::<crate::checks::sendfault::SendFaultCase, _>("send-faults", crate::checks::sendfault::prop_send_fault);
    ctx.threads = saved.min(8);
    ctx.run_enum("send-faults", crate::checks::sendfault::cases(ctx.seed, tier), false, crate::checks::sendfault::prop_send_fault);
    ctx.threads = saved;
    for l in ["foreign-ip-id", "forged-id", "mutated", "sendable-parse-error", "stale-ids", "uring", "mio", "silence", "announce", "scrape", "error-reply", "access-list-refusal"] {
        ctx.require_label("datagrams", l, 0.05);
    }
}

// ---- source port 0 (raw socket) ----------------------------------------------------------

#[derive(Debug, Clone, Serialize, Deserialize)]
pub struct RawCase {
    pub tracker: TrackerSpec,
    /// UDP source port of the forged datagram (0 = the case of interest; others are controls)
    pub src_port: u16,
    pub announce: bool,
}

fn raw_socket() -> Result<i32, String> {
    let fd = unsafe { libc::socket(libc::AF_INET, libc::SOCK_RAW, libc::IPPROTO_UDP) };
    if fd < 0 {
        return Err(std::io::Error::last_os_error().to_string());
    }
    let tv = libc::timeval { tv_sec: 0, tv_usec: 20_000 };
    unsafe {
        libc::setsockopt(fd, libc::SOL_SOCKET, libc::SO_RCVTIMEO, &tv as *const _ as *const libc::c_void, std::mem::size_of::<libc::timeval>() as u32);
    }
    Ok(fd)
}

fn raw_send(fd: i32, src_port: u16, dst_port: u16, payload: &[u8]) -> Result<(), String> {
    let mut pkt = Vec::with_capacity(8 + payload.len());
    pkt.extend_from_slice(&src_port.to_be_bytes());
    pkt.extend_from_slice(&dst_port.to_be_bytes());
    pkt.extend_from_slice(&((8 + payload.len()) as u16).to_be_bytes());
    pkt.extend_from_slice(&0u16.to_be_bytes()); // checksum optional over IPv4
    pkt.extend_from_slice(payload);
    let addr = libc::sockaddr_in {
        sin_family: libc::AF_INET as u16,
        sin_port: 0,
        sin_addr: libc::in_addr { s_addr: u32::from(std::net::Ipv4Addr::LOCALHOST).to_be() },
        sin_zero: [0; 8],
    };
    let rc = unsafe {
        libc::sendto(fd, pkt.as_ptr() as *const libc::c_void, pkt.len(), 0, &addr as *const _ as *const libc::sockaddr, std::mem::size_of::<libc::sockaddr_in>() as u32)
    };
    if rc < 0 {
        Err(std::io::Error::last_os_error().to_string())
    } else {
        Ok(())
    }
}

/// UDP packets (src port, dst port, payload) seen by the raw socket until it times out
fn raw_drain(fd: i32) -> Vec<(u16, u16, Vec<u8>)> {
    let mut out = Vec::new();
    let mut buf = vec![0u8; 65_536];
    loop {
        let n = unsafe { libc::recv(fd, buf.as_mut_ptr() as *mut libc::c_void, buf.len(), 0) };
        if n <= 0 {
            break;
        }
        let n = n as usize;
        let ihl = ((buf[0] & 0x0f) as usize) * 4;
        if n >= ihl + 8 {
            let sp = u16::from_be_bytes([buf[ihl], buf[ihl + 1]]);
            let dp = u16::from_be_bytes([buf[ihl + 2], buf[ihl + 3]]);
            out.push((sp, dp, buf[ihl + 8..n].to_vec()));
        }
    }
    out
}

pub fn prop_raw(case: &RawCase) -> CaseResult {
    let mut out = Outcome::default();
    let running = match tracker_for(case.tracker) {
        Ok(r) => r,
        Err(e) => return Err(Violation::new("inconclusive-tracker-start", e)),
    };
    let port = running.tracker.port;
    let fd = match raw_socket() {
        Ok(fd) => fd,
        Err(e) => return Err(Violation::new("inconclusive-raw-socket", format!("cannot open a raw socket: {e}"))),
    };
    struct Fd(i32);
    impl Drop for Fd {
        fn drop(&mut self) {
            unsafe { libc::close(self.0) };
        }
    }
    let _guard = Fd(fd);
    let case_id = CASE_COUNTER.fetch_add(1, Ordering::Relaxed);
    let c = UdpClient::new("127.0.0.1".parse().unwrap(), port).map_err(|e| Violation::new("inconclusive-client", e))?;
    let timeout = crate::e2e::reply_wait();
    // obtain an id valid for 127.0.0.1
    let tid = next_tid();
    c.send(&bep15_encode_request(&UReq::Connect { tid })).map_err(|e| Violation::new("inconclusive-send", e))?;
    let cid = match c.recv(timeout).map(|(b, _)| bep15_decode_response(&b, true)) {
        Some(Ok(URsp::Connect { cid, .. })) => cid,
        other => return Err(Violation::new("inconclusive-connect", format!("{:?}", other))),
    };
    let t = torrent(case_id, 1);
    let forged_tid = next_tid();
    let payload = if case.announce {
        bep15_encode_request(&UReq::Announce { cid, tid: forged_tid, info_hash: t, peer_id: [7; 20], downloaded: 0, left: 1, uploaded: 0, event: 2, ip: [0; 4], key: 0, numwant: 0, port: 7777 })
    } else {
        bep15_encode_request(&UReq::Connect { tid: forged_tid })
    };
    raw_drain(fd);
    raw_send(fd, case.src_port, port, &payload).map_err(|e| Violation::new("inconclusive-raw-send", e))?;
    // fence through the ordinary socket (same IP; may be another socket worker, so also wait a little)
    std::thread::sleep(Duration::from_millis(30));
    let ftid = next_tid();
    c.send(&bep15_encode_request(&UReq::Scrape { cid, tid: ftid, hashes: vec![t] })).map_err(|e| Violation::new("inconclusive-send", e))?;
    let stats = match c.recv(timeout).map(|(b, _)| bep15_decode_response(&b, true)) {
        Some(Ok(URsp::Scrape { stats, .. })) => stats,
        other => return Err(Violation::new("inconclusive-fence", format!("scrape fence: {:?}", other))),
    };
    let seen = raw_drain(fd);
    let replies: Vec<&(u16, u16, Vec<u8>)> = seen
        .iter()
        .filter(|(sp, dp, p)| *sp == port && *dp == case.src_port && p.len() >= 8 && i32::from_be_bytes(p[4..8].try_into().unwrap()) == forged_tid)
        .collect();
    out.checks += 2;
    if case.src_port == 0 {
        vensure!(
            replies.is_empty(),
            "reply-to-port-0",
            "datagram from source port 0 was answered: {:02x?}",
            replies.first().map(|r| &r.2[..r.2.len().min(24)])
        );
        vensure!(
            stats == vec![(0, 0, 0)] || !case.announce,
            "port-0-announce-stored",
            "announce from source port 0 changed state: scrape shows {:?}",
            stats
        );
        out.label("source-port-0");
        out.nontrivial = true;
    } else {
        // control: the same forged datagram from an ordinary source port is processed, which
        // shows that the raw path reaches the tracker and that replies are visible to the sniffer
        vensure!(
            replies.len() == 1,
            "inconclusive-raw-control",
            "control datagram from source port {} got {} replies visible to the raw socket",
            case.src_port,
            replies.len()
        );
        if case.announce {
            vensure!(stats == vec![(0, 0, 1)], "inconclusive-raw-control", "control announce not visible in scrape: {:?}", stats);
        }
        out.label("control");
        out.nontrivial = true;
    }
    Ok(out)
}

pub fn replay(path: &str, sub: &str, case: serde_json::Value) -> i32 {
    match sub {
        "raw-port-0" => replay_one::<RawCase, _>("C06", path, case, prop_raw),
        "send-faults" => replay_one::<crate::checks::sendfault::SendFaultCase, _>("C06", path, case, crate::checks::sendfault::prop_send_fault),
        _ => replay_one::<Case, _>("C06", path, case, prop),
    }
}

#[allow(dead_code)]
fn unused(_: HashMap<u8, u8>) {}
