//! C14 — HTTP wire codec: requests round-trip, replies are canonical bencode (DESIGN.md §6 C14)

use std::collections::BTreeMap;
use std::net::{Ipv4Addr, Ipv6Addr};

use aquatic_http_protocol::common::{AnnounceEvent, InfoHash, PeerId};
use aquatic_http_protocol::request::{AnnounceRequest, Request, ScrapeRequest};
use aquatic_http_protocol::response::*;
use proptest::prelude::*;
use serde::{Deserialize, Serialize};

use crate::codecs::*;
use crate::engine::*;
use crate::{vensure, vfail};

pub const RULE: &str = "(a) generated announce/scrape requests (all events, ids over all 256 byte values, numwant/key present or absent) written by the library and parsed back; (b) the same requests written by an independent writer that shuffles parameter order, adds unknown keys and encodes each identifier byte raw / %XX / %xx, parsed by parse_http_get_path and (ASCII-safe subset) through parse_bytes; (c) identifier strings of 0..40 units incl. bad hex and characters above U+00FF against a reference decoder (accept exactly 20 units of char<=U+00FF or %+two ASCII hex digits); (d) replies (0..200 peers per family, 0..100 scrape entries, failure/warning strings, counts up to i64::MAX) byte-compared with an independent canonical bencode encoder, parsed by a strict independent reader (sorted keys, canonical ints, 6/18-byte entries) and by Response::parse_bytes with field comparison. non-trivial = non-default parameter order, id byte >= 0x80 or reserved, a rejection case, or >= 1 peer; distinct = distinct serialised case";

#[derive(Debug, Clone, Serialize, Deserialize, PartialEq)]
pub struct AnnReq {
    pub info_hash: [u8; 20],
    pub peer_id: [u8; 20],
    pub port: u16,
    pub uploaded: u64,
    pub downloaded: u64,
    pub left: u64,
    /// 0 empty 1 started 2 stopped 3 completed
    pub event: u8,
    pub numwant: Option<u64>,
    pub key: Option<String>,
}

#[derive(Debug, Clone, Serialize, Deserialize, PartialEq)]
pub enum Unit {
    /// a character taken literally (must be <= U+00FF and not '%' to be valid)
    Raw(char),
    /// %XY with given characters
    Pct(char, char),
    /// lone '%' (with nothing valid after it)
    LonePct,
}

#[derive(Debug, Clone, Serialize, Deserialize)]
pub enum Case {
    LibRoundTrip {
        announce: Option<AnnReq>,
        scrape: Vec<[u8; 20]>,
    },
    IndependentWriter {
        req: AnnReq,
        /// permutation seed for parameter order
        order: Vec<u8>,
        /// encoding choice per identifier byte: 0 raw-if-possible 1 %XX 2 %xx
        enc: Vec<u8>,
        extras: Vec<(u8, u8)>,
        through_http: bool,
    },
    ScrapeIndependent {
        hashes: Vec<[u8; 20]>,
        enc: Vec<u8>,
        extras: Vec<(u8, u8)>,
    },
    Identifier {
        units: Vec<Unit>,
        as_peer_id: bool,
    },
    AnnounceReply {
        interval: u64,
        complete: u64,
        incomplete: u64,
        peers: Vec<([u8; 4], u16)>,
        peers6: Vec<([u8; 16], u16)>,
        warning: Option<String>,
    },
    ScrapeReply {
        files: Vec<([u8; 20], u64, u64)>,
    },
    FailureReply {
        reason: String,
    },
}

fn ev(e: u8) -> AnnounceEvent {
    match e % 4 {
        0 => AnnounceEvent::Empty,
        1 => AnnounceEvent::Started,
        2 => AnnounceEvent::Stopped,
        _ => AnnounceEvent::Completed,
    }
}

fn to_lib(r: &AnnReq) -> AnnounceRequest {
    AnnounceRequest {
        info_hash: InfoHash(r.info_hash),
        peer_id: PeerId(r.peer_id),
        port: r.port,
        bytes_uploaded: r.uploaded as usize,
        bytes_downloaded: r.downloaded as usize,
        bytes_left: r.left as usize,
        event: ev(r.event),
        numwant: r.numwant.map(|v| v as usize),
        key: r.key.as_ref().map(|k| k.as_str().into()),
    }
}

fn is_unreserved(b: u8) -> bool {
    b.is_ascii_alphanumeric() || matches!(b, b'-' | b'.' | b'_' | b'~')
}

/// encode one identifier byte; `mode` 0 = raw where legal for the transport
fn enc_byte(b: u8, mode: u8, ascii_only: bool, out: &mut String) {
    let raw_ok = if ascii_only {
        is_unreserved(b)
    } else {
        // path-level API takes a &str: any char up to U+00FF except the structural ones
        !matches!(b, b'%' | b'&' | b'=' | b'?' | b'#')
    };
    match mode % 3 {
        0 if raw_ok => out.push(b as char),
        2 => out.push_str(&format!("%{:02x}", b)),
        _ => out.push_str(&format!("%{:02X}", b)),
    }
}

fn enc_id(id: &[u8; 20], enc: &[u8], off: usize, ascii_only: bool) -> String {
    let mut s = String::new();
    for (i, b) in id.iter().enumerate() {
        let mode = enc.get(off + i).copied().unwrap_or(1);
        enc_byte(*b, mode, ascii_only, &mut s);
    }
    s
}

const EXTRA_KEYS: [&str; 6] = ["compact", "supportcrypto", "no_peer_id", "ip", "trackerid", "x"];
const EXTRA_VALS: [&str; 5] = ["1", "0.0.0.0", "abc", "", "%41"];

fn extra_param(k: u8, v: u8) -> String {
    let key = EXTRA_KEYS[k as usize % EXTRA_KEYS.len()];
    // `compact` is only accepted with value 1
    let val = if key == "compact" { "1" } else { EXTRA_VALS[v as usize % EXTRA_VALS.len()] };
    format!("{key}={val}")
}

fn permute<T>(mut v: Vec<T>, order: &[u8]) -> Vec<T> {
    // Fisher-Yates driven by generated bytes
    for i in (1..v.len()).rev() {
        let j = order.get(i).copied().unwrap_or(0) as usize % (i + 1);
        v.swap(i, j);
    }
    v
}

/// reference identifier decoder
fn ref_decode_units(units: &[Unit]) -> Option<[u8; 20]> {
    if units.len() != 20 {
        return None;
    }
    let mut out = [0u8; 20];
    for (i, u) in units.iter().enumerate() {
        match u {
            Unit::Raw(c) => {
                if (*c as u32) > 0xff || *c == '%' {
                    return None;
                }
                out[i] = *c as u32 as u8;
            }
            Unit::Pct(a, b) => {
                let hv = |c: char| -> Option<u8> {
                    if c.is_ascii_hexdigit() {
                        Some(c.to_digit(16).unwrap() as u8)
                    } else {
                        None
                    }
                };
                out[i] = hv(*a)? * 16 + hv(*b)?;
            }
            Unit::LonePct => return None,
        }
    }
    Some(out)
}

fn render_units(units: &[Unit]) -> String {
    let mut s = String::new();
    for u in units {
        match u {
            Unit::Raw(c) => s.push(*c),
            Unit::Pct(a, b) => {
                s.push('%');
                s.push(*a);
                s.push(*b);
            }
            Unit::LonePct => s.push('%'),
        }
    }
    s
}

fn ben_announce(interval: u64, complete: u64, incomplete: u64, peers: &[([u8; 4], u16)], peers6: &[([u8; 16], u16)], warning: &Option<String>) -> Vec<u8> {
    let mut p4 = Vec::new();
    for (ip, port) in peers {
        p4.extend_from_slice(ip);
        p4.extend_from_slice(&port.to_be_bytes());
    }
    let mut p6 = Vec::new();
    for (ip, port) in peers6 {
        p6.extend_from_slice(ip);
        p6.extend_from_slice(&port.to_be_bytes());
    }
    let mut d = vec![
        (b"interval".to_vec(), Ben::Int(interval as i128)),
        (b"complete".to_vec(), Ben::Int(complete as i128)),
        (b"incomplete".to_vec(), Ben::Int(incomplete as i128)),
        (b"peers".to_vec(), Ben::Bytes(p4)),
        (b"peers6".to_vec(), Ben::Bytes(p6)),
    ];
    if let Some(w) = warning {
        d.push((b"warning message".to_vec(), Ben::Bytes(w.as_bytes().to_vec())));
    }
    let mut out = Vec::new();
    Ben::Dict(d).encode(&mut out);
    out
}

pub fn prop(case: &Case) -> CaseResult {
    let mut out = Outcome::default();
    match case {
        Case::LibRoundTrip { announce, scrape } => {
            let req = match announce {
                Some(a) => Request::Announce(to_lib(a)),
                None => Request::Scrape(ScrapeRequest { info_hashes: scrape.iter().map(|h| InfoHash(*h)).collect() }),
            };
            let mut bytes = Vec::new();
            req.write(&mut bytes, b"").map_err(|e| Violation::new("write-error", e.to_string()))?;
            let parsed = Request::parse_bytes(&bytes)
                .map_err(|e| Violation::new("roundtrip-rejected", format!("parse_bytes(write(x)) failed: {e:#}; x = {:?}; wire {:?}", req, String::from_utf8_lossy(&bytes))))?;
            out.checks += 1;
            vensure!(
                parsed.as_ref() == Some(&req),
                "roundtrip-mismatch",
                "parse_bytes(write(x)) = {:?}, x = {:?}",
                parsed,
                req
            );
            if let Some(a) = announce {
                if a.event % 4 == 2 {
                    out.label("event-stopped");
                }
                if a.info_hash.iter().chain(a.peer_id.iter()).any(|b| *b >= 0x80 || !is_unreserved(*b)) {
                    out.label("binary-id");
                    out.nontrivial = true;
                }
                if a.key.is_some() {
                    out.label("key");
                }
            } else {
                out.label("scrape");
                out.nontrivial = scrape.len() > 1;
            }
        }
        Case::IndependentWriter { req, order, enc, extras, through_http } => {
            let ascii = *through_http;
            let mut params: Vec<String> = vec![
                format!("info_hash={}", enc_id(&req.info_hash, enc, 0, ascii)),
                format!("peer_id={}", enc_id(&req.peer_id, enc, 20, ascii)),
                format!("port={}", req.port),
                format!("uploaded={}", req.uploaded),
                format!("downloaded={}", req.downloaded),
                format!("left={}", req.left),
            ];
            match req.event % 4 {
                0 => {
                    if order.first().copied().unwrap_or(0) % 2 == 1 {
                        params.push("event=empty".into());
                    }
                }
                1 => params.push("event=started".into()),
                2 => params.push("event=stopped".into()),
                _ => params.push("event=completed".into()),
            }
            if let Some(n) = req.numwant {
                params.push(format!("numwant={n}"));
            }
            if let Some(k) = &req.key {
                // independent percent-encoding of the key: everything but unreserved ASCII
                let mut s = String::new();
                for b in k.as_bytes() {
                    if is_unreserved(*b) {
                        s.push(*b as char);
                    } else {
                        s.push_str(&format!("%{:02X}", b));
                    }
                }
                params.push(format!("key={s}"));
            }
            for (k, v) in extras {
                params.push(extra_param(*k, *v));
            }
            let params = permute(params, order);
            let path = format!("/announce?{}", params.join("&"));
            let want = Request::Announce(to_lib(req));
            let got = if *through_http {
                let wire = format!("GET {path} HTTP/1.1\r\nHost: example.com\r\nUser-Agent: x\r\n\r\n");
                Request::parse_bytes(wire.as_bytes())
                    .map_err(|e| Violation::new("independent-text-rejected", format!("well-formed request rejected: {e:#}; path {path:?}")))?
                    .ok_or_else(|| Violation::new("independent-text-partial", format!("complete request reported as partial: {path:?}")))?
            } else {
                Request::parse_http_get_path(&path)
                    .map_err(|e| Violation::new("independent-text-rejected", format!("well-formed path rejected: {e:#}; path {path:?}")))?
            };
            out.checks += 1;
            vensure!(got == want, "independent-text-mismatch", "parsed {:?}, expected {:?}; path {:?}", got, want, path);
            out.label("independent-writer");
            out.nontrivial = true;
            if !extras.is_empty() {
                out.label("unknown-keys");
            }
        }
        Case::ScrapeIndependent { hashes, enc, extras } => {
            let mut params: Vec<String> = hashes
                .iter()
                .enumerate()
                .map(|(i, h)| format!("info_hash={}", enc_id(h, enc, i * 7, false)))
                .collect();
            // unknown keys interleaved at generated positions (order of hashes must be kept)
            for (j, (k, v)) in extras.iter().enumerate() {
                let pos = (*v as usize + j) % (params.len() + 1);
                let key = EXTRA_KEYS[1 + (*k as usize % (EXTRA_KEYS.len() - 1))];
                params.insert(pos, format!("{key}=1"));
            }
            let path = format!("/scrape?{}", params.join("&"));
            let got = Request::parse_http_get_path(&path)
                .map_err(|e| Violation::new("independent-text-rejected", format!("well-formed scrape path rejected: {e:#}; {path:?}")))?;
            let want = Request::Scrape(ScrapeRequest { info_hashes: hashes.iter().map(|h| InfoHash(*h)).collect() });
            out.checks += 1;
            vensure!(got == want, "independent-text-mismatch", "parsed {:?}, expected {:?}", got, want);
            out.label("scrape-independent");
            out.nontrivial = true;
        }
        Case::Identifier { units, as_peer_id } => {
            let text = render_units(units);
            // structural characters would change the query's shape, not the identifier
            if text.contains('&') || text.contains('=') {
                return Ok(out);
            }
            let (ih, pid) = if *as_peer_id {
                ("%00%01%02%03%04%05%06%07%08%09%0a%0b%0c%0d%0e%0f%10%11%12%13".to_string(), text.clone())
            } else {
                (text.clone(), "-TR2940-abcdefghijkl".to_string())
            };
            let path = format!("/announce?info_hash={ih}&peer_id={pid}&port=1&uploaded=0&downloaded=0&left=0");
            let want = ref_decode_units(units);
            let got = Request::parse_http_get_path(&path);
            out.checks += 1;
            match (want, got) {
                (Some(w), Ok(Request::Announce(a))) => {
                    let g = if *as_peer_id { a.peer_id.0 } else { a.info_hash.0 };
                    vensure!(g == w, "identifier-decoded-wrong", "identifier {:?} decoded to {:02x?}, reference {:02x?}", text, g, w);
                    out.label("identifier-accepted");
                }
                (Some(w), other) => vfail!("identifier-rejected", "20-unit identifier {:?} (= {:02x?}) rejected: {:?}", text, w, other.err().map(|e| e.to_string())),
                (None, Ok(r)) => vfail!(
                    "identifier-accepted-malformed",
                    "identifier {:?} ({} units) is not 20 units of (char <= U+00FF | % + two ASCII hex digits) but was accepted as {:?}",
                    text,
                    units.len(),
                    r
                ),
                (None, Err(_)) => {
                    out.label("identifier-rejected");
                }
            }
            out.nontrivial = true;
        }
        Case::AnnounceReply { interval, complete, incomplete, peers, peers6, warning } => {
            let r = AnnounceResponse {
                announce_interval: *interval as usize,
                complete: *complete as usize,
                incomplete: *incomplete as usize,
                peers: ResponsePeerListV4(peers.iter().map(|(ip, port)| ResponsePeer { ip_address: Ipv4Addr::from(*ip), port: *port }).collect()),
                peers6: ResponsePeerListV6(peers6.iter().map(|(ip, port)| ResponsePeer { ip_address: Ipv6Addr::from(*ip), port: *port }).collect()),
                warning_message: warning.clone(),
            };
            let want = ben_announce(*interval, *complete, *incomplete, peers, peers6, warning);
            let mut got = Vec::new();
            let n = Response::Announce(r).write_bytes(&mut got).map_err(|e| Violation::new("write-error", e.to_string()))?;
            out.checks += 4;
            vensure!(n == got.len(), "write-length", "write_bytes returned {n}, wrote {}", got.len());
            vensure!(got == want, "encode-mismatch", "announce reply bytes {:?}, independent canonical bencode {:?}", String::from_utf8_lossy(&got), String::from_utf8_lossy(&want));
            let tree = ben_parse_strict(&got).map_err(|e| Violation::new("not-canonical-bencode", format!("{e}: {:?}", String::from_utf8_lossy(&got))))?;
            match (tree.get(b"peers"), tree.get(b"peers6")) {
                (Some(Ben::Bytes(a)), Some(Ben::Bytes(b))) => {
                    vensure!(a.len() == 6 * peers.len() && b.len() == 18 * peers6.len(), "compact-entry-size", "peers {} bytes for {} entries, peers6 {} bytes for {} entries", a.len(), peers.len(), b.len(), peers6.len());
                }
                _ => vfail!("not-canonical-bencode", "peers / peers6 missing or not strings"),
            }
            match Response::parse_bytes(&got) {
                Ok(Response::Announce(p)) => {
                    let same = p.announce_interval == *interval as usize
                        && p.complete == *complete as usize
                        && p.incomplete == *incomplete as usize
                        && p.peers.0.iter().map(|x| (x.ip_address.octets(), x.port)).collect::<Vec<_>>() == *peers
                        && p.peers6.0.iter().map(|x| (x.ip_address.octets(), x.port)).collect::<Vec<_>>() == *peers6
                        && p.warning_message == *warning;
                    vensure!(same, "reply-roundtrip-mismatch", "parsed back {:?}", p);
                }
                other => vfail!("reply-roundtrip-rejected", "announce reply parsed back as {:?}", other),
            }
            if !peers.is_empty() || !peers6.is_empty() {
                out.label("peers");
                out.nontrivial = true;
            }
            if warning.is_some() {
                out.label("warning");
            }
        }
        Case::ScrapeReply { files } => {
            let mut map = BTreeMap::new();
            let mut ref_files: BTreeMap<Vec<u8>, Ben> = BTreeMap::new();
            for (hsh, c, i) in files {
                map.insert(InfoHash(*hsh), ScrapeStatistics { complete: *c as usize, incomplete: *i as usize, downloaded: 0 });
                ref_files.insert(
                    hsh.to_vec(),
                    Ben::Dict(vec![
                        (b"complete".to_vec(), Ben::Int(*c as i128)),
                        (b"incomplete".to_vec(), Ben::Int(*i as i128)),
                        (b"downloaded".to_vec(), Ben::Int(0)),
                    ]),
                );
            }
            // later duplicates of a hash overwrite earlier ones in both
            let mut want = Vec::new();
            Ben::Dict(vec![(b"files".to_vec(), Ben::Dict(ref_files.into_iter().collect()))]).encode(&mut want);
            let mut got = Vec::new();
            Response::Scrape(ScrapeResponse { files: map.clone() }).write_bytes(&mut got).map_err(|e| Violation::new("write-error", e.to_string()))?;
            out.checks += 3;
            vensure!(got == want, "encode-mismatch", "scrape reply bytes differ from independent canonical bencode: {:?} vs {:?}", String::from_utf8_lossy(&got), String::from_utf8_lossy(&want));
            ben_parse_strict(&got).map_err(|e| Violation::new("not-canonical-bencode", e))?;
            match Response::parse_bytes(&got) {
                Ok(Response::Scrape(p)) => {
                    let same = p.files.len() == map.len()
                        && p.files.iter().all(|(k, v)| map.get(k).map(|m| (m.complete, m.incomplete, m.downloaded) == (v.complete, v.incomplete, v.downloaded)).unwrap_or(false));
                    vensure!(same, "reply-roundtrip-mismatch", "scrape parsed back {:?}", p);
                }
                other => vfail!("reply-roundtrip-rejected", "scrape reply parsed back as {:?}", other),
            }
            if !files.is_empty() {
                out.label("scrape-entries");
                out.nontrivial = true;
            }
        }
        Case::FailureReply { reason } => {
            let mut want = Vec::new();
            Ben::Dict(vec![(b"failure reason".to_vec(), Ben::Bytes(reason.as_bytes().to_vec()))]).encode(&mut want);
            let mut got = Vec::new();
            Response::Failure(FailureResponse::new(reason.clone())).write_bytes(&mut got).map_err(|e| Violation::new("write-error", e.to_string()))?;
            out.checks += 2;
            vensure!(got == want, "encode-mismatch", "failure reply bytes {:?} vs {:?}", String::from_utf8_lossy(&got), String::from_utf8_lossy(&want));
            match Response::parse_bytes(&got) {
                Ok(Response::Failure(p)) => vensure!(p.failure_reason == *reason, "reply-roundtrip-mismatch", "failure parsed back {:?}", p),
                other => vfail!("reply-roundtrip-rejected", "failure reply parsed back as {:?}", other),
            }
            out.label("failure");
            out.nontrivial = !reason.is_ascii();
        }
    }
    Ok(out)
}

fn id20() -> impl Strategy<Value = [u8; 20]> + Clone {
    prop_oneof![
        3 => any::<[u8; 20]>(),
        1 => (0u8..=235).prop_map(|s| { let mut a = [0u8; 20]; for (i, b) in a.iter_mut().enumerate() { *b = s.wrapping_add(i as u8); } a }),
        1 => Just(*b"-TR2940-abcdefghijkl"),
        1 => Just([b'%'; 20]),
        1 => Just([0xff; 20]),
    ]
}

fn u64b() -> impl Strategy<Value = u64> + Clone {
    prop_oneof![Just(0u64), Just(1u64), Just(u32::MAX as u64), Just(i64::MAX as u64), Just(u64::MAX), any::<u64>()]
}

fn key() -> impl Strategy<Value = Option<String>> {
    prop_oneof![
        2 => Just(None),
        2 => "[0-9a-f]{8}".prop_map(Some),
        1 => "[ -~]{0,20}".prop_map(Some),
        1 => "\\PC{0,8}".prop_map(Some),
    ]
    .prop_filter("encoded key fits the documented 100 char cap", |k| {
        k.as_ref().map(|k| k.as_bytes().iter().map(|b| if is_unreserved(*b) { 1 } else { 3 }).sum::<usize>() <= 100).unwrap_or(true)
    })
}

fn ann_req() -> impl Strategy<Value = AnnReq> {
    (id20(), id20(), any::<u16>(), u64b(), u64b(), u64b(), 0u8..4, prop_oneof![Just(None), u64b().prop_map(Some)], key())
        .prop_map(|(info_hash, peer_id, port, uploaded, downloaded, left, event, numwant, key)| AnnReq { info_hash, peer_id, port, uploaded, downloaded, left, event, numwant, key })
}

fn valid_unit() -> impl Strategy<Value = Unit> {
    let hexc = proptest::char::ranges(vec!['0'..='9', 'a'..='f', 'A'..='F'].into());
    prop_oneof![
        // every char of U+0000..U+00FF except the structural ones '%' (0x25), '&' (0x26), '=' (0x3d)
        1 => proptest::char::ranges(vec!['\u{0}'..='\u{24}', '\u{27}'..='\u{3c}', '\u{3e}'..='\u{ff}'].into()).prop_map(Unit::Raw),
        1 => (hexc.clone(), hexc).prop_map(|(a, b)| Unit::Pct(a, b)),
    ]
}

fn faulty_unit() -> impl Strategy<Value = Unit> {
    let hexc = proptest::char::ranges(vec!['0'..='9', 'a'..='f', 'A'..='F'].into());
    let badc = prop_oneof![
        2 => proptest::char::range('g', 'z'),
        // characters whose low byte is an ASCII hex digit (U+0130 -> '0', U+0141 -> 'A', ...)
        3 => prop_oneof![Just('\u{0130}'), Just('\u{0141}'), Just('\u{0261}'), Just('\u{ff10}'), Just('\u{0439}'), Just('\u{0166}')],
        1 => any::<char>().prop_map(|c| if matches!(c, '&' | '=') { '~' } else { c }),
    ];
    prop_oneof![
        2 => prop_oneof![Just('\u{100}'), Just('\u{20ac}'), Just('\u{1f600}'), Just('\u{0130}')].prop_map(Unit::Raw),
        2 => (badc.clone(), hexc.clone()).prop_map(|(a, b)| Unit::Pct(a, b)),
        2 => (hexc, badc).prop_map(|(a, b)| Unit::Pct(a, b)),
        1 => Just(Unit::LonePct),
    ]
}

fn identifier_units() -> impl Strategy<Value = Vec<Unit>> {
    (
        prop_oneof![6 => Just(20usize), 1 => Just(19usize), 1 => Just(21usize), 1 => Just(0usize), 1 => 0usize..41],
        prop_oneof![5 => Just(0usize), 3 => Just(1usize), 1 => Just(2usize)],
    )
        .prop_flat_map(|(len, faults)| {
            (
                proptest::collection::vec(valid_unit(), len),
                proptest::collection::vec((any::<u8>(), faulty_unit()), faults),
            )
        })
        .prop_map(|(mut units, faults)| {
            for (pos, f) in faults {
                if !units.is_empty() {
                    let i = pos as usize % units.len();
                    units[i] = f;
                }
            }
            units
        })
}

fn strategy(tier: Tier) -> impl Strategy<Value = Case> {
    let maxp = tier.pick(200, 400);
    let maxs = tier.pick(30, 100);
    prop_oneof![
        3 => (prop_oneof![3 => ann_req().prop_map(Some), 1 => Just(None)], proptest::collection::vec(id20(), 1..20))
            .prop_map(|(announce, scrape)| Case::LibRoundTrip { announce, scrape }),
        4 => (ann_req(), proptest::collection::vec(any::<u8>(), 16), proptest::collection::vec(0u8..3, 40), proptest::collection::vec((any::<u8>(), any::<u8>()), 0..4), any::<bool>())
            .prop_map(|(req, order, enc, extras, through_http)| Case::IndependentWriter { req, order, enc, extras, through_http }),
        1 => (proptest::collection::vec(id20(), 1..8), proptest::collection::vec(0u8..3, 80), proptest::collection::vec((any::<u8>(), any::<u8>()), 0..3))
            .prop_map(|(hashes, enc, extras)| Case::ScrapeIndependent { hashes, enc, extras }),
        4 => (identifier_units(), any::<bool>())
            .prop_map(|(units, as_peer_id)| Case::Identifier { units, as_peer_id }),
        2 => (u64b().prop_map(|v| v.min(i64::MAX as u64)), u64b().prop_map(|v| v.min(i64::MAX as u64)), u64b().prop_map(|v| v.min(i64::MAX as u64)),
              proptest::collection::vec((any::<[u8; 4]>(), any::<u16>()), 0..maxp), proptest::collection::vec((any::<[u8; 16]>(), any::<u16>()), 0..maxp),
              prop_oneof![3 => Just(None), 1 => "[ -~]{0,40}".prop_map(Some), 1 => "\\PC{0,40}".prop_map(Some)])
            .prop_map(|(interval, complete, incomplete, peers, peers6, warning)| Case::AnnounceReply { interval, complete, incomplete, peers, peers6, warning }),
        1 => proptest::collection::vec((id20(), u64b().prop_map(|v| v.min(i64::MAX as u64)), u64b().prop_map(|v| v.min(i64::MAX as u64))), 0..maxs)
            .prop_map(|files| Case::ScrapeReply { files }),
        1 => prop_oneof!["[ -~]{0,60}", "\\PC{0,200}"].prop_map(|reason| Case::FailureReply { reason }),
    ]
}

pub fn run(ctx: &mut Ctx) {
    ctx.assume("bencode canonical form: dictionary keys sorted as raw byte strings, integers without leading zeros; compact peers are 6/18 bytes (BEP 23 / BEP 7)");
    ctx.assume("keys longer than 100 encoded characters are outside the domain (the parser documents that cap); scrape `downloaded` is always 0 as the tracker produces it; counts are <= i64::MAX (bencode integers)");
    ctx.run_regress::<Case, _>("codec", prop);
    let tier = ctx.tier;
    ctx.run_prop("codec", tier.pick(300_000, 5_000_000), move || strategy(tier), prop);
    for l in ["independent-writer", "identifier-accepted", "identifier-rejected", "peers", "scrape-entries", "binary-id", "event-stopped"] {
        ctx.require_label("codec", l, 0.01);
    }
}

pub fn replay(path: &str, _sub: &str, case: serde_json::Value) -> i32 {
    replay_one::<Case, _>("C14", path, case, prop)
}
