//! C08 — WebTorrent swarm bookkeeping and per-connection ownership (DESIGN.md §6 C08)

use crate::engine::*;
use crate::wsdrv::*;

pub const RULE: &str = "histories vec(op) of open/announce/scrape/close/tick/clean over 3 socket workers (each minting connection ids from its own DenseSlotMap, so slot keys of different workers coincide), <=5 open connections, 3 torrents, 3 peer ids (collisions across connections are the point), both IP versions; a shim reproduces the socket worker's per-connection bookkeeping; interpreted against aquatic_ws's TorrentMaps (verif_api) and reference model W after every step (messages produced, addressed connection, counts incl. announcer, two-sided scrape rule, stored entries via verif_counts); non-trivial = two connections used one peer id on one torrent, or a connection holding a non-owned pair closed, or equal slot keys on two workers; distinct = distinct serialised history";

pub fn prop(case: &WsCase) -> CaseResult {
    let mut o = run_ws_case(case, WsOracles::default())?;
    o.nontrivial = o.labels.iter().any(|l| {
        matches!(
            l.as_str(),
            "same-peer-id-two-conns" | "close-of-non-owner-with-live-entry" | "equal-slot-keys-on-two-workers" | "non-owner-announce"
        )
    });
    Ok(o)
}

pub fn params(tier: Tier) -> WsGen {
    WsGen {
        max_ops: tier.pick(50, 160),
        pids: 3,
        offer_ids: 4,
        max_offers_in_req: 4,
        signalling_w: 2,
        access_list: false,
        time_w: 1,
    }
}

pub fn run(ctx: &mut Ctx) {
    ctx.assume("the shim between connection and storage (wsdrv.rs) mirrors ConnectionReader::handle_announce_request and ConnectionCleanupData::after_close as read from connection.rs; C17 exercises the real socket workers");
    ctx.assume("announce and clean read ServerStartInstant::seconds_elapsed, mocked per thread under feature verif");
    ctx.run_regress::<WsCase, _>("hist", prop);
    let p = params(ctx.tier);
    let n = ctx.tier.pick(150_000, 3_000_000);
    ctx.run_prop("hist", n, move || ws_case(p), prop);
    for l in ["same-peer-id-two-conns", "non-owner-announce", "close-owning", "equal-slot-keys-on-two-workers", "stop-existing", "seeder-flag-flip"] {
        ctx.require_label("hist", l, 0.02);
    }
}

pub fn replay(path: &str, _sub: &str, case: serde_json::Value) -> i32 {
    replay_one::<WsCase, _>("C08", path, case, prop)
}
