//! C05 — UDP connection ids are bound to source IP and time window (DESIGN.md §6 C05)

use std::net::{IpAddr, Ipv4Addr, Ipv6Addr, SocketAddr};

use aquatic_common::CanonicalSocketAddr;
use aquatic_udp::config::Config;
use aquatic_udp::workers::socket::ConnectionValidator;
use aquatic_udp_protocol::ConnectionId;
use proptest::prelude::*;
use serde::{Deserialize, Serialize};

use crate::engine::*;
use crate::models::canonical_ip;
use crate::vensure;

pub const RULE: &str = "generated (source address of both families incl. IPv4-mapped, max_connection_age incl. 0 and u32::MAX, issue time t0, check time t1 placed at t0+age-1/age/age+1, t0-59/-60/-61 and random) executed against the real ConnectionValidator with its clock set through the verif hook; oracle = reference rule V (same canonical IP and t0+age>t1 and t0<=t1+60, evaluated in i128) in both directions, plus must-reject checks from every address one bit away from the issuing one and from addresses carrying the same bytes in another representation (other family, zero-padded, IPv4-compatible / SIIT / NAT64 / 6to4 embeddings, reversed, halves swapped), for every single-bit flip of the id, generated double flips, random ids, ids of a second validator (fresh key) and ids issued for another address (an accepted forgery is re-tried under two fresh keys before it is reported, so a 2^-32 MAC collision cannot raise an alarm). non-trivial = t1 within 1 s of an acceptance boundary or age in {0, >= u32::MAX-1}; distinct = distinct serialised case. Sub-check wire-window: running udp trackers (mio and io_uring, 1-3 socket workers, 6 client sockets on 127.0.0.1-4, max_connection_age 12-15 s, thorough up to 40 s) against real time: an id is accepted when issued and 3 s later, rejected (no reply before a fence) 9 s after the window has closed, and a fresh id is accepted at once";

#[derive(Debug, Clone, Copy, Serialize, Deserialize, PartialEq)]
pub enum IpSpec {
    V4([u8; 4]),
    V6([u8; 16]),
    Mapped([u8; 4]),
}

impl IpSpec {
    pub fn ip(&self) -> IpAddr {
        match self {
            IpSpec::V4(b) => IpAddr::V4(Ipv4Addr::from(*b)),
            IpSpec::V6(b) => IpAddr::V6(Ipv6Addr::from(*b)),
            IpSpec::Mapped(b) => IpAddr::V6(Ipv4Addr::from(*b).to_ipv6_mapped()),
        }
    }
}

#[derive(Debug, Clone, Serialize, Deserialize)]
pub struct Case {
    pub ip: IpSpec,
    pub port: u16,
    pub other_port: u16,
    pub other_ip: IpSpec,
    pub age: u32,
    pub t0: u32,
    pub t1: u32,
    pub double_flips: Vec<(u8, u8)>,
    pub random_id: i64,
}

fn validator(age: u32) -> ConnectionValidator {
    let mut config = Config::default();
    config.cleaning.max_connection_age = age;
    ConnectionValidator::new(&config).expect("validator")
}

fn addr(ip: IpAddr, port: u16) -> CanonicalSocketAddr {
    CanonicalSocketAddr::new(SocketAddr::new(ip, port))
}

fn model_accepts(age: u32, t0: u32, t1: u32) -> bool {
    let (age, t0, t1) = (age as i128, t0 as i128, t1 as i128);
    (t0 + age > t1) && (t0 <= t1 + 60)
}

/// Scenario: validator with fresh key issues `id` for `ip` at t0; `forge(id, other validator's id
/// for ip, id issued for other_ip)` yields the id presented from `ip` at t1.
fn forgery_accepted(case: &Case, forge: &dyn Fn(i64, i64, i64) -> i64) -> bool {
    let mut v = validator(case.age);
    let mut v2 = validator(case.age);
    v.verif_set_seconds_since_start(case.t0);
    v2.verif_set_seconds_since_start(case.t0);
    let a = addr(case.ip.ip(), case.port);
    let id = v.create_connection_id(a).0.get();
    let id2 = v2.create_connection_id(a).0.get();
    let id_other = v
        .create_connection_id(addr(case.other_ip.ip(), case.port))
        .0
        .get();
    v.verif_set_seconds_since_start(case.t1);
    v.connection_id_valid(a, ConnectionId::new(forge(id, id2, id_other)))
}

fn must_reject(
    case: &Case,
    what: &str,
    kind: &str,
    forge: &dyn Fn(i64, i64, i64) -> i64,
    out: &mut Outcome,
) -> Result<(), Violation> {
    out.checks += 1;
    if forgery_accepted(case, forge) {
        // a 32-bit MAC collides with probability 2^-32: repeat under two fresh keys
        if forgery_accepted(case, forge) && forgery_accepted(case, forge) {
            return Err(Violation::new(
                kind,
                format!("{what} was accepted under three independent keys (case {:?})", case),
            ));
        }
        out.label("mac-collision-retried");
    }
    Ok(())
}

pub fn prop(case: &Case) -> CaseResult {
    let mut out = Outcome::default();
    let mut v = validator(case.age);
    v.verif_set_seconds_since_start(case.t0);
    let a = addr(case.ip.ip(), case.port);
    let id = v.create_connection_id(a);
    // a clone (another socket worker) shares the key
    let mut clone = v.clone();
    v.verif_set_seconds_since_start(case.t1);
    clone.verif_set_seconds_since_start(case.t1);
    let want = model_accepts(case.age, case.t0, case.t1);

    let got = v.connection_id_valid(a, id);
    out.checks += 4;
    vensure!(
        got == want,
        if want { "valid-id-rejected" } else { "expired-id-accepted" },
        "id issued at t0={} with max_connection_age={} checked at t1={} from the same address: accepted={}, rule says {}",
        case.t0,
        case.age,
        case.t1,
        got,
        want
    );
    let got_clone = clone.connection_id_valid(a, id);
    vensure!(
        got_clone == want,
        "clone-disagrees",
        "a cloned validator (other socket worker) gives {} where the rule says {}",
        got_clone,
        want
    );
    // same IP, other source port: ids bind the IP only
    let got_port = v.connection_id_valid(addr(case.ip.ip(), case.other_port), id);
    vensure!(
        got_port == want,
        "other-port-differs",
        "same IP, other port: accepted={}, rule says {}",
        got_port,
        want
    );
    // the IPv4-mapped twin is the same canonical address
    let twin = match case.ip {
        IpSpec::V4(b) => Some(IpSpec::Mapped(b)),
        IpSpec::Mapped(b) => Some(IpSpec::V4(b)),
        IpSpec::V6(_) => None,
    };
    if let Some(twin) = twin {
        let got_twin = v.connection_id_valid(addr(twin.ip(), case.port), id);
        vensure!(
            got_twin == want,
            "mapped-twin-differs",
            "IPv4-mapped twin of the issuing address: accepted={}, rule says {}",
            got_twin,
            want
        );
        out.label("mapped-twin");
    }

    // from another IP address
    if canonical_ip(case.other_ip.ip()) != canonical_ip(case.ip.ip()) {
        let oip = case.other_ip.ip();
        out.checks += 1;
        if v.connection_id_valid(addr(oip, case.port), id) {
            // retry under fresh keys
            let again = |_: ()| {
                let mut w = validator(case.age);
                w.verif_set_seconds_since_start(case.t0);
                let i = w.create_connection_id(a);
                w.verif_set_seconds_since_start(case.t1);
                w.connection_id_valid(addr(oip, case.port), i)
            };
            if again(()) && again(()) {
                return Err(Violation::new(
                    "other-ip-accepted",
                    format!("id issued for {:?} accepted from {:?} under three keys", case.ip, case.other_ip),
                ));
            }
            out.label("mac-collision-retried");
        }
        must_reject(case, "an id issued for another address", "foreign-address-id-accepted", &|_, _, o| o, &mut out)?;
    }

    // every address that differs from the issuing one in exactly one bit must be refused, and so
    // must every address that merely *contains* the issuing one's bytes (other family, padded,
    // embedded in a transition prefix, reversed, halves swapped): "every other address" includes
    // the ones an encoding of the address into the MAC input could confuse
    {
        let octets: Vec<u8> = match canonical_ip(case.ip.ip()) {
            IpAddr::V4(a) => a.octets().to_vec(),
            IpAddr::V6(a) => a.octets().to_vec(),
        };
        let mut candidates: Vec<(IpAddr, &'static str)> = Vec::new();
        for bit in 0..octets.len() * 8 {
            let mut o = octets.clone();
            o[bit / 8] ^= 1 << (bit % 8);
            let near: IpAddr = if o.len() == 4 {
                IpAddr::V4(Ipv4Addr::new(o[0], o[1], o[2], o[3]))
            } else {
                let mut a = [0u8; 16];
                a.copy_from_slice(&o);
                IpAddr::V6(Ipv6Addr::from(a))
            };
            candidates.push((near, "one bit different"));
        }
        for r in related_addresses(&octets) {
            candidates.push((r, "same bytes in another representation"));
        }
        for (near, what) in candidates {
            if canonical_ip(near) == canonical_ip(case.ip.ip()) {
                continue;
            }
            out.checks += 1;
            if what != "one bit different" {
                out.label("related-address-tried");
            }
            if v.connection_id_valid(addr(near, case.port), id) {
                let again = |_: ()| {
                    let mut w = validator(case.age);
                    w.verif_set_seconds_since_start(case.t0);
                    let i = w.create_connection_id(a);
                    w.verif_set_seconds_since_start(case.t1);
                    w.connection_id_valid(addr(near, case.port), i)
                };
                if again(()) && again(()) {
                    return Err(Violation::new(
                        "other-ip-accepted",
                        format!("id issued for {:?} accepted from {} ({what}) under three keys", case.ip, near),
                    ));
                }
                out.label("mac-collision-retried");
            }
        }
    }

    // alterations: only meaningful when the genuine id would be accepted (otherwise rejection
    // could be due to the time window alone), but they must be rejected in every case
    for bit in 0..64u32 {
        must_reject(
            case,
            &format!("id with bit {bit} flipped"),
            "altered-id-accepted",
            &|id, _, _| id ^ (1i64 << bit),
            &mut out,
        )?;
    }
    for (b1, b2) in &case.double_flips {
        let (b1, b2) = (*b1 as u32 % 64, *b2 as u32 % 64);
        if b1 != b2 {
            must_reject(
                case,
                &format!("id with bits {b1},{b2} flipped"),
                "altered-id-accepted",
                &|id, _, _| id ^ (1i64 << b1) ^ (1i64 << b2),
                &mut out,
            )?;
        }
    }
    must_reject(case, "the bitwise complement of an id", "altered-id-accepted", &|id, _, _| !id, &mut out)?;
    let rid = case.random_id;
    must_reject(case, "a random id", "forged-id-accepted", &move |id, _, _| if rid == id { !rid } else { rid }, &mut out)?;
    must_reject(case, "an id issued by another validator instance (previous run)", "previous-run-id-accepted", &|_, id2, _| id2, &mut out)?;

    let d = case.t1 as i128 - case.t0 as i128;
    let age = case.age as i128;
    if (d - age).abs() <= 1 {
        out.label("expiry-boundary");
        out.nontrivial = true;
    }
    if (-d - 60).abs() <= 1 {
        out.label("future-boundary");
        out.nontrivial = true;
    }
    if case.age == 0 || case.age >= u32::MAX - 1 {
        out.label("age-extreme");
        out.nontrivial = true;
    }
    if want {
        out.label("accepted");
    } else {
        out.label("rejected");
    }
    Ok(out)
}

/// Addresses built from the bytes of `octets` (4 or 16): other family, zero padding on either
/// side, the well-known IPv4-in-IPv6 embeddings, reversal, rotation.
fn related_addresses(octets: &[u8]) -> Vec<IpAddr> {
    let v6 = |b: [u8; 16]| IpAddr::V6(Ipv6Addr::from(b));
    let v4 = |b: &[u8]| IpAddr::V4(Ipv4Addr::new(b[0], b[1], b[2], b[3]));
    let mut out = Vec::new();
    if octets.len() == 4 {
        let put = |prefix: &[u8], at: usize| {
            let mut b = [0u8; 16];
            b[..prefix.len()].copy_from_slice(prefix);
            b[at..at + 4].copy_from_slice(octets);
            b
        };
        out.push(v6(put(&[], 12))); // ::a.b.c.d (IPv4-compatible)
        out.push(v6(put(&[], 0))); // a.b.c.d:: (left-aligned)
        out.push(v6(put(&[], 4)));
        out.push(v6(put(&[], 8)));
        out.push(v6(put(&[0, 0, 0, 0, 0, 0, 0, 0, 0xff, 0xff, 0, 0], 12))); // ::ffff:0:a.b.c.d (SIIT)
        out.push(v6(put(&[0, 0x64, 0xff, 0x9b], 12))); // 64:ff9b::a.b.c.d (NAT64)
        out.push(v6(put(&[0x20, 0x02], 2))); // 2002:a.b.c.d:: (6to4)
        out.push(v6(put(&[0xff, 0xff], 12)));
        let mut rep = [0u8; 16];
        for i in 0..16 {
            rep[i] = octets[i % 4];
        }
        out.push(v6(rep));
        out.push(v4(&[octets[3], octets[2], octets[1], octets[0]]));
        out.push(v4(&[octets[1], octets[2], octets[3], octets[0]]));
    } else {
        out.push(v4(&octets[0..4]));
        out.push(v4(&octets[4..8]));
        out.push(v4(&octets[8..12]));
        out.push(v4(&octets[12..16]));
        let mut b = [0u8; 16];
        b[12..].copy_from_slice(&octets[12..]);
        out.push(v6(b)); // only the low 32 bits kept
        let mut b = [0u8; 16];
        b[..4].copy_from_slice(&octets[..4]);
        out.push(v6(b));
        let mut b = [0u8; 16];
        b[..8].copy_from_slice(&octets[..8]);
        out.push(v6(b)); // only the /64 prefix kept
        let mut b = [0u8; 16];
        b[8..].copy_from_slice(&octets[8..]);
        out.push(v6(b));
        let mut b = [0u8; 16];
        b[..8].copy_from_slice(&octets[8..]);
        b[8..].copy_from_slice(&octets[..8]);
        out.push(v6(b)); // halves swapped
        let mut b = [0u8; 16];
        for i in 0..16 {
            b[i] = octets[15 - i];
        }
        out.push(v6(b));
    }
    out
}

fn ip_spec() -> impl Strategy<Value = IpSpec> + Clone {
    prop_oneof![
        any::<[u8; 4]>().prop_map(IpSpec::V4),
        any::<[u8; 16]>().prop_map(IpSpec::V6),
        any::<[u8; 4]>().prop_map(IpSpec::Mapped),
        Just(IpSpec::V4([127, 0, 0, 1])),
        Just(IpSpec::V6([0; 16])),
        any::<[u8; 4]>().prop_map(|b| { let mut a = [0u8; 16]; a[12..].copy_from_slice(&b); IpSpec::V6(a) }),
        any::<[u8; 4]>().prop_map(|b| { let mut a = [0u8; 16]; a[..4].copy_from_slice(&b); IpSpec::V6(a) }),
        Just(IpSpec::Mapped([127, 0, 0, 1])),
    ]
}

fn strategy() -> impl Strategy<Value = Case> {
    let age = prop_oneof![
        Just(0u32),
        Just(1u32),
        Just(2u32),
        Just(59u32),
        Just(60u32),
        Just(61u32),
        Just(120u32),
        Just(u32::MAX - 1),
        Just(u32::MAX),
        any::<u32>(),
        0u32..100_000
    ];
    let t0 = prop_oneof![
        Just(0u32),
        Just(1u32),
        Just(60u32),
        Just(61u32),
        any::<u32>(),
        0u32..1_000_000,
        (u32::MAX - 61)..=u32::MAX
    ];
    (age, t0)
        .prop_flat_map(|(age, t0)| {
            let deltas = prop_oneof![
                Just(0i128),
                Just(age as i128 - 1),
                Just(age as i128),
                Just(age as i128 + 1),
                Just(-1i128),
                Just(-59i128),
                Just(-60i128),
                Just(-61i128),
                Just(-62i128),
                (-200i128..200),
                any::<u32>().prop_map(|x| x as i128),
                any::<u32>().prop_map(|x| -(x as i128)),
            ];
            (Just(age), Just(t0), deltas)
        })
        .prop_flat_map(|(age, t0, delta)| {
            let t1 = (t0 as i128 + delta).clamp(0, u32::MAX as i128) as u32;
            (
                ip_spec(),
                any::<u16>(),
                any::<u16>(),
                ip_spec(),
                Just(age),
                Just(t0),
                Just(t1),
                proptest::collection::vec((0u8..64, 0u8..64), 0..6),
                any::<i64>(),
            )
        })
        .prop_map(
            |(ip, port, other_port, other_ip, age, t0, t1, double_flips, random_id)| Case {
                ip,
                port,
                other_port,
                other_ip,
                age,
                t0,
                t1,
                double_flips,
                random_id,
            },
        )
}

pub fn run(ctx: &mut Ctx) {
    ctx.assume("the validator's seconds_since_start is set through the verif hook instead of Instant::now(); update_elapsed itself (dur.as_secs() as u32) and its callers in the socket workers are exercised by the `wire-window` sub-check against real time");
    ctx.assume("keyed BLAKE3 is a PRF; acceptance of an altered id is re-tried under two fresh keys before being reported");
    let clock = crate::checks::clock::Background::start(crate::checks::clock::conn_clock_cases(ctx.seed, ctx.tier), crate::checks::clock::prop_conn_clock);
    ctx.run_regress::<Case, _>("window", prop);
    let n = ctx.tier.pick(60_000, 2_000_000);
    ctx.run_prop("window", n, strategy, prop);
    ctx.require_label("window", "expiry-boundary", 0.05);
    ctx.require_label("window", "future-boundary", 0.03);
    ctx.require_label("window", "accepted", 0.10);
    ctx.require_label("window", "rejected", 0.10);
    ctx.require_label("window", "related-address-tried", 0.9);
    // on the wire against real time: the socket workers keep the validator's clock current
    ctx.confirm_runs = 2;
    ctx.run_regress::<crate::checks::clock::ConnClockCase, _>("wire-window", crate::checks::clock::prop_conn_clock);
    clock.finish(ctx, "wire-window", crate::checks::clock::prop_conn_clock);
    ctx.confirm_runs = 0;
    ctx.require_label("wire-window", "rejected-after-window", 0.7);
}

pub fn replay(path: &str, _sub: &str, case: serde_json::Value) -> i32 {
    if _sub == "wire-window" {
        return replay_one::<crate::checks::clock::ConnClockCase, _>("C05", path, case, crate::checks::clock::prop_conn_clock);
    }
    replay_one::<Case, _>("C05", path, case, prop)
}
