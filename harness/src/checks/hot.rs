//! Sub-check `constant-swarm-under-load` (C20, also run by C04): free-running worker threads
//! re-announce a *fixed* set of peers (same addresses, same status, deadlines far in the future)
//! on a few hot torrents while the cleaning thread runs pass after pass with statistics and the
//! export on. Whatever the interleaving, the stored state never changes, so every sequential
//! execution of the same operations reports the same thing: after **each** pass the totals must be
//! exactly (torrents, peers) of the fixed set, each export must list every torrent with its true
//! seeder / leecher counts, every concurrent scrape and announce reply must show the fixed counts,
//! and no PeerRemoved may be emitted. A pass that skips, double-counts or half-reads a busy
//! torrent shows up here although no single-threaded history can expose it.

use std::collections::BTreeSet;
use std::net::{IpAddr, Ipv4Addr, Ipv6Addr, SocketAddr};
use std::num::NonZeroU16;
use std::sync::atomic::{AtomicBool, AtomicU64, Ordering};
use std::sync::Arc;

use aquatic_common::access_list::AccessListArcSwap;
use aquatic_common::{CanonicalSocketAddr, SecondsSinceServerStart, ValidUntil};
use aquatic_udp::common::StatisticsMessage;
use aquatic_udp::config::Config;
use aquatic_udp::swarm::TorrentMaps;
use aquatic_udp_protocol::*;
use rand::rngs::SmallRng;
use rand::SeedableRng;
use serde::{Deserialize, Serialize};

use crate::engine::*;
use crate::vfail;

#[derive(Debug, Clone, PartialEq, Serialize, Deserialize)]
pub struct HotCase {
    /// worker threads re-announcing
    pub threads: usize,
    /// hot torrents (first bytes chosen so that some share a shard)
    pub torrents: u8,
    /// peers per torrent: 1-2 = inline representation, more = heap
    pub peers_per_torrent: u8,
    /// every n-th peer is a seeder (0 = none)
    pub seeder_every: u8,
    /// cleaning passes to observe
    pub passes: u32,
    /// 0 = IPv4 peers, 1 = IPv6 peers, 2 = both
    pub family: u8,
    pub export: bool,
}

fn torrent_hash(t: u8) -> [u8; 20] {
    let mut h = [0x77u8; 20];
    // 0, 16, 1, 17, ...: pairs share a shard (first byte % 16)
    h[0] = (t / 2) + 16 * (t % 2);
    h[19] = t;
    h
}

fn peer_addr(fam: u8, i: u16) -> (IpAddr, u16) {
    let port = 2000 + i / 3;
    match fam {
        0 => (IpAddr::V4(Ipv4Addr::new(10, 0, (i % 3) as u8, 1)), port),
        _ => (IpAddr::V6(Ipv6Addr::new(0x2001, 0xdb8, 0, 0, 0, 0, (i % 3) as u16, 1)), port),
    }
}

fn request(t: u8, i: u16, seeder: bool) -> AnnounceRequest {
    let mut pid = [b'h'; 20];
    pid[0] = i as u8;
    pid[1] = t;
    AnnounceRequest {
        connection_id: ConnectionId::new(0),
        action_placeholder: Default::default(),
        transaction_id: TransactionId::new(0),
        info_hash: InfoHash(torrent_hash(t)),
        peer_id: PeerId(pid),
        bytes_downloaded: NumberOfBytes::new(0),
        bytes_left: NumberOfBytes::new(if seeder { 0 } else { 1 }),
        bytes_uploaded: NumberOfBytes::new(0),
        event: AnnounceEvent::None,
        ip_address: Ipv4AddrBytes([0; 4]),
        key: aquatic_udp_protocol::PeerKey::new(0),
        peers_wanted: NumberOfPeers::new(2),
        port: Port::new(NonZeroU16::new(peer_addr(0, i).1).unwrap()),
    }
}

pub fn prop_hot(c: &HotCase) -> CaseResult {
    let mut out = Outcome::default();
    let dir = tempfile::Builder::new().prefix("vcheck-hot-").tempdir_in("/dev/shm").or_else(|_| tempfile::tempdir()).map_err(|e| Violation::new("inconclusive-io", e.to_string()))?;
    let mut config = Config::default();
    config.protocol.max_response_peers = 30;
    config.statistics.print_to_stdout = false;
    config.statistics.write_html_to_file = true; // makes statistics "active"; nothing is written here
    config.statistics.peer_clients = true;
    config.statistics.torrent_peer_histograms = true;
    config.scrape_exports.enable_scrape_exports = c.export;
    config.scrape_exports.path = dir.path().join("export.txt");
    let maps = TorrentMaps::default();
    let statistics: aquatic_udp::common::CachePaddedArc<aquatic_udp::common::IpVersionStatistics<aquatic_udp::common::SwarmWorkerStatistics>> = Default::default();
    let access_list = Arc::new(AccessListArcSwap::default());
    let (tx, rx) = crossbeam_channel::unbounded::<StatisticsMessage>();
    let families: Vec<u8> = match c.family % 3 {
        0 => vec![0],
        1 => vec![1],
        _ => vec![0, 1],
    };
    let far = ValidUntil::new_raw(SecondsSinceServerStart::new_raw(1_000_000));
    let n_t = c.torrents.max(1);
    let n_p = c.peers_per_torrent.max(1) as u16;
    let is_seeder = |i: u16| c.seeder_every > 0 && i % c.seeder_every as u16 == 0;
    // fill
    {
        let mut rng = SmallRng::seed_from_u64(1);
        for fam in families.iter() {
            for t in 0..n_t {
                for i in 0..n_p {
                    let (ip, _) = peer_addr(*fam, i);
                    maps.announce(&config, &tx, &mut rng, &request(t, i, is_seeder(i)), CanonicalSocketAddr::new(SocketAddr::new(ip, 1)), far);
                }
            }
        }
    }
    while rx.try_recv().is_ok() {}
    let seeders = (0..n_p).filter(|i| is_seeder(*i)).count() as i32;
    let leechers = n_p as i32 - seeders;
    let stop = Arc::new(AtomicBool::new(false));
    let announces = Arc::new(AtomicU64::new(0));
    let bad_reply: Arc<std::sync::Mutex<Option<String>>> = Arc::new(std::sync::Mutex::new(None));
    let mut handles = Vec::new();
    for w in 0..c.threads.max(1) {
        let (maps, config, tx, stop, announces, bad_reply, families) = (maps.clone(), config.clone(), tx.clone(), stop.clone(), announces.clone(), bad_reply.clone(), families.clone());
        let seeder_every = c.seeder_every;
        handles.push(std::thread::spawn(move || {
            let mut rng = SmallRng::seed_from_u64(w as u64 + 7);
            let mut k = w as u64;
            while !stop.load(Ordering::Relaxed) {
                k = k.wrapping_mul(6364136223846793005).wrapping_add(1442695040888963407);
                let fam = families[(k >> 40) as usize % families.len()];
                let t = ((k >> 33) % n_t as u64) as u8;
                let i = ((k >> 20) % n_p as u64) as u16;
                let seeder = seeder_every > 0 && i % seeder_every as u16 == 0;
                let (ip, _) = peer_addr(fam, i);
                let src = CanonicalSocketAddr::new(SocketAddr::new(ip, 1));
                if (k >> 12) % 4 == 0 {
                    let r = maps.scrape(ScrapeRequest { connection_id: ConnectionId::new(0), transaction_id: TransactionId::new(0), info_hashes: vec![InfoHash(torrent_hash(t))] }, src);
                    let got = r.torrent_stats.first().map(|s| (s.seeders.0.get(), s.leechers.0.get()));
                    if got != Some((seeders, leechers)) {
                        *bad_reply.lock().unwrap() = Some(format!("scrape of torrent {t} returned {:?}, stored are {seeders} seeders / {leechers} leechers", got));
                    }
                } else {
                    let r = maps.announce(&config, &tx, &mut rng, &request(t, i, seeder), src, far);
                    // announce counts exclude the announcer
                    let want = (seeders - seeder as i32, leechers - (!seeder) as i32);
                    let got = match r {
                        Response::AnnounceIpv4(a) => (a.fixed.seeders.0.get(), a.fixed.leechers.0.get()),
                        Response::AnnounceIpv6(a) => (a.fixed.seeders.0.get(), a.fixed.leechers.0.get()),
                        _ => (-1, -1),
                    };
                    if got != want {
                        *bad_reply.lock().unwrap() = Some(format!("re-announce of peer {i} in torrent {t} was answered with {:?} seeders/leechers, stored others are {:?}", got, want));
                    }
                }
                announces.fetch_add(1, Ordering::Relaxed);
            }
        }));
    }
    let want_torrents = n_t as usize;
    let want_peers = n_t as usize * n_p as usize;
    let want_export: BTreeSet<String> = families
        .iter()
        .flat_map(|fam| (0..n_t).map(move |t| format!("{} {} {} {}", if *fam == 0 { 4 } else { 6 }, crate::checks::reports::hex(&torrent_hash(t)), seeders, leechers)))
        .collect();
    let mut failure: Option<Violation> = None;
    let mut last_count = 0u64;
    let mut passes_with_traffic = 0u32;
    let loop_start = std::time::Instant::now();
    let mut passes_done = 0u32;
    for pass in 0..c.passes {
        // on a starved machine every paced pass costs a trip through the scheduler: the case ends
        // after 8 s with the passes it has made (at least 200, otherwise it is undecided)
        if loop_start.elapsed() > std::time::Duration::from_secs(8) {
            break;
        }
        passes_done += 1;
        // pace the passes by the workers' progress, so that every pass runs among announces
        // whatever the machine's load (a starved machine makes the case slower, not emptier)
        let t0 = std::time::Instant::now();
        while announces.load(Ordering::Relaxed) <= last_count {
            if t0.elapsed() > std::time::Duration::from_secs(20) {
                stop.store(true, Ordering::SeqCst);
                return Err(Violation::new("inconclusive-workers-stalled", "no announce completed within 20 s"));
            }
            std::thread::yield_now();
        }
        maps.clean_and_update_statistics(&config, &statistics, &tx, &access_list, SecondsSinceServerStart::new_raw(10 + pass), c.export);
        passes_with_traffic += 1;
        last_count = announces.load(Ordering::Relaxed);
        for fam in families.iter() {
            let s = if *fam == 0 { &statistics.ipv4 } else { &statistics.ipv6 };
            let got = (s.torrents.load(Ordering::Relaxed), s.peers.load(Ordering::Relaxed));
            if got != (want_torrents, want_peers) && failure.is_none() {
                failure = Some(Violation::new(
                    "totals-differ-under-load",
                    format!("cleaning pass {pass} while {} threads re-announce a fixed set of peers: reported {} torrents / {} peers for IPv{}, stored are {want_torrents} / {want_peers}", c.threads, got.0, got.1, if *fam == 0 { 4 } else { 6 }),
                ));
            }
        }
        if c.export && failure.is_none() {
            let text = std::fs::read_to_string(&config.scrape_exports.path).unwrap_or_default();
            let got: BTreeSet<String> = text.lines().map(|l| l.to_string()).collect();
            if got != want_export || text.lines().count() != want_export.len() {
                failure = Some(Violation::new("export-differs-under-load", format!("cleaning pass {pass} while {} threads re-announce a fixed set of peers: export lists {:?}, stored are {:?}", c.threads, got, want_export)));
            }
        }
        while let Ok(m) = rx.try_recv() {
            if let StatisticsMessage::PeerRemoved(id) = m {
                if failure.is_none() {
                    failure = Some(Violation::new("peer-removed-under-load", format!("PeerRemoved({:?}) emitted although no peer stopped, changed id or expired", &id.0[..2])));
                }
            }
        }
        out.checks += 2;
        if failure.is_some() {
            break;
        }
    }
    stop.store(true, Ordering::SeqCst);
    for h in handles {
        let _ = h.join();
    }
    if let Some(v) = failure {
        return Err(v);
    }
    if let Some(m) = bad_reply.lock().unwrap().take() {
        vfail!("reply-differs-under-load", "{}", m);
    }
    if passes_done < c.passes.min(200) {
        return Err(Violation::new("inconclusive-too-slow", format!("only {passes_done} cleaning passes in 8 s")));
    }
    if passes_done < c.passes {
        out.label("pass-budget-cut-by-time");
    }
    if passes_with_traffic * 2 >= passes_done {
        out.nontrivial = true;
        out.label("passes-overlapped-by-announces");
    }
    out.label(if n_p <= 2 { "inline-maps" } else { "heap-maps" });
    Ok(out)
}

pub fn cases(seed: u64, tier: Tier) -> Vec<HotCase> {
    let mut v = Vec::new();
    let n = tier.pick(24u64, 200);
    for i in 0..n {
        let mut x = derive_seed(seed, "C20", "constant-swarm-under-load", i);
        let mut next = |m: u64| {
            x = x.wrapping_mul(6364136223846793005).wrapping_add(1442695040888963407);
            (x >> 33) % m
        };
        v.push(HotCase {
            threads: 2 + next(5) as usize,
            torrents: 1 + next(4) as u8,
            peers_per_torrent: [1u8, 2, 3, 5, 12][next(5) as usize],
            seeder_every: next(4) as u8,
            passes: tier.pick(3000, 20_000),
            family: next(3) as u8,
            export: i % 3 == 0,
        });
    }
    v
}
