//! C03 — Stored peer addresses are the real source addresses (DESIGN.md §6 C03)

use std::net::{IpAddr, Ipv4Addr, Ipv6Addr, SocketAddr};

use aquatic_common::{CanonicalSocketAddr, SecondsSinceServerStart, ValidUntil};
use aquatic_http::config::Config as HttpConfig;
use aquatic_http::verif_api::{parse_request, TorrentMaps as HttpMaps};
use aquatic_http_protocol::request::Request;
use proptest::prelude::*;
use rand::rngs::SmallRng;
use rand::SeedableRng;
use serde::{Deserialize, Serialize};

use crate::engine::*;
use crate::models::canonical_ip;
use crate::udpdrv::{self, GenParams, UdpCase};
use crate::{vensure, vfail};

pub const RULE: &str = "(canonical) CanonicalSocketAddr::new / get / get_ipv6_mapped / is_ipv4 and the WS IpVersion::canonical_from_ip over v4, v6, ::ffff:a.b.c.d and near-misses (::fffe:.., ::ffff:0:a.b.c.d, ::a.b.c.d) against std's Ipv6Addr::to_ipv4_mapped; (header) HTTP requests constructed from a generated layout - 1..4 occurrences of the configured header among 0..12 other headers, each a comma list of 1..4 addresses (v4, v6, mapped) with generated blanks, plus ip=/ipv4=/ipv6= query parameters naming a victim - parsed by the real parse_request in reverse-proxy and direct mode, the resulting peer address computed as connection.rs does, announced into the real storage and read back by an observer: it must be (last address of the last occurrence | TCP peer, canonicalised) + announced port; (udp-storage) C01's storage driver with v4 / v6 / v4-mapped sources and arbitrary in-request ip fields: every reply and observation equals the model keyed by canonical source IP (a mapped source and its plain IPv4 twin are one entry). End-to-end socket configurations are the `e2e` sub-check. non-trivial = mapped or v6 source, non-zero in-request ip, >= 2 header occurrences or a comma list; distinct = distinct serialised case";

#[derive(Debug, Clone, Serialize, Deserialize)]
pub enum AddrSpec {
    V4([u8; 4]),
    V6([u8; 16]),
}

impl AddrSpec {
    fn ip(&self) -> IpAddr {
        match self {
            AddrSpec::V4(b) => IpAddr::V4(Ipv4Addr::from(*b)),
            AddrSpec::V6(b) => IpAddr::V6(Ipv6Addr::from(*b)),
        }
    }
}

#[derive(Debug, Clone, Serialize, Deserialize)]
pub struct CanonCase {
    pub addr: AddrSpec,
    pub port: u16,
}

pub fn prop_canon(c: &CanonCase) -> CaseResult {
    let mut out = Outcome::default();
    let ip = c.addr.ip();
    let want_ip = canonical_ip(ip);
    let got = CanonicalSocketAddr::new(SocketAddr::new(ip, c.port));
    out.checks += 5;
    vensure!(
        got.get() == SocketAddr::new(want_ip, c.port),
        "canonical-addr",
        "CanonicalSocketAddr::new({ip}:{}) = {}, expected {}:{}",
        c.port,
        got.get(),
        want_ip,
        c.port
    );
    vensure!(got.is_ipv4() == want_ip.is_ipv4(), "canonical-is-ipv4", "is_ipv4 = {} for {}", got.is_ipv4(), ip);
    vensure!(
        got.get_ipv4() == if want_ip.is_ipv4() { Some(SocketAddr::new(want_ip, c.port)) } else { None },
        "canonical-get-ipv4",
        "get_ipv4 = {:?}",
        got.get_ipv4()
    );
    // get_ipv6_mapped then new is the identity on canonical addresses
    let mapped = got.get_ipv6_mapped();
    vensure!(mapped.is_ipv6(), "canonical-mapped-not-v6", "get_ipv6_mapped = {mapped}");
    vensure!(
        CanonicalSocketAddr::new(mapped) == got,
        "canonical-mapped-roundtrip",
        "new(get_ipv6_mapped({})) = {:?}",
        got.get(),
        CanonicalSocketAddr::new(mapped)
    );
    let v = aquatic_ws::common::IpVersion::canonical_from_ip(ip);
    let ws_v4 = matches!(v, aquatic_ws::common::IpVersion::V4);
    vensure!(ws_v4 == want_ip.is_ipv4(), "ws-ip-version", "ws canonical_from_ip({ip}) = {:?}", v);
    if let IpAddr::V6(a) = ip {
        if a.to_ipv4_mapped().is_some() {
            out.label("mapped");
            out.nontrivial = true;
        } else if a.octets()[..10] == [0; 10] {
            out.label("near-miss");
            out.nontrivial = true;
        } else {
            out.label("v6");
        }
    } else {
        out.label("v4");
    }
    Ok(out)
}

fn addr_spec() -> impl Strategy<Value = AddrSpec> {
    prop_oneof![
        3 => any::<[u8; 4]>().prop_map(AddrSpec::V4),
        3 => any::<[u8; 16]>().prop_map(AddrSpec::V6),
        3 => any::<[u8; 4]>().prop_map(|b| AddrSpec::V6(Ipv4Addr::from(b).to_ipv6_mapped().octets())),
        // near misses of the mapped prefix
        1 => any::<[u8; 4]>().prop_map(|b| { let mut o = [0u8; 16]; o[10] = 0xff; o[11] = 0xfe; o[12..].copy_from_slice(&b); AddrSpec::V6(o) }),
        1 => any::<[u8; 4]>().prop_map(|b| { let mut o = [0u8; 16]; o[8] = 0xff; o[9] = 0xff; o[12..].copy_from_slice(&b); AddrSpec::V6(o) }),
        1 => any::<[u8; 4]>().prop_map(|b| { let mut o = [0u8; 16]; o[12..].copy_from_slice(&b); AddrSpec::V6(o) }),
        1 => (any::<[u8; 4]>(), 0usize..10, 1u8..=255).prop_map(|(b, i, x)| { let mut o = Ipv4Addr::from(b).to_ipv6_mapped().octets(); o[i] = x; AddrSpec::V6(o) }),
        1 => (any::<[u8; 4]>(), 10usize..12, 0u8..255).prop_map(|(b, i, x)| { let mut o = Ipv4Addr::from(b).to_ipv6_mapped().octets(); o[i] = x; AddrSpec::V6(o) }),
    ]
}

// ---- header extraction ---------------------------------------------------------------------

#[derive(Debug, Clone, Serialize, Deserialize)]
pub struct HeaderCase {
    pub reverse_proxy: bool,
    /// index into HEADER_NAMES
    pub header_name: u8,
    /// occurrences of the configured header: each a list of (address, blanks before, blanks after)
    pub occurrences: Vec<Vec<(AddrSpec, u8, u8)>>,
    /// positions (among all headers) where the occurrences go
    pub positions: Vec<u8>,
    pub others: Vec<(u8, u8)>,
    pub tcp_peer: AddrSpec,
    pub tcp_port: u16,
    pub announced_port: u16,
    /// victim named in ip= / ipv4= / ipv6= query parameters
    pub victim: Option<AddrSpec>,
}

const HEADER_NAMES: [&str; 3] = ["X-Forwarded-For", "X-Real-IP", "Fly-Client-IP"];
const OTHER_NAMES: [&str; 8] = ["Host", "User-Agent", "Accept", "Accept-Encoding", "Connection", "X-Forwarded-Proto", "Forwarded", "Via"];
const OTHER_VALUES: [&str; 6] = ["example.com", "curl/8", "*/*", "gzip", "10.1.1.1", "for=9.9.9.9"];

fn blanks(n: u8) -> &'static str {
    ["", " ", "  ", "\t", " \t "][n as usize % 5]
}

pub fn prop_header(c: &HeaderCase) -> CaseResult {
    let mut out = Outcome::default();
    let name = HEADER_NAMES[c.header_name as usize % HEADER_NAMES.len()];
    let mut config = HttpConfig::default();
    config.network.runs_behind_reverse_proxy = c.reverse_proxy;
    config.network.reverse_proxy_ip_header_name = name.to_string();
    // header lines
    let mut lines: Vec<String> = c
        .others
        .iter()
        .map(|(n, v)| {
            let mut on = OTHER_NAMES[*n as usize % OTHER_NAMES.len()].to_string();
            if on == name {
                on.push_str("-Other");
            }
            format!("{}: {}", on, OTHER_VALUES[*v as usize % OTHER_VALUES.len()])
        })
        .collect();
    // a decoy with one of the other candidate names (must not be used)
    let decoy = HEADER_NAMES[(c.header_name as usize + 1) % HEADER_NAMES.len()];
    lines.push(format!("{decoy}: 203.0.113.77"));
    let mut expected_hdr: Option<IpAddr> = None;
    // insert occurrences at generated positions, keeping their relative order
    let mut occ_lines: Vec<(usize, String, IpAddr)> = Vec::new();
    for (i, occ) in c.occurrences.iter().enumerate() {
        if occ.is_empty() {
            continue;
        }
        let value: Vec<String> = occ.iter().map(|(a, b1, b2)| format!("{}{}{}", blanks(*b1), a.ip(), blanks(*b2))).collect();
        let pos = c.positions.get(i).copied().unwrap_or(0) as usize;
        occ_lines.push((pos, format!("{name}: {}", value.join(",")), occ.last().unwrap().0.ip()));
    }
    let n_occ = occ_lines.len();
    for (pos, line, last_ip) in occ_lines {
        let at = pos % (lines.len() + 1);
        lines.insert(at, line);
        let _ = last_ip;
    }
    // the expected address = last address of the LAST occurrence in wire order
    for l in lines.iter() {
        if let Some(v) = l.strip_prefix(&format!("{name}: ")) {
            let last = v.split(',').last().unwrap().trim_matches(|ch| ch == ' ' || ch == '\t');
            expected_hdr = last.parse().ok();
        }
    }
    if lines.len() > 16 {
        return Ok(out); // more than 16 headers is outside the documented domain
    }
    let mut query = format!(
        "info_hash=%01%02%03%04%05%06%07%08%09%0a%0b%0c%0d%0e%0f%10%11%12%13%14&peer_id=-TR2940-abcdefghijkl&port={}&uploaded=0&downloaded=0&left=1&event=started",
        c.announced_port
    );
    if let Some(v) = &c.victim {
        query.push_str(&format!("&ip={}&ipv4={}&ipv6={}", v.ip(), v.ip(), v.ip()));
    }
    let wire = format!("GET /announce?{query} HTTP/1.1\r\n{}\r\n\r\n", lines.join("\r\n"));
    if c.reverse_proxy && n_occ == 0 {
        // missing header behind a reverse proxy is a documented operator error (panic): not generated
        return Ok(out);
    }
    let (request, opt_ip) = match parse_request(&config, wire.as_bytes()) {
        Ok(x) => x,
        Err(e) => vfail!("request-rejected", "well-formed request rejected: {e:#}; wire {wire:?}"),
    };
    // peer address as connection.rs computes it
    let tcp = SocketAddr::new(c.tcp_peer.ip(), c.tcp_port);
    let peer_addr = if c.reverse_proxy {
        let ip = match opt_ip {
            Some(ip) => ip,
            None => vfail!("header-ip-missing", "reverse-proxy mode but parse_request returned no peer ip; wire {wire:?}"),
        };
        CanonicalSocketAddr::new(SocketAddr::new(ip, tcp.port()))
    } else {
        vensure!(opt_ip.is_none(), "header-used-without-proxy", "direct mode but parse_request extracted {:?}", opt_ip);
        CanonicalSocketAddr::new(tcp)
    };
    let want_ip = canonical_ip(if c.reverse_proxy { expected_hdr.expect("constructed") } else { tcp.ip() });
    out.checks += 1;
    if c.reverse_proxy {
        vensure!(
            opt_ip == expected_hdr,
            "header-wrong-address",
            "parse_request extracted {:?}; the last address of the last occurrence of {name} is {:?}; headers {:?}",
            opt_ip,
            expected_hdr,
            lines
        );
    }
    // announce into real storage; an observer must see exactly (want_ip, announced port)
    let ann = match request {
        Request::Announce(a) => a,
        other => vfail!("request-wrong-kind", "parsed as {:?}", other),
    };
    let hash = ann.info_hash;
    let mut maps = HttpMaps::new(0);
    let mut rng = SmallRng::seed_from_u64(1);
    let vu = ValidUntil::new_raw(SecondsSinceServerStart::new_raw(100));
    maps.handle_announce_request(&config, &mut rng, vu, peer_addr, ann.clone());
    let observer: IpAddr = if want_ip.is_ipv4() { "198.51.100.1".parse().unwrap() } else { "2001:db8::7".parse().unwrap() };
    let mut obs = ann.clone();
    obs.port = 1;
    obs.event = aquatic_http_protocol::common::AnnounceEvent::Stopped;
    let resp = maps.handle_announce_request(&config, &mut rng, vu, CanonicalSocketAddr::new(SocketAddr::new(observer, 5)), obs);
    let seen: Vec<(IpAddr, u16)> = resp
        .peers
        .0
        .iter()
        .map(|p| (IpAddr::V4(p.ip_address), p.port))
        .chain(resp.peers6.0.iter().map(|p| (IpAddr::V6(p.ip_address), p.port)))
        .collect();
    out.checks += 1;
    vensure!(
        seen == vec![(want_ip, c.announced_port)],
        "stored-address-wrong",
        "observer of torrent {:?} sees {:?}; the announce came from {} (reverse proxy: {}, header address {:?}, victim {:?}) with port {}",
        &hash.0[..2],
        seen,
        tcp,
        c.reverse_proxy,
        expected_hdr,
        c.victim.as_ref().map(|v| v.ip()),
        c.announced_port
    );
    if n_occ >= 2 {
        out.label("several-occurrences");
        out.nontrivial = true;
    }
    if c.occurrences.iter().any(|o| o.len() >= 2) {
        out.label("comma-list");
        out.nontrivial = true;
    }
    if c.victim.is_some() {
        out.label("victim-in-query");
        out.nontrivial = true;
    }
    if let IpAddr::V6(a) = if c.reverse_proxy { expected_hdr.unwrap() } else { tcp.ip() } {
        if a.to_ipv4_mapped().is_some() {
            out.label("mapped-source");
            out.nontrivial = true;
        }
    }
    out.label(if c.reverse_proxy { "reverse-proxy" } else { "direct" });
    Ok(out)
}

fn plain_addr() -> impl Strategy<Value = AddrSpec> + Clone {
    prop_oneof![
        3 => any::<[u8; 4]>().prop_map(AddrSpec::V4),
        2 => any::<[u8; 16]>().prop_map(AddrSpec::V6),
        2 => any::<[u8; 4]>().prop_map(|b| AddrSpec::V6(Ipv4Addr::from(b).to_ipv6_mapped().octets())),
    ]
}

fn header_case() -> impl Strategy<Value = HeaderCase> {
    (
        (any::<bool>(), 0u8..3),
        proptest::collection::vec(proptest::collection::vec((plain_addr(), 0u8..5, 0u8..5), 1..5), 0..5),
        proptest::collection::vec(any::<u8>(), 4),
        proptest::collection::vec((any::<u8>(), any::<u8>()), 0..11),
        (plain_addr(), 1u16..=u16::MAX, any::<u16>()),
        prop_oneof![1 => Just(None), 2 => plain_addr().prop_map(Some)],
    )
        .prop_map(|((reverse_proxy, header_name), occurrences, positions, others, (tcp_peer, tcp_port, announced_port), victim)| HeaderCase {
            reverse_proxy,
            header_name,
            occurrences,
            positions,
            others,
            tcp_peer,
            tcp_port,
            announced_port,
            victim,
        })
}

// ---- udp storage -----------------------------------------------------------------------------

pub fn prop_udp(case: &UdpCase) -> CaseResult {
    let mut o = udpdrv::run_udp_case(case, udpdrv::Oracles { stats_totals: true, ..Default::default() })?;
    let nonzero_req_ip = case.ops.iter().any(|op| matches!(op, udpdrv::UdpOp::Announce { req_ip, .. } if *req_ip != [0; 4]));
    if nonzero_req_ip {
        o.label("nonzero-in-request-ip");
    }
    o.nontrivial = nonzero_req_ip || o.labels.iter().any(|l| l == "mapped-source");
    Ok(o)
}

pub fn run(ctx: &mut Ctx) {
    ctx.assume("the peer address handed to HTTP storage is computed in the harness exactly as connection.rs does (CanonicalSocketAddr::new(remote_addr) or header ip + TCP peer port); the real socket path is the e2e sub-check");
    ctx.assume("reverse-proxy mode with a missing/invalid header panics by documented design and is not generated; at most 16 headers");
    ctx.run_regress::<CanonCase, _>("canonical", prop_canon);
    ctx.run_regress::<HeaderCase, _>("header", prop_header);
    ctx.run_regress::<UdpCase, _>("udp-storage", prop_udp);
    let t = ctx.tier;
    ctx.run_prop("canonical", t.pick(300_000, 3_000_000), || (addr_spec(), any::<u16>()).prop_map(|(addr, port)| CanonCase { addr, port }), prop_canon);
    ctx.require_label("canonical", "mapped", 0.1);
    ctx.require_label("canonical", "near-miss", 0.1);
    ctx.run_prop("header", t.pick(100_000, 1_500_000), header_case, prop_header);
    for l in ["several-occurrences", "comma-list", "victim-in-query", "mapped-source", "reverse-proxy", "direct"] {
        ctx.require_label("header", l, 0.05);
    }
    let p = GenParams { stop_w: 1, clean_w: 1, torrents: 2, max_ops: t.pick(40, 120), ips: 3, ports: 3, pids: 2, exports: false, access_list: false, max_ttl: 6 };
    ctx.run_prop("udp-storage", t.pick(60_000, 1_000_000), move || udpdrv::udp_case(p, false), prop_udp);
    ctx.require_label("udp-storage", "mapped-source", 0.3);
    ctx.require_label("udp-storage", "nonzero-in-request-ip", 0.3);
}

pub fn replay(path: &str, sub: &str, case: serde_json::Value) -> i32 {
    match sub {
        "canonical" => replay_one::<CanonCase, _>("C03", path, case, prop_canon),
        "header" => replay_one::<HeaderCase, _>("C03", path, case, prop_header),
        _ => replay_one::<UdpCase, _>("C03", path, case, prop_udp),
    }
}
