//! C03 — Stored peer addresses are the real source addresses (DESIGN.md §6 C03)

use std::net::{IpAddr, Ipv4Addr, Ipv6Addr, SocketAddr};

use aquatic_common::{CanonicalSocketAddr, SecondsSinceServerStart, ValidUntil};
use aquatic_http::config::Config as HttpConfig;
use aquatic_http::verif_api::{parse_request, TorrentMaps as HttpMaps};
use aquatic_http_protocol::request::Request;
use proptest::prelude::*;
use rand::rngs::SmallRng;
use rand::SeedableRng;
use serde::{Deserialize, Serialize};

use crate::engine::*;
use crate::models::canonical_ip;
use crate::udpdrv::{self, GenParams, UdpCase};
use crate::{vensure, vfail};

pub const RULE: &str = "(canonical) CanonicalSocketAddr::new / get / get_ipv6_mapped / is_ipv4 and the WS IpVersion::canonical_from_ip over v4, v6, ::ffff:a.b.c.d and near-misses (::fffe:.., ::ffff:0:a.b.c.d, ::a.b.c.d) against std's Ipv6Addr::to_ipv4_mapped; (header) HTTP requests constructed from a generated layout - 1..4 occurrences of the configured header among 0..12 other headers, each a comma list of 1..4 addresses (v4, v6, mapped) with generated blanks, plus ip=/ipv4=/ipv6= query parameters naming a victim - parsed by the real parse_request in reverse-proxy and direct mode, the resulting peer address computed as connection.rs does, announced into the real storage and read back by an observer: it must be (last address of the last occurrence | TCP peer, canonicalised) + announced port; (udp-storage) C01's storage driver with v4 / v6 / v4-mapped sources and arbitrary in-request ip fields: every reply and observation equals the model keyed by canonical source IP (a mapped source and its plain IPv4 twin are one entry). End-to-end socket configurations are the `e2e` sub-check (real trackers per socket mode; in reverse-proxy mode also 4-7 announces of different clients, each with its own header layout, alternating over two kept-alive upstream connections). non-trivial = mapped or v6 source, non-zero in-request ip, >= 2 header occurrences or a comma list; distinct = distinct serialised case";

#[derive(Debug, Clone, Serialize, Deserialize)]
pub enum AddrSpec {
    V4([u8; 4]),
    V6([u8; 16]),
}

impl AddrSpec {
    fn ip(&self) -> IpAddr {
        match self {
            AddrSpec::V4(b) => IpAddr::V4(Ipv4Addr::from(*b)),
            AddrSpec::V6(b) => IpAddr::V6(Ipv6Addr::from(*b)),
        }
    }
}

#[derive(Debug, Clone, Serialize, Deserialize)]
pub struct CanonCase {
    pub addr: AddrSpec,
    pub port: u16,
}

pub fn prop_canon(c: &CanonCase) -> CaseResult {
    let mut out = Outcome::default();
    let ip = c.addr.ip();
    let want_ip = canonical_ip(ip);
    let got = CanonicalSocketAddr::new(SocketAddr::new(ip, c.port));
    out.checks += 5;
    vensure!(
        got.get() == SocketAddr::new(want_ip, c.port),
        "canonical-addr",
        "CanonicalSocketAddr::new({ip}:{}) = {}, expected {}:{}",
        c.port,
        got.get(),
        want_ip,
        c.port
    );
    vensure!(got.is_ipv4() == want_ip.is_ipv4(), "canonical-is-ipv4", "is_ipv4 = {} for {}", got.is_ipv4(), ip);
    vensure!(
        got.get_ipv4() == if want_ip.is_ipv4() { Some(SocketAddr::new(want_ip, c.port)) } else { None },
        "canonical-get-ipv4",
        "get_ipv4 = {:?}",
        got.get_ipv4()
    );
    // get_ipv6_mapped then new is the identity on canonical addresses
    let mapped = got.get_ipv6_mapped();
    vensure!(mapped.is_ipv6(), "canonical-mapped-not-v6", "get_ipv6_mapped = {mapped}");
    vensure!(
        CanonicalSocketAddr::new(mapped) == got,
        "canonical-mapped-roundtrip",
        "new(get_ipv6_mapped({})) = {:?}",
        got.get(),
        CanonicalSocketAddr::new(mapped)
    );
    let v = aquatic_ws::common::IpVersion::canonical_from_ip(ip);
    let ws_v4 = matches!(v, aquatic_ws::common::IpVersion::V4);
    vensure!(ws_v4 == want_ip.is_ipv4(), "ws-ip-version", "ws canonical_from_ip({ip}) = {:?}", v);
    if let IpAddr::V6(a) = ip {
        if a.to_ipv4_mapped().is_some() {
            out.label("mapped");
            out.nontrivial = true;
        } else if a.octets()[..10] == [0; 10] {
            out.label("near-miss");
            out.nontrivial = true;
        } else {
            out.label("v6");
        }
    } else {
        out.label("v4");
    }
    Ok(out)
}

fn addr_spec() -> impl Strategy<Value = AddrSpec> {
    prop_oneof![
        3 => any::<[u8; 4]>().prop_map(AddrSpec::V4),
        3 => any::<[u8; 16]>().prop_map(AddrSpec::V6),
        3 => any::<[u8; 4]>().prop_map(|b| AddrSpec::V6(Ipv4Addr::from(b).to_ipv6_mapped().octets())),
        // near misses of the mapped prefix
        1 => any::<[u8; 4]>().prop_map(|b| { let mut o = [0u8; 16]; o[10] = 0xff; o[11] = 0xfe; o[12..].copy_from_slice(&b); AddrSpec::V6(o) }),
        1 => any::<[u8; 4]>().prop_map(|b| { let mut o = [0u8; 16]; o[8] = 0xff; o[9] = 0xff; o[12..].copy_from_slice(&b); AddrSpec::V6(o) }),
        1 => any::<[u8; 4]>().prop_map(|b| { let mut o = [0u8; 16]; o[12..].copy_from_slice(&b); AddrSpec::V6(o) }),
        1 => (any::<[u8; 4]>(), 0usize..10, 1u8..=255).prop_map(|(b, i, x)| { let mut o = Ipv4Addr::from(b).to_ipv6_mapped().octets(); o[i] = x; AddrSpec::V6(o) }),
        1 => (any::<[u8; 4]>(), 10usize..12, 0u8..255).prop_map(|(b, i, x)| { let mut o = Ipv4Addr::from(b).to_ipv6_mapped().octets(); o[i] = x; AddrSpec::V6(o) }),
    ]
}

// ---- header extraction ---------------------------------------------------------------------

#[derive(Debug, Clone, Serialize, Deserialize)]
pub struct HeaderCase {
    pub reverse_proxy: bool,
    /// index into HEADER_NAMES
    pub header_name: u8,
    /// occurrences of the configured header: each a list of (address, blanks before, blanks after)
    pub occurrences: Vec<Vec<(AddrSpec, u8, u8)>>,
    /// positions (among all headers) where the occurrences go
    pub positions: Vec<u8>,
    pub others: Vec<(u8, u8)>,
    pub tcp_peer: AddrSpec,
    pub tcp_port: u16,
    pub announced_port: u16,
    /// victim named in ip= / ipv4= / ipv6= query parameters
    pub victim: Option<AddrSpec>,
}

const HEADER_NAMES: [&str; 3] = ["X-Forwarded-For", "X-Real-IP", "Fly-Client-IP"];
const OTHER_NAMES: [&str; 8] = ["Host", "User-Agent", "Accept", "Accept-Encoding", "Connection", "X-Forwarded-Proto", "Forwarded", "Via"];
const OTHER_VALUES: [&str; 6] = ["example.com", "curl/8", "*/*", "gzip", "10.1.1.1", "for=9.9.9.9"];

fn blanks(n: u8) -> &'static str {
    ["", " ", "  ", "\t", " \t "][n as usize % 5]
}

pub fn prop_header(c: &HeaderCase) -> CaseResult {
    let mut out = Outcome::default();
    let name = HEADER_NAMES[c.header_name as usize % HEADER_NAMES.len()];
    let mut config = HttpConfig::default();
    config.network.runs_behind_reverse_proxy = c.reverse_proxy;
    config.network.reverse_proxy_ip_header_name = name.to_string();
    // header lines
    let mut lines: Vec<String> = c
        .others
        .iter()
        .map(|(n, v)| {
            let mut on = OTHER_NAMES[*n as usize % OTHER_NAMES.len()].to_string();
            if on == name {
                on.push_str("-Other");
            }
            format!("{}: {}", on, OTHER_VALUES[*v as usize % OTHER_VALUES.len()])
        })
        .collect();
    // a decoy with one of the other candidate names (must not be used)
    let decoy = HEADER_NAMES[(c.header_name as usize + 1) % HEADER_NAMES.len()];
    lines.push(format!("{decoy}: 203.0.113.77"));
    let mut expected_hdr: Option<IpAddr> = None;
    // insert occurrences at generated positions, keeping their relative order
    let mut occ_lines: Vec<(usize, String, IpAddr)> = Vec::new();
    for (i, occ) in c.occurrences.iter().enumerate() {
        if occ.is_empty() {
            continue;
        }
        let value: Vec<String> = occ.iter().map(|(a, b1, b2)| format!("{}{}{}", blanks(*b1), a.ip(), blanks(*b2))).collect();
        let pos = c.positions.get(i).copied().unwrap_or(0) as usize;
        occ_lines.push((pos, format!("{name}: {}", value.join(",")), occ.last().unwrap().0.ip()));
    }
    let n_occ = occ_lines.len();
    for (pos, line, last_ip) in occ_lines {
        let at = pos % (lines.len() + 1);
        lines.insert(at, line);
        let _ = last_ip;
    }
    // the expected address = last address of the LAST occurrence in wire order
    for l in lines.iter() {
        if let Some(v) = l.strip_prefix(&format!("{name}: ")) {
            let last = v.split(',').last().unwrap().trim_matches(|ch| ch == ' ' || ch == '\t');
            expected_hdr = last.parse().ok();
        }
    }
    if lines.len() > 16 {
        return Ok(out); // more than 16 headers is outside the documented domain
    }
    let mut query = format!(
        "info_hash=%01%02%03%04%05%06%07%08%09%0a%0b%0c%0d%0e%0f%10%11%12%13%14&peer_id=-TR2940-abcdefghijkl&port={}&uploaded=0&downloaded=0&left=1&event=started",
        c.announced_port
    );
    if let Some(v) = &c.victim {
        query.push_str(&format!("&ip={}&ipv4={}&ipv6={}", v.ip(), v.ip(), v.ip()));
    }
    let wire = format!("GET /announce?{query} HTTP/1.1\r\n{}\r\n\r\n", lines.join("\r\n"));
    if c.reverse_proxy && n_occ == 0 {
        // missing header behind a reverse proxy is a documented operator error (panic): not generated
        return Ok(out);
    }
    let (request, opt_ip) = match parse_request(&config, wire.as_bytes()) {
        Ok(x) => x,
        Err(e) => vfail!("request-rejected", "well-formed request rejected: {e:#}; wire {wire:?}"),
    };
    // peer address as connection.rs computes it
    let tcp = SocketAddr::new(c.tcp_peer.ip(), c.tcp_port);
    let peer_addr = if c.reverse_proxy {
        let ip = match opt_ip {
            Some(ip) => ip,
            None => vfail!("header-ip-missing", "reverse-proxy mode but parse_request returned no peer ip; wire {wire:?}"),
        };
        CanonicalSocketAddr::new(SocketAddr::new(ip, tcp.port()))
    } else {
        vensure!(opt_ip.is_none(), "header-used-without-proxy", "direct mode but parse_request extracted {:?}", opt_ip);
        CanonicalSocketAddr::new(tcp)
    };
    let want_ip = canonical_ip(if c.reverse_proxy { expected_hdr.expect("constructed") } else { tcp.ip() });
    out.checks += 1;
    if c.reverse_proxy {
        vensure!(
            opt_ip == expected_hdr,
            "header-wrong-address",
            "parse_request extracted {:?}; the last address of the last occurrence of {name} is {:?}; headers {:?}",
            opt_ip,
            expected_hdr,
            lines
        );
    }
    // announce into real storage; an observer must see exactly (want_ip, announced port)
    let ann = match request {
        Request::Announce(a) => a,
        other => vfail!("request-wrong-kind", "parsed as {:?}", other),
    };
    let hash = ann.info_hash;
    let mut maps = HttpMaps::new(0);
    let mut rng = SmallRng::seed_from_u64(1);
    let vu = ValidUntil::new_raw(SecondsSinceServerStart::new_raw(100));
    maps.handle_announce_request(&config, &mut rng, vu, peer_addr, ann.clone());
    let observer: IpAddr = if want_ip.is_ipv4() { "198.51.100.1".parse().unwrap() } else { "2001:db8::7".parse().unwrap() };
    let mut obs = ann.clone();
    obs.port = 1;
    obs.event = aquatic_http_protocol::common::AnnounceEvent::Stopped;
    let resp = maps.handle_announce_request(&config, &mut rng, vu, CanonicalSocketAddr::new(SocketAddr::new(observer, 5)), obs);
    let seen: Vec<(IpAddr, u16)> = resp
        .peers
        .0
        .iter()
        .map(|p| (IpAddr::V4(p.ip_address), p.port))
        .chain(resp.peers6.0.iter().map(|p| (IpAddr::V6(p.ip_address), p.port)))
        .collect();
    out.checks += 1;
    vensure!(
        seen == vec![(want_ip, c.announced_port)],
        "stored-address-wrong",
        "observer of torrent {:?} sees {:?}; the announce came from {} (reverse proxy: {}, header address {:?}, victim {:?}) with port {}",
        &hash.0[..2],
        seen,
        tcp,
        c.reverse_proxy,
        expected_hdr,
        c.victim.as_ref().map(|v| v.ip()),
        c.announced_port
    );
    if n_occ >= 2 {
        out.label("several-occurrences");
        out.nontrivial = true;
    }
    if c.occurrences.iter().any(|o| o.len() >= 2) {
        out.label("comma-list");
        out.nontrivial = true;
    }
    if c.victim.is_some() {
        out.label("victim-in-query");
        out.nontrivial = true;
    }
    if let IpAddr::V6(a) = if c.reverse_proxy { expected_hdr.unwrap() } else { tcp.ip() } {
        if a.to_ipv4_mapped().is_some() {
            out.label("mapped-source");
            out.nontrivial = true;
        }
    }
    out.label(if c.reverse_proxy { "reverse-proxy" } else { "direct" });
    Ok(out)
}

fn plain_addr() -> impl Strategy<Value = AddrSpec> + Clone {
    prop_oneof![
        3 => any::<[u8; 4]>().prop_map(AddrSpec::V4),
        2 => any::<[u8; 16]>().prop_map(AddrSpec::V6),
        2 => any::<[u8; 4]>().prop_map(|b| AddrSpec::V6(Ipv4Addr::from(b).to_ipv6_mapped().octets())),
    ]
}

fn header_case() -> impl Strategy<Value = HeaderCase> {
    (
        (any::<bool>(), 0u8..3),
        proptest::collection::vec(proptest::collection::vec((plain_addr(), 0u8..5, 0u8..5), 1..5), 0..5),
        proptest::collection::vec(any::<u8>(), 4),
        proptest::collection::vec((any::<u8>(), any::<u8>()), 0..11),
        (plain_addr(), 1u16..=u16::MAX, any::<u16>()),
        prop_oneof![1 => Just(None), 2 => plain_addr().prop_map(Some)],
    )
        .prop_map(|((reverse_proxy, header_name), occurrences, positions, others, (tcp_peer, tcp_port, announced_port), victim)| HeaderCase {
            reverse_proxy,
            header_name,
            occurrences,
            positions,
            others,
            tcp_peer,
            tcp_port,
            announced_port,
            victim,
        })
}

// ---- udp storage -----------------------------------------------------------------------------

pub fn prop_udp(case: &UdpCase) -> CaseResult {
    let mut o = udpdrv::run_udp_case(case, udpdrv::Oracles { stats_totals: true, ..Default::default() })?;
    let nonzero_req_ip = case.ops.iter().any(|op| matches!(op, udpdrv::UdpOp::Announce { req_ip, .. } if *req_ip != [0; 4]));
    if nonzero_req_ip {
        o.label("nonzero-in-request-ip");
    }
    o.nontrivial = nonzero_req_ip || o.labels.iter().any(|l| l == "mapped-source");
    Ok(o)
}

// ---- end to end: socket configurations ---------------------------------------------------------

#[derive(Debug, Clone, Serialize, Deserialize)]
pub struct E2eCase {
    /// "udp-mio" | "udp-uring" | "http" | "http-proxy" | "ws"
    pub tracker: String,
    pub mode: crate::e2e::SocketMode,
    pub port_a: u16,
    pub port_b: u16,
    pub victim: [u8; 4],
}

pub fn prop_e2e(c: &E2eCase) -> CaseResult {
    use crate::codecs::*;
    use crate::e2e::*;
    use std::time::Duration;
    let mut out = Outcome::default();
    let v4_reachable = !matches!(c.mode, SocketMode::V6Only);
    let v6_reachable = !matches!(c.mode, SocketMode::V4Only);
    let mapped_sources = matches!(c.mode, SocketMode::DualStackV6);
    let t5: IpAddr = "127.0.0.5".parse().unwrap();
    let t6: IpAddr = "127.0.0.6".parse().unwrap();
    let l6: IpAddr = "::1".parse().unwrap();
    let timeout = crate::e2e::reply_wait();
    match c.tracker.as_str() {
        "udp-mio" | "udp-uring" => {
            let uring = c.tracker == "udp-uring";
            let tr = start_udp(|port| udp_config(port, c.mode, uring, 2)).map_err(|e| Violation::new("inconclusive-tracker-start", e))?;
            let hash = [0x51u8; 20];
            let talk = |cl: &UdpClient, req: &dyn Fn(i64) -> Vec<u8>, v4: bool| -> Result<URsp, Violation> {
                cl.send(&bep15_encode_request(&UReq::Connect { tid: 1 })).map_err(|e| Violation::new("inconclusive-send", e))?;
                let cid = match cl.recv(timeout).map(|(b, _)| bep15_decode_response(&b, true)) {
                    Some(Ok(URsp::Connect { cid, .. })) => cid,
                    other => return Err(Violation::new("no-reply", format!("connect from {} not answered: {:?}", cl.local, other))),
                };
                cl.send(&req(cid)).map_err(|e| Violation::new("inconclusive-send", e))?;
                match cl.recv(timeout).map(|(b, _)| bep15_decode_response(&b, v4)) {
                    Some(Ok(r)) => Ok(r),
                    other => Err(Violation::new("no-reply", format!("request from {} not answered: {:?}", cl.local, other))),
                }
            };
            let ann = |port: u16, victim: [u8; 4]| move |cid: i64| bep15_encode_request(&UReq::Announce { cid, tid: 2, info_hash: hash, peer_id: [3; 20], downloaded: 0, left: 1, uploaded: 0, event: 2, ip: victim, key: 0, numwant: 10, port });
            let scrape = |cid: i64| bep15_encode_request(&UReq::Scrape { cid, tid: 3, hashes: vec![hash] });
            if v4_reachable || mapped_sources {
                // host 127.0.0.5 announces through a plain IPv4 socket and again (same announced
                // port) through a dual-stack client socket bound to ::ffff:127.0.0.5
                let a_plain = UdpClient::new(t5, tr.port).map_err(|e| Violation::new("inconclusive-client", e))?;
                let a_dual = UdpClient::new(IpAddr::V6(std::net::Ipv4Addr::new(127, 0, 0, 5).to_ipv6_mapped()), tr.port).map_err(|e| Violation::new("inconclusive-client", e))?;
                let b = UdpClient::new(t6, tr.port).map_err(|e| Violation::new("inconclusive-client", e))?;
                // the tracker in DualStackV6 mode listens on [::]:port only; plain IPv4 clients reach it too
                talk(&a_plain, &ann(c.port_a, c.victim), true)?;
                talk(&a_dual, &ann(c.port_a, c.victim), true)?;
                out.checks += 3;
                if matches!(c.mode, SocketMode::SplitV4AndDualStackV6) {
                    // the same host once more, over plain IPv4 to another local address: only the
                    // dual-stack IPv6 socket listens there, the source arrives IPv4-mapped; with
                    // another announced port it must be a second IPv4 peer
                    let mut a_other = UdpClient::new(t5, tr.port).map_err(|e| Violation::new("inconclusive-client", e))?;
                    a_other.target = (std::net::Ipv4Addr::new(127, 0, 0, 2), tr.port).into();
                    let other_port = if c.port_a == 65_535 { 1024 } else { c.port_a + 1 };
                    talk(&a_other, &ann(other_port, c.victim), true)?;
                    talk(&a_other, &ann(c.port_a, c.victim), true)?;
                    match talk(&b, &ann(c.port_b, [0; 4]), true)? {
                        URsp::Announce4 { mut peers, leechers, .. } => {
                            peers.sort();
                            let mut want = vec![([127, 0, 0, 5], c.port_a), ([127, 0, 0, 5], other_port)];
                            want.sort();
                            vensure!(
                                peers == want && leechers == 2,
                                "stored-address-wrong",
                                "{} {:?}: host 127.0.0.5 announced ports {} and {} over plain IPv4, the latter through the dual-stack IPv6 socket (destination 127.0.0.2); a second IPv4 client sees peers {:?} (leechers {leechers})",
                                c.tracker,
                                c.mode,
                                c.port_a,
                                other_port,
                                peers
                            );
                        }
                        other => vfail!("wrong-family-reply", "{} {:?}: IPv4 host got {:?}", c.tracker, c.mode, other),
                    }
                    // put things back to one stored peer for the steps below
                    let stop = move |cid: i64| bep15_encode_request(&UReq::Announce { cid, tid: 2, info_hash: hash, peer_id: [3; 20], downloaded: 0, left: 1, uploaded: 0, event: 3, ip: [0; 4], key: 0, numwant: 10, port: other_port });
                    talk(&a_other, &stop, true)?;
                    out.label("mapped-source-next-to-ipv4-socket");
                }
                match talk(&b, &ann(c.port_b, [0; 4]), true)? {
                    URsp::Announce4 { peers, leechers, seeders, .. } => {
                        vensure!(
                            peers == vec![([127, 0, 0, 5], c.port_a)] && leechers == 1 && seeders == 0,
                            "stored-address-wrong",
                            "{} {:?}: a second client sees peers {:?} (leechers {leechers}); expected exactly 127.0.0.5:{} once (announced over plain IPv4 and over a dual-stack socket, in-request ip {:?})",
                            c.tracker,
                            c.mode,
                            peers,
                            c.port_a,
                            c.victim
                        );
                    }
                    other => vfail!("wrong-family-reply", "{} {:?}: IPv4 host got {:?}", c.tracker, c.mode, other),
                }
                if v6_reachable {
                    let y = UdpClient::new(l6, tr.port).map_err(|e| Violation::new("inconclusive-client", e))?;
                    match talk(&y, &scrape, false)? {
                        URsp::Scrape { stats, .. } => vensure!(stats == vec![(0, 0, 0)], "families-mixed", "{} {:?}: a scrape from ::1 sees the IPv4 swarm: {:?}", c.tracker, c.mode, stats),
                        other => vfail!("wrong-reply", "{:?}", other),
                    }
                    match talk(&y, &ann(c.port_b, c.victim), false)? {
                        URsp::Announce6 { peers, .. } => vensure!(peers.is_empty(), "families-mixed", "{} {:?}: ::1 was handed IPv4 swarm members {:?}", c.tracker, c.mode, peers),
                        other => vfail!("wrong-family-reply", "{} {:?}: ::1 got {:?}", c.tracker, c.mode, other),
                    }
                    match talk(&b, &scrape, true)? {
                        URsp::Scrape { stats, .. } => vensure!(stats == vec![(0, 0, 2)], "families-mixed", "{} {:?}: IPv4 scrape after a ::1 announce: {:?}", c.tracker, c.mode, stats),
                        other => vfail!("wrong-reply", "{:?}", other),
                    }
                    out.label("v6-client");
                }
                if mapped_sources {
                    out.label("mapped-source");
                }
            } else {
                let y = UdpClient::new(l6, tr.port).map_err(|e| Violation::new("inconclusive-client", e))?;
                talk(&y, &ann(c.port_a, c.victim), false)?;
                let y2 = UdpClient::new(l6, tr.port).map_err(|e| Violation::new("inconclusive-client", e))?;
                out.checks += 1;
                match talk(&y2, &ann(c.port_b, c.victim), false)? {
                    URsp::Announce6 { peers, .. } => {
                        let mut want = [0u8; 16];
                        want[15] = 1;
                        vensure!(peers == vec![(want, c.port_a)], "stored-address-wrong", "{} v6-only: peers {:?}", c.tracker, peers);
                    }
                    other => vfail!("wrong-family-reply", "{:?}", other),
                }
                out.label("v6-only");
            }
        }
        "http" | "http-proxy" => {
            let proxy = c.tracker == "http-proxy";
            let tr = start_http(|port| {
                let mut cfg = http_config(port, 2, 2);
                match c.mode {
                    SocketMode::Both => {}
                    SocketMode::V4Only => cfg.network.use_ipv6 = false,
                    SocketMode::V6Only => cfg.network.use_ipv4 = false,
                    SocketMode::DualStackV6 => {
                        cfg.network.use_ipv4 = false;
                        cfg.network.set_only_ipv6 = false;
                        cfg.network.address_ipv6 = std::net::SocketAddrV6::new(std::net::Ipv6Addr::UNSPECIFIED, port, 0, 0);
                    }
                    SocketMode::SplitV4AndDualStackV6 => {
                        cfg.network.set_only_ipv6 = false;
                        cfg.network.address_ipv6 = std::net::SocketAddrV6::new(std::net::Ipv6Addr::UNSPECIFIED, port, 0, 0);
                    }
                }
                cfg.network.runs_behind_reverse_proxy = proxy;
                cfg
            })
            .map_err(|e| Violation::new("inconclusive-tracker-start", e))?;
            let hs = "EEEEEEEEEEEEEEEEEEEE";
            let announce = |from: IpAddr, port: u16, hdr: &str| -> Result<crate::codecs::Ben, Violation> {
                let to: SocketAddr = if from.is_ipv4() { (std::net::Ipv4Addr::LOCALHOST, tr.port).into() } else { (std::net::Ipv6Addr::LOCALHOST, tr.port).into() };
                let mut cl = HttpClient::connect(from, to).map_err(|e| Violation::new("inconclusive-connect", e))?;
                let victim = std::net::Ipv4Addr::from(c.victim);
                let req = format!("GET /announce?info_hash={hs}&peer_id=-TR2940-abcdefghijkl&port={port}&uploaded=0&downloaded=0&left=1&ip={victim}&ipv4={victim}&numwant=10 HTTP/1.1\r\nHost: x\r\n{hdr}\r\n");
                cl.send_segments(&[req.as_bytes()]).map_err(|e| Violation::new("inconclusive-send", e))?;
                match cl.read_reply(timeout) {
                    HttpRead::Ok { body, .. } => ben_parse_strict(&body[..body.len().saturating_sub(2)]).map_err(|e| Violation::new("reply-malformed", e)),
                    other => Err(Violation::new("no-reply", format!("{:?}", other))),
                }
            };
            let peers_of = |t: &Ben| -> (Vec<u8>, Vec<u8>) {
                match (t.get(b"peers"), t.get(b"peers6")) {
                    (Some(Ben::Bytes(a)), Some(Ben::Bytes(b))) => (a.clone(), b.clone()),
                    _ => (vec![0xff], vec![0xff]),
                }
            };
            out.checks += 1;
            if proxy {
                // the proxy reports a mapped address for host A and a plain one for host B
                let src: IpAddr = if v4_reachable || mapped_sources { t5 } else { l6 };
                announce(src, c.port_a, "X-Forwarded-For: 198.51.100.9, ::ffff:10.1.2.3\r\n")?;
                let r = announce(src, c.port_b, "X-Forwarded-For: 10.1.2.4\r\n")?;
                let (p4, p6) = peers_of(&r);
                let mut want = vec![10, 1, 2, 3];
                want.extend_from_slice(&c.port_a.to_be_bytes());
                vensure!(p4 == want && p6.is_empty(), "stored-address-wrong", "http reverse proxy {:?}: second client sees peers {:?} / peers6 {:?}; expected 10.1.2.3:{} (last address of the header, IPv4-mapped) in the IPv4 list", c.mode, p4, p6, c.port_a);
                out.label("mapped-source");
                // A reverse proxy re-uses its upstream connections: requests of *different* clients
                // arrive on one kept-alive connection, each with its own header. Two such upstream
                // connections, announces alternating between them; addresses and header layouts
                // derived from the case.
                let to: SocketAddr = if src.is_ipv4() { (std::net::Ipv4Addr::LOCALHOST, tr.port).into() } else { (std::net::Ipv6Addr::LOCALHOST, tr.port).into() };
                let mut ups = vec![
                    HttpClient::connect(src, to).map_err(|e| Violation::new("inconclusive-connect", e))?,
                    HttpClient::connect(src, to).map_err(|e| Violation::new("inconclusive-connect", e))?,
                ];
                let hs2 = "FFFFFFFFFFFFFFFFFFFF";
                let v = c.victim;
                let mut expect4: std::collections::BTreeSet<(std::net::Ipv4Addr, u16)> = Default::default();
                let mut expect6: std::collections::BTreeSet<(std::net::Ipv6Addr, u16)> = Default::default();
                let n_ann = 4 + (v[1] % 4) as usize;
                for i in 0..n_ann {
                    // the first upstream connection is re-used at once, the second opened next, the rest generated
                    let conn = match i { 0 | 1 => 0, 2 => 1, _ => ((v[2] >> (i % 8)) & 1) as usize };
                    let port = 2000 + i as u16 * 7 + (c.port_a % 1000);
                    let decoy = std::net::Ipv4Addr::new(203, 0, 113, i as u8 + 1);
                    let (hdr, is_v6) = match (v[3] as usize + i) % 4 {
                        0 => {
                            let a = std::net::Ipv4Addr::new(10, 9, v[0], i as u8 + 1);
                            expect4.insert((a, port));
                            (format!("X-Forwarded-For: {a}\r\n"), false)
                        }
                        1 => {
                            let a = std::net::Ipv4Addr::new(10, 8, v[0], i as u8 + 1);
                            expect4.insert((a, port));
                            (format!("X-Forwarded-For: {decoy},  ::ffff:{a}\r\n"), false)
                        }
                        2 => {
                            let a = std::net::Ipv6Addr::new(0x2001, 0xdb8, v[0] as u16, 0, 0, 0, 0, i as u16 + 1);
                            expect6.insert((a, port));
                            (format!("X-Forwarded-For: {decoy}\r\nX-Forwarded-For: {decoy}, {a}\r\n"), true)
                        }
                        _ => {
                            let a = std::net::Ipv4Addr::new(10, 7, v[0], i as u8 + 1);
                            expect4.insert((a, port));
                            (format!("X-Forwarded-For: {a}, {decoy}\r\nAccept: x\r\nX-Forwarded-For: {a}\r\n"), false)
                        }
                    };
                    let _ = is_v6;
                    let req = format!("GET /announce?info_hash={hs2}&peer_id=-TR2940-abcdefghijk{}&port={port}&uploaded=0&downloaded=0&left=1&numwant=50 HTTP/1.1\r\nHost: x\r\n{hdr}\r\n", (b'a' + i as u8) as char);
                    ups[conn].send_segments(&[req.as_bytes()]).map_err(|e| Violation::new("inconclusive-send", e))?;
                    match ups[conn].read_reply(timeout) {
                        HttpRead::Ok { .. } => {}
                        other => return Err(Violation::new("no-reply", format!("upstream connection {conn}, announce {i}: {:?}", other))),
                    }
                    if i > 0 && conn == 0 {
                        out.label("proxy-upstream-connection-reused");
                    }
                }
                // observers on fresh connections: one IPv4 client, one IPv6 client
                let observe = |hdr: &str| -> Result<(Vec<u8>, Vec<u8>), Violation> {
                    let mut cl = HttpClient::connect(src, to).map_err(|e| Violation::new("inconclusive-connect", e))?;
                    let req = format!("GET /announce?info_hash={hs2}&peer_id=-TR2940-observer0000&port=9&uploaded=0&downloaded=0&left=1&numwant=50&event=stopped HTTP/1.1\r\nHost: x\r\n{hdr}\r\n");
                    cl.send_segments(&[req.as_bytes()]).map_err(|e| Violation::new("inconclusive-send", e))?;
                    match cl.read_reply(timeout) {
                        HttpRead::Ok { body, .. } => Ok(peers_of(&ben_parse_strict(&body[..body.len().saturating_sub(2)]).map_err(|e| Violation::new("reply-malformed", e))?)),
                        other => Err(Violation::new("no-reply", format!("{:?}", other))),
                    }
                };
                let (p4, _) = observe("X-Forwarded-For: 192.0.2.77\r\n")?;
                let (_, p6) = observe("X-Forwarded-For: 2001:db8:ffff::77\r\n")?;
                let got4: std::collections::BTreeSet<(std::net::Ipv4Addr, u16)> = p4.chunks(6).filter(|c| c.len() == 6).map(|c| (std::net::Ipv4Addr::new(c[0], c[1], c[2], c[3]), u16::from_be_bytes([c[4], c[5]]))).collect();
                let got6: std::collections::BTreeSet<(std::net::Ipv6Addr, u16)> = p6
                    .chunks(18)
                    .filter(|c| c.len() == 18)
                    .map(|c| {
                        let mut a = [0u8; 16];
                        a.copy_from_slice(&c[..16]);
                        (std::net::Ipv6Addr::from(a), u16::from_be_bytes([c[16], c[17]]))
                    })
                    .collect();
                out.checks += 2;
                vensure!(
                    got4 == expect4 && got6 == expect6,
                    "stored-address-wrong",
                    "http reverse proxy {:?}: {} announces of different clients over two kept-alive upstream connections; stored peers {:?} / {:?}, expected (last address of the last header occurrence of *each* request + its port) {:?} / {:?}",
                    c.mode,
                    n_ann,
                    got4,
                    got6,
                    expect4,
                    expect6
                );
            } else if v4_reachable || mapped_sources {
                announce(t5, c.port_a, "")?;
                let r = announce(t6, c.port_b, "X-Forwarded-For: 9.9.9.9\r\n")?;
                let (p4, p6) = peers_of(&r);
                let mut want = vec![127, 0, 0, 5];
                want.extend_from_slice(&c.port_a.to_be_bytes());
                vensure!(p4 == want && p6.is_empty(), "stored-address-wrong", "http {:?}: second client sees peers {:?} / peers6 {:?}; expected 127.0.0.5:{} in the IPv4 list (ip=/ipv4= parameters and a proxy header without proxy mode must be ignored)", c.mode, p4, p6, c.port_a);
                if v6_reachable {
                    let r = announce(l6, c.port_b, "")?;
                    let (p4, p6) = peers_of(&r);
                    vensure!(p4.is_empty() && p6.is_empty(), "families-mixed", "http {:?}: ::1 was handed {:?} / {:?}", c.mode, p4, p6);
                    out.label("v6-client");
                }
                if mapped_sources {
                    out.label("mapped-source");
                }
            } else {
                announce(l6, c.port_a, "")?;
                let r = announce(l6, c.port_b, "")?;
                let (p4, p6) = peers_of(&r);
                let mut want = vec![0u8; 15];
                want.push(1);
                want.extend_from_slice(&c.port_a.to_be_bytes());
                vensure!(p4.is_empty() && p6 == want, "stored-address-wrong", "http v6-only: {:?} / {:?}", p4, p6);
                out.label("v6-only");
            }
        }
        _ => {
            use aquatic_ws_protocol::common::*;
            use aquatic_ws_protocol::incoming::*;
            use aquatic_ws_protocol::outgoing::OutMessage;
            let dual = matches!(c.mode, SocketMode::DualStackV6);
            let tr = start_ws(|port| {
                let mut cfg = ws_config(port, 2, 2, dual || matches!(c.mode, SocketMode::V6Only));
                cfg.network.only_ipv6 = matches!(c.mode, SocketMode::V6Only);
                cfg
            })
            .map_err(|e| Violation::new("inconclusive-tracker-start", e))?;
            let hash = InfoHash([0x52; 20]);
            let text = |m: &InMessage| match m.to_ws_message() {
                tungstenite::Message::Text(t) => t.as_str().to_string(),
                _ => String::new(),
            };
            let connect = |from: IpAddr| -> Result<WsClient, Violation> {
                let to: SocketAddr = if from.is_ipv4() { (std::net::Ipv4Addr::LOCALHOST, tr.port).into() } else { (std::net::Ipv6Addr::LOCALHOST, tr.port).into() };
                WsClient::connect(from, to).map_err(|e| Violation::new("inconclusive-connect", e))
            };
            let announce = |cl: &mut WsClient, pid: u8| -> Result<(usize, usize), Violation> {
                let m = InMessage::AnnounceRequest(AnnounceRequest { action: AnnounceAction::Announce, info_hash: hash, peer_id: PeerId([pid; 20]), bytes_left: Some(1), event: None, offers: None, numwant: None, answer: None, answer_to_peer_id: None, answer_offer_id: None });
                cl.send_text(text(&m)).map_err(|e| Violation::new("inconclusive-send", e))?;
                match cl.recv(timeout) {
                    Ok(Some(m)) => match OutMessage::from_ws_message(m) {
                        Ok(OutMessage::AnnounceResponse(r)) => Ok((r.complete, r.incomplete)),
                        other => Err(Violation::new("wrong-reply", format!("{:?}", other))),
                    },
                    other => Err(Violation::new("no-reply", format!("{:?}", other.map(|_| ())))),
                }
            };
            out.checks += 1;
            let (first, second): (IpAddr, IpAddr) = if matches!(c.mode, SocketMode::V6Only) { (l6, l6) } else { (t5, t6) };
            let mut a = connect(first)?;
            let mut b = connect(second)?;
            announce(&mut a, 1)?;
            let counts = announce(&mut b, 2)?;
            vensure!(counts == (0, 2), "families-mixed", "ws {:?}: two hosts of one family announcing one torrent see counts {:?}", c.mode, counts);
            if dual {
                // a real IPv6 client must not see the IPv4(-mapped) swarm
                let mut y = connect(l6)?;
                let counts = announce(&mut y, 3)?;
                vensure!(counts == (0, 1), "families-mixed", "ws dual-stack: ::1 announcing sees counts {:?}; IPv4-mapped sources must form the IPv4 swarm, apart from the IPv6 one", counts);
                out.label("mapped-source");
                out.label("v6-client");
            }
        }
    }
    out.nontrivial = true;
    out.label(&c.tracker);
    Ok(out)
}

fn e2e_cases(seed: u64, tier: Tier) -> Vec<E2eCase> {
    use crate::e2e::SocketMode::*;
    let mut v = Vec::new();
    let mut k = 0u64;
    for rep in 0..tier.pick(1u64, 4) {
        for (tracker, modes) in [
            ("udp-mio", vec![Both, V4Only, V6Only, DualStackV6, SplitV4AndDualStackV6]),
            ("udp-uring", vec![Both, V4Only, V6Only, DualStackV6, SplitV4AndDualStackV6]),
            ("http", vec![Both, V4Only, V6Only, DualStackV6]),
            ("http-proxy", vec![Both, DualStackV6]),
            ("ws", vec![V4Only, V6Only, DualStackV6]),
        ] {
            for mode in modes {
                k += 1;
                let r = derive_seed(seed, "C03", "e2e", k * 10 + rep);
                v.push(E2eCase {
                    tracker: tracker.to_string(),
                    mode,
                    port_a: 1024 + (r % 60_000) as u16,
                    port_b: 1024 + ((r >> 16) % 60_000) as u16,
                    victim: [(r >> 32) as u8 | 1, (r >> 40) as u8, (r >> 48) as u8, (r >> 56) as u8 | 1],
                });
            }
        }
    }
    v
}

pub fn run(ctx: &mut Ctx) {
    ctx.assume("the peer address handed to HTTP storage is computed in the harness exactly as connection.rs does (CanonicalSocketAddr::new(remote_addr) or header ip + TCP peer port); the real socket path is the e2e sub-check");
    ctx.assume("reverse-proxy mode with a missing/invalid header panics by documented design and is not generated; at most 16 headers");
    ctx.run_regress::<CanonCase, _>("canonical", prop_canon);
    ctx.run_regress::<HeaderCase, _>("header", prop_header);
    ctx.run_regress::<UdpCase, _>("udp-storage", prop_udp);
    let t = ctx.tier;
    ctx.run_prop("canonical", t.pick(300_000, 3_000_000), || (addr_spec(), any::<u16>()).prop_map(|(addr, port)| CanonCase { addr, port }), prop_canon);
    ctx.require_label("canonical", "mapped", 0.1);
    ctx.require_label("canonical", "near-miss", 0.1);
    ctx.run_prop("header", t.pick(100_000, 1_500_000), header_case, prop_header);
    for l in ["several-occurrences", "comma-list", "victim-in-query", "mapped-source", "reverse-proxy", "direct"] {
        ctx.require_label("header", l, 0.05);
    }
    let p = GenParams { stop_w: 1, clean_w: 1, torrents: 2, max_ops: t.pick(40, 120), ips: 3, ports: 3, pids: 2, exports: false, access_list: false, max_ttl: 6 };
    ctx.run_prop("udp-storage", t.pick(60_000, 1_000_000), move || udpdrv::udp_case(p, false), prop_udp);
    ctx.require_label("udp-storage", "mapped-source", 0.3);
    ctx.require_label("udp-storage", "nonzero-in-request-ip", 0.3);
    ctx.confirm_runs = 2;
    ctx.run_regress::<E2eCase, _>("e2e", prop_e2e);
    let cases = e2e_cases(ctx.seed, t);
    let saved = ctx.threads;
    ctx.threads = saved.min(6);
    ctx.run_enum("e2e", cases, false, prop_e2e);
    ctx.threads = saved;
    for l in ["mapped-source", "v6-client", "v6-only", "udp-mio", "udp-uring", "http", "http-proxy", "ws", "proxy-upstream-connection-reused"] {
        ctx.require_label("e2e", l, 0.05);
    }
}

pub fn replay(path: &str, sub: &str, case: serde_json::Value) -> i32 {
    match sub {
        "canonical" => replay_one::<CanonCase, _>("C03", path, case, prop_canon),
        "header" => replay_one::<HeaderCase, _>("C03", path, case, prop_header),
        "e2e" => replay_one::<E2eCase, _>("C03", path, case, prop_e2e),
        _ => replay_one::<UdpCase, _>("C03", path, case, prop_udp),
    }
}
