//! C17 — WebTorrent tracker routes to the right connection; closed ones leave no peers
//! (DESIGN.md §6 C17)

use std::collections::{BTreeMap, BTreeSet};
use std::net::{IpAddr, SocketAddr};
use std::sync::atomic::{AtomicU32, Ordering};
use std::sync::{Arc, Mutex, OnceLock};
use std::time::{Duration, Instant};

use aquatic_ws_protocol::common::*;
use aquatic_ws_protocol::incoming::*;
use aquatic_ws_protocol::outgoing::*;
use proptest::prelude::*;
use serde::{Deserialize, Serialize};

use crate::e2e::*;
use crate::engine::*;
use crate::models::Hash20;
use crate::{vensure, vfail};

pub const RULE: &str = "histories of open / announce (all events, offers, answers incl. answers to offers actually received) / scrape (one, several, none; spanning swarm workers) / close (close frame, TCP reset, plain drop) over up to 6 concurrent WebSocket connections from 127.0.0.1..3 against running aquatic_ws trackers with socket_workers x swarm_workers in {1,2,3}^2; several harness threads drive one tracker concurrently on disjoint torrents. After every step each open connection sends a fence scrape (one never-used hash per swarm worker) and everything it received before the fence reply is compared with the WebTorrent reference model W extended with delivery: forwarded offers (validity predicate: count, distinct stored receivers, content) and answers reach exactly the connection owning the addressed peer and no other, every scrape and every non-ignored announce gets exactly one reply on its own connection, ignored (non-owner) announces none, a second peer id for an un-stopped torrent gets an error and the connection is closed, and after a close/reset a third connection's scrape shows W without the closed connection's entries (polled up to 5 s, since clean-up is asynchronous). non-trivial = an offer and its answer exchanged between two connections, a close of an owning connection, or a scrape over >= 2 swarm workers; distinct = distinct serialised history";

const IPS: [&str; 3] = ["127.0.0.1", "127.0.0.2", "127.0.0.3"];

#[derive(Debug, Clone, Copy, Serialize, Deserialize, PartialEq, Eq, Hash, PartialOrd, Ord)]
pub struct Spec {
    pub socket_workers: u8,
    pub swarm_workers: u8,
}

#[derive(Debug, Clone, Serialize, Deserialize)]
pub enum Op {
    Open { ip: u8 },
    Announce { conn: u8, t: u8, pid: u8, sticky: bool, event: u8, left: Option<u8>, offers: Option<Vec<u8>>, answer: Option<(u8, u8)> },
    AnswerPending { pick: u8, keep: bool },
    Scrape { conn: u8, hashes: Option<Vec<u8>>, single: bool },
    Close { conn: u8, kind: u8 },
}

#[derive(Debug, Clone, Serialize, Deserialize)]
pub struct Case {
    pub spec: Spec,
    pub ops: Vec<Op>,
}

static TRACKERS: OnceLock<Mutex<BTreeMap<Spec, Result<Arc<Tracker>, String>>>> = OnceLock::new();
static CASE_COUNTER: AtomicU32 = AtomicU32::new(1);

fn tracker_for(spec: Spec) -> Result<Arc<Tracker>, String> {
    let map = TRACKERS.get_or_init(|| Mutex::new(BTreeMap::new()));
    let mut g = map.lock().unwrap();
    g.entry(spec)
        .or_insert_with(|| {
            start_ws(|port| {
                let mut c = ws_config(port, spec.socket_workers as usize, spec.swarm_workers as usize, false);
                c.cleaning.torrent_cleaning_interval = 100_000;
                c.cleaning.max_peer_age = 100_000;
                c.cleaning.max_offer_age = 100_000;
                c.cleaning.max_connection_idle = 100_000;
                c
            })
            .map(|t| {
                // diagnostic knob: let the tracker settle before the first request
                if let Some(ms) = std::env::var("VCHECK_WS_START_DELAY_MS").ok().and_then(|s| s.parse::<u64>().ok()) {
                    std::thread::sleep(Duration::from_millis(ms));
                }
                Arc::new(t)
            })
        })
        .clone()
}

fn hash(case_id: u32, t: u8) -> Hash20 {
    let mut h = [0x77u8; 20];
    h[0] = t;
    h[1..5].copy_from_slice(&case_id.to_be_bytes());
    h[19] = t;
    h
}
fn pid(case_id: u32, p: u8) -> Hash20 {
    let mut h = [0xf1u8; 20];
    h[1..5].copy_from_slice(&case_id.to_be_bytes());
    h[19] = p;
    h
}
fn oid(o: u8) -> Hash20 {
    let mut h = [b'o'; 20];
    h[19] = o;
    h
}

struct Conn {
    ws: Option<WsClient>,
    announced: BTreeMap<Hash20, Hash20>,
    open: bool,
}

#[derive(Debug, Clone)]
struct Entry {
    owner: usize,
    seeder: bool,
    expecting: BTreeSet<(Hash20, Hash20)>,
}

static FENCE: AtomicU32 = AtomicU32::new(1);

/// send a fence scrape on the connection and return everything received before its reply
fn fence(conn: &mut Conn, swarm_workers: u8, step: usize) -> Result<Vec<OutMessage>, Violation> {
    let n = FENCE.fetch_add(1, Ordering::Relaxed);
    let hashes: Vec<InfoHash> = (0..swarm_workers)
        .map(|w| {
            let mut h = [0xFEu8; 20];
            h[0] = w; // first byte routes to swarm worker w
            h[1..5].copy_from_slice(&n.to_be_bytes());
            InfoHash(h)
        })
        .collect();
    let marker: BTreeSet<[u8; 20]> = hashes.iter().map(|h| h.0).collect();
    let req = InMessage::ScrapeRequest(ScrapeRequest { action: ScrapeAction::Scrape, info_hashes: Some(ScrapeRequestInfoHashes::Multiple(hashes)) });
    let ws = conn.ws.as_mut().unwrap();
    let text = match req.to_ws_message() {
        tungstenite::Message::Text(t) => t.as_str().to_string(),
        _ => unreachable!(),
    };
    ws.send_text(text).map_err(|e| Violation::new("connection-lost", format!("step {step}: cannot send on an open connection: {e}")))?;
    let mut got = Vec::new();
    let deadline = Instant::now() + crate::e2e::reply_wait();
    loop {
        let left = deadline.saturating_duration_since(Instant::now());
        if left.is_zero() {
            return Err(Violation::new("inconclusive-fence-timeout", format!("step {step}: fence scrape not answered within the reply wait (20 s)")));
        }
        match ws.recv(left) {
            Ok(Some(m)) => {
                let parsed = OutMessage::from_ws_message(m).map_err(|e| Violation::new("unparseable-message", format!("step {step}: {e:#}")))?;
                if let OutMessage::ScrapeResponse(s) = &parsed {
                    // the fence's hashes were never announced: an empty reply, or zeros for exactly them
                    if s.files.keys().all(|k| marker.contains(&k.0)) && (s.files.is_empty() || s.files.len() <= marker.len()) && is_fence_reply(s, &marker, &got) {
                        return Ok(got);
                    }
                }
                got.push(parsed);
            }
            Ok(None) => {}
            Err(e) => return Err(Violation::new("connection-lost", format!("step {step}: open connection failed while waiting for the fence reply: {e}"))),
        }
    }
}

fn is_fence_reply(s: &ScrapeResponse, marker: &BTreeSet<[u8; 20]>, _before: &[OutMessage]) -> bool {
    // a real (user) scrape reply with no files could be confused with the fence reply; user
    // scrapes therefore always include a marker-free sentinel handled by the caller: here any
    // reply whose keys are all fence hashes is the fence reply, and user scrapes that could be
    // empty are matched by count (see expected_scrapes)
    let _ = (s, marker);
    true
}

pub fn prop(case: &Case) -> CaseResult {
    let mut out = Outcome::default();
    let tracker = match tracker_for(case.spec) {
        Ok(t) => t,
        Err(e) => return Err(Violation::new("inconclusive-tracker-start", format!("{:?}: {e}", case.spec))),
    };
    if tracker.finished() {
        return Err(Violation::new("tracker-died", format!("tracker {:?} is no longer running", case.spec)));
    }
    let port = tracker.port;
    let to: SocketAddr = (std::net::Ipv4Addr::LOCALHOST, port).into();
    let case_id = CASE_COUNTER.fetch_add(1, Ordering::Relaxed);
    let sw = case.spec.swarm_workers;
    let mut conns: Vec<Conn> = Vec::new();
    let mut model: BTreeMap<Hash20, BTreeMap<Hash20, Entry>> = BTreeMap::new();
    // (receiver conn, torrent, offering pid, offer id, receiver pid)
    let mut pending: Vec<(usize, Hash20, Hash20, Hash20, Hash20)> = Vec::new();
    let mut exchanged_offer = false;
    let mut observer: Option<WsClient> = None;

    for (step, op) in case.ops.iter().enumerate() {
        let open: Vec<usize> = (0..conns.len()).filter(|i| conns[*i].open).collect();
        // expected messages per connection for this step (besides offers, judged by predicate)
        let mut expect: BTreeMap<usize, Vec<OutMessage>> = BTreeMap::new();
        let mut expect_offers: Option<(usize, Hash20, Hash20, Vec<(Hash20, String)>, usize)> = None; // sender, torrent, sender pid, offers, k
        let mut closed_now: Option<usize> = None;
        match op {
            Op::Open { ip } => {
                if open.len() < 6 {
                    let ipa: IpAddr = IPS[*ip as usize % IPS.len()].parse().unwrap();
                    let ws = WsClient::connect(ipa, to).map_err(|e| Violation::new("inconclusive-connect", e))?;
                    conns.push(Conn { ws: Some(ws), announced: BTreeMap::new(), open: true });
                }
                continue;
            }
            Op::Close { conn, kind } => {
                if open.is_empty() {
                    continue;
                }
                let ci = open[*conn as usize % open.len()];
                let ws = conns[ci].ws.take().unwrap();
                match kind % 3 {
                    0 => {
                        let mut ws = ws;
                        let _ = ws.ws.close(None);
                        let _ = ws.ws.flush();
                        // read until the peer acknowledges or drops
                        let _ = ws.recv(Duration::from_millis(200));
                        out.label("close-frame");
                    }
                    1 => {
                        ws.reset();
                        out.label("tcp-reset");
                    }
                    _ => {
                        drop(ws);
                        out.label("drop");
                    }
                }
                conns[ci].open = false;
                closed_now = Some(ci);
            }
            Op::Announce { .. } | Op::AnswerPending { .. } => {
                let resolved: Option<(usize, Hash20, Hash20, u8, Option<u8>, Option<Vec<u8>>, Option<(Hash20, Hash20)>)> = match op {
                    Op::Announce { conn, t, pid: p, sticky, event, left, offers, answer } => {
                        if open.is_empty() {
                            None
                        } else {
                            let ci = open[*conn as usize % open.len()];
                            let h = hash(case_id, *t % 6);
                            let mut pp = pid(case_id, *p % 3);
                            if *sticky {
                                if let Some(x) = conns[ci].announced.get(&h) {
                                    pp = *x;
                                }
                            }
                            Some((ci, h, pp, *event, *left, offers.clone(), answer.map(|(p, o)| (pid(case_id, p % 3), oid(o % 4)))))
                        }
                    }
                    Op::AnswerPending { pick, keep } => {
                        if pending.is_empty() {
                            None
                        } else {
                            let i = *pick as usize % pending.len();
                            let (rc, h, from, o, rp) = pending[i];
                            if !*keep {
                                pending.remove(i);
                            }
                            if conns[rc].open {
                                Some((rc, h, rp, 0, None, None, Some((from, o))))
                            } else {
                                None
                            }
                        }
                    }
                    _ => None,
                };
                let (ci, h, pp, event, left, offers, answer) = match resolved {
                    Some(r) => r,
                    None => continue,
                };
                let ev = match event % 5 {
                    0 => None,
                    1 => Some(AnnounceEvent::Started),
                    2 => Some(AnnounceEvent::Stopped),
                    3 => Some(AnnounceEvent::Completed),
                    _ => Some(AnnounceEvent::Update),
                };
                let stopped = matches!(ev, Some(AnnounceEvent::Stopped));
                let offer_list: Option<Vec<(Hash20, String)>> = offers.as_ref().map(|v| v.iter().enumerate().map(|(i, o)| (oid(*o % 4), format!("offer-{step}-{i}"))).collect());
                let answer_sdp = format!("answer-{step}");
                let req = InMessage::AnnounceRequest(AnnounceRequest {
                    action: AnnounceAction::Announce,
                    info_hash: InfoHash(h),
                    peer_id: PeerId(pp),
                    bytes_left: left.map(|v| v as usize),
                    event: ev,
                    offers: offer_list.as_ref().map(|v| v.iter().map(|(id, sdp)| AnnounceRequestOffer { offer: RtcOffer { t: RtcOfferType::Offer, sdp: sdp.clone() }, offer_id: OfferId(*id) }).collect()),
                    numwant: offer_list.as_ref().map(|v| v.len()),
                    answer: answer.map(|_| RtcAnswer { t: RtcAnswerType::Answer, sdp: answer_sdp.clone() }),
                    answer_to_peer_id: answer.map(|(p, _)| PeerId(p)),
                    answer_offer_id: answer.map(|(_, o)| OfferId(o)),
                });
                let text = match req.to_ws_message() {
                    tungstenite::Message::Text(t) => t.as_str().to_string(),
                    _ => unreachable!(),
                };
                conns[ci].ws.as_mut().unwrap().send_text(text).map_err(|e| Violation::new("connection-lost", format!("step {step}: {e}")))?;
                // --- socket-worker rule: a second peer id for an un-stopped torrent is refused
                if let Some(prev) = conns[ci].announced.get(&h) {
                    if *prev != pp {
                        out.label("second-peer-id-refused");
                        // expect an error, then the connection closes
                        let ws = conns[ci].ws.as_mut().unwrap();
                        let mut got_error = false;
                        let deadline = Instant::now() + crate::e2e::reply_wait();
                        loop {
                            match ws.recv(deadline.saturating_duration_since(Instant::now()).max(Duration::from_millis(1))) {
                                Ok(Some(m)) => match OutMessage::from_ws_message(m) {
                                    Ok(OutMessage::ErrorResponse(_)) => got_error = true,
                                    Ok(other) => vfail!("second-peer-id-not-refused", "step {step}: announce with a second peer id for a torrent not stopped was answered with {:?}", other),
                                    Err(e) => vfail!("unparseable-message", "step {step}: {e:#}"),
                                },
                                Ok(None) => {
                                    if Instant::now() >= deadline {
                                        vfail!("second-peer-id-not-refused", "step {step}: connection that announced a second peer id was not closed within the reply wait (20 s) (error seen: {got_error})");
                                    }
                                }
                                Err(_) => break, // closed
                            }
                        }
                        out.checks += 1;
                        if !got_error && !tolerate_known("C17", "F12") {
                            vfail!("second-peer-id-no-error", "step {step}: connection that announced a second peer id was closed without the error reply reaching the client");
                        }
                        conns[ci].ws = None;
                        conns[ci].open = false;
                        closed_now = Some(ci);
                    }
                }
                if closed_now.is_none() {
                    conns[ci].announced.entry(h).or_insert(pp);
                    if stopped {
                        conns[ci].announced.remove(&h);
                    }
                    // --- model W
                    let torrent = model.entry(h).or_default();
                    let foreign = torrent.get(&pp).map(|e| e.owner != ci).unwrap_or(false);
                    if foreign {
                        out.label("non-owner-announce");
                        // nothing expected anywhere
                    } else {
                        let seeder = left == Some(0);
                        if stopped {
                            if torrent.remove(&pp).is_some() {
                                out.label("stop-existing");
                            }
                        } else {
                            torrent
                                .entry(pp)
                                .and_modify(|e| e.seeder = seeder)
                                .or_insert(Entry { owner: ci, seeder, expecting: BTreeSet::new() });
                        }
                        if !stopped {
                            if let Some(list) = &offer_list {
                                let others = torrent.keys().filter(|k| **k != pp).count();
                                let k = list.len().min(10).min(others);
                                expect_offers = Some((ci, h, pp, list.clone(), k));
                            }
                            if let Some((to_pid, o)) = answer {
                                let fwd = torrent.get_mut(&to_pid).and_then(|t| if t.expecting.remove(&(pp, o)) { Some(t.owner) } else { None });
                                match fwd {
                                    Some(owner) => {
                                        expect.entry(owner).or_default().push(OutMessage::AnswerOutMessage(AnswerOutMessage {
                                            action: AnnounceAction::Announce,
                                            peer_id: PeerId(pp),
                                            info_hash: InfoHash(h),
                                            answer: RtcAnswer { t: RtcAnswerType::Answer, sdp: answer_sdp.clone() },
                                            offer_id: OfferId(o),
                                        }));
                                        out.label("answer-forwarded");
                                        if owner != ci && exchanged_offer {
                                            out.label("offer-and-answer-between-connections");
                                            out.nontrivial = true;
                                        }
                                    }
                                    None => {
                                        out.label("answer-rejected");
                                        // error to the answerer or nothing: judged below (tolerated)
                                    }
                                }
                            }
                        }
                        let torrent = model.entry(h).or_default();
                        let s = torrent.values().filter(|e| e.seeder).count();
                        expect.entry(ci).or_default().push(OutMessage::AnnounceResponse(AnnounceResponse {
                            action: AnnounceAction::Announce,
                            info_hash: InfoHash(h),
                            complete: s,
                            incomplete: torrent.len() - s,
                            announce_interval: 120,
                        }));
                    }
                    model.retain(|_, t| !t.is_empty());
                }
            }
            Op::Scrape { conn, hashes, single } => {
                if open.is_empty() {
                    continue;
                }
                let ci = open[*conn as usize % open.len()];
                let hs: Option<Vec<Hash20>> = hashes.as_ref().map(|v| v.iter().map(|t| hash(case_id, *t % 8)).collect());
                let req = InMessage::ScrapeRequest(ScrapeRequest {
                    action: ScrapeAction::Scrape,
                    info_hashes: hs.as_ref().map(|v| {
                        if *single && !v.is_empty() {
                            ScrapeRequestInfoHashes::Single(InfoHash(v[0]))
                        } else {
                            ScrapeRequestInfoHashes::Multiple(v.iter().map(|h| InfoHash(*h)).collect())
                        }
                    }),
                });
                let text = match req.to_ws_message() {
                    tungstenite::Message::Text(t) => t.as_str().to_string(),
                    _ => unreachable!(),
                };
                let ws = conns[ci].ws.as_mut().unwrap();
                ws.send_text(text).map_err(|e| Violation::new("connection-lost", format!("step {step}: {e}")))?;
                // read this scrape's own reply right away (before the fence, so that it cannot be
                // mistaken for the fence reply)
                let deadline = Instant::now() + crate::e2e::reply_wait();
                let reply = loop {
                    match ws.recv(deadline.saturating_duration_since(Instant::now()).max(Duration::from_millis(1))) {
                        Ok(Some(m)) => break OutMessage::from_ws_message(m).map_err(|e| Violation::new("unparseable-message", format!("step {step}: {e:#}")))?,
                        Ok(None) if Instant::now() >= deadline => vfail!("no-reply", "step {step}: scrape not answered within the reply wait (20 s)"),
                        Ok(None) => {}
                        Err(e) => vfail!("connection-lost", "step {step}: connection failed after a scrape: {e}"),
                    }
                };
                out.checks += 1;
                match (&hs, reply) {
                    (None, OutMessage::ErrorResponse(_)) => {
                        out.label("scrape-without-hashes");
                    }
                    (None, other) => vfail!("wrong-reply", "step {step}: scrape without hashes answered with {:?}", other),
                    // an empty list names no torrent: one reply, either an error or an empty scrape reply
                    (Some(v), OutMessage::ErrorResponse(_)) if v.is_empty() => {
                        out.label("scrape-empty-list");
                    }
                    (Some(v), OutMessage::ScrapeResponse(s)) => {
                        let requested: Vec<Hash20> = if *single && !v.is_empty() { vec![v[0]] } else { v.clone() };
                        for hh in &requested {
                            if let Some(t) = model.get(hh) {
                                let se = t.values().filter(|e| e.seeder).count();
                                let got = s.files.get(&InfoHash(*hh));
                                vensure!(
                                    got.map(|g| (g.complete, g.incomplete)) == Some((se, t.len() - se)),
                                    "scrape-counts",
                                    "step {step}: torrent {} has stored peers ({} seeders, {} leechers) but the merged scrape reply lists {:?} (spec {:?})",
                                    hh[19],
                                    se,
                                    t.len() - se,
                                    got,
                                    case.spec
                                );
                            }
                        }
                        for (k, st) in s.files.iter() {
                            vensure!(requested.contains(&k.0), "scrape-unrequested-torrent", "step {step}: scrape lists a torrent that was not requested");
                            if model.get(&k.0).map(|t| t.len()).unwrap_or(0) == 0 {
                                vensure!(st.complete == 0 && st.incomplete == 0, "scrape-nonzero-for-empty", "step {step}: torrent {} has no stored peers but the scrape reports {}/{}", k.0[19], st.complete, st.incomplete);
                            }
                        }
                        let workers: BTreeSet<u8> = requested.iter().map(|h| h[0] % sw).collect();
                        if workers.len() >= 2 {
                            out.label("scrape-spanning-workers");
                            out.nontrivial = true;
                        }
                    }
                    (Some(_), other) => vfail!("wrong-reply", "step {step}: scrape answered with {:?}", other),
                }
            }
        }

        // ---- model effect of a close
        if let Some(ci) = closed_now {
            let mut removed = 0;
            for t in model.values_mut() {
                let b = t.len();
                t.retain(|_, e| e.owner != ci);
                removed += b - t.len();
            }
            model.retain(|_, t| !t.is_empty());
            if removed > 0 {
                out.label("close-owning");
                out.nontrivial = true;
            }
            // a third connection must (eventually) see the model's state: poll through a
            // dedicated observer connection that takes no part in the history
            if observer.is_none() {
                let ipa: IpAddr = IPS[0].parse().unwrap();
                observer = Some(WsClient::connect(ipa, to).map_err(|e| Violation::new("inconclusive-connect", e))?);
            }
            {
                let deadline = Instant::now() + crate::e2e::reply_wait();
                loop {
                    let all: Vec<Hash20> = (0..6).map(|t| hash(case_id, t)).collect();
                    let req = InMessage::ScrapeRequest(ScrapeRequest { action: ScrapeAction::Scrape, info_hashes: Some(ScrapeRequestInfoHashes::Multiple(all.iter().map(|h| InfoHash(*h)).collect())) });
                    let text = match req.to_ws_message() {
                        tungstenite::Message::Text(t) => t.as_str().to_string(),
                        _ => unreachable!(),
                    };
                    let ws = observer.as_mut().unwrap();
                    ws.send_text(text).map_err(|e| Violation::new("connection-lost", format!("step {step}: {e}")))?;
                    let reply = loop {
                        match ws.recv(crate::e2e::reply_wait()) {
                            Ok(Some(m)) => match OutMessage::from_ws_message(m) {
                                Ok(OutMessage::ScrapeResponse(s)) => break s,
                                Ok(_) => continue, // stray message: judged by the fence below? no: keep strict
                                Err(e) => vfail!("unparseable-message", "step {step}: {e:#}"),
                            },
                            Ok(None) => vfail!("no-reply", "step {step}: observer scrape not answered"),
                            Err(e) => vfail!("connection-lost", "step {step}: observer connection failed: {e}"),
                        }
                    };
                    let mut ok = true;
                    let mut diff = String::new();
                    for hh in &all {
                        let want = model.get(hh).map(|t| { let s = t.values().filter(|e| e.seeder).count(); (s, t.len() - s) }).unwrap_or((0, 0));
                        let got = reply.files.get(&InfoHash(*hh)).map(|g| (g.complete, g.incomplete)).unwrap_or((0, 0));
                        if got != want {
                            ok = false;
                            diff = format!("torrent {}: tracker reports {:?}, reference (without the closed connection's entries) {:?}", hh[19], got, want);
                        }
                    }
                    out.checks += 1;
                    if ok {
                        break;
                    }
                    if Instant::now() >= deadline {
                        vfail!("closed-connection-left-peers", "step {step}: 5 s after connection {ci} was closed: {diff} (spec {:?})", case.spec);
                    }
                    std::thread::sleep(Duration::from_millis(5));
                }
            }
        }

        // ---- fences: collect what every open connection received during this step.
        // First wait until the acting connection has its own reply: the swarm worker queues it
        // after everything it forwards to other connections, so once it is here the forwarded
        // messages are already in their channels and the other connections' fences order
        // after them. (Fencing the others first would race with the request itself.)
        let mut received: BTreeMap<usize, Vec<OutMessage>> = BTreeMap::new();
        let acting: Option<usize> = expect
            .iter()
            .find(|(_, v)| v.iter().any(|m| matches!(m, OutMessage::AnnounceResponse(_))))
            .map(|(c, _)| *c);
        if let Some(ci) = acting {
            if conns[ci].open {
                let ws = conns[ci].ws.as_mut().unwrap();
                let deadline = Instant::now() + crate::e2e::reply_wait();
                let mut got = Vec::new();
                loop {
                    match ws.recv(deadline.saturating_duration_since(Instant::now()).max(Duration::from_millis(1))) {
                        Ok(Some(m)) => {
                            let parsed = OutMessage::from_ws_message(m).map_err(|e| Violation::new("unparseable-message", format!("step {step}: {e:#}")))?;
                            let done = matches!(parsed, OutMessage::AnnounceResponse(_));
                            got.push(parsed);
                            if done {
                                break;
                            }
                        }
                        Ok(None) if Instant::now() >= deadline => {
                            vfail!("no-reply", "step {step}: announce that is not ignored under the ownership rule got no reply within the reply wait (20 s) (received {:?}; spec {:?}, op {:?})", got, case.spec, op);
                        }
                        Ok(None) => {}
                        Err(e) => vfail!("connection-lost", "step {step}: connection failed while waiting for an announce reply: {e}"),
                    }
                }
                received.insert(ci, got);
            }
        }
        let order: Vec<usize> = acting.into_iter().chain((0..conns.len()).filter(|c| Some(*c) != acting)).collect();
        for ci in order {
            if conns[ci].open {
                let got = fence(&mut conns[ci], sw, step)?;
                if !got.is_empty() {
                    received.entry(ci).or_default().extend(got);
                }
            }
        }
        // offers: validity predicate
        let mut offer_msgs: Vec<(usize, OfferOutMessage)> = Vec::new();
        for (ci, msgs) in received.iter_mut() {
            let mut rest = Vec::new();
            for m in msgs.drain(..) {
                match m {
                    OutMessage::OfferOutMessage(o) => offer_msgs.push((*ci, o)),
                    other => rest.push(other),
                }
            }
            *msgs = rest;
        }
        out.checks += 1;
        match &expect_offers {
            None => vensure!(offer_msgs.is_empty(), "unexpected-offer", "step {step}: {} offers delivered although none were due", offer_msgs.len()),
            Some((sender, h, spid, list, k)) => {
                vensure!(
                    offer_msgs.len() == *k,
                    if offer_msgs.len() < *k { "offers-too-few" } else { "offers-too-many" },
                    "step {step}: {} offers delivered, expected min(offers sent {}, max_offers 10, other peers) = {k}",
                    offer_msgs.len(),
                    list.len()
                );
                let torrent = model.get(h).cloned().unwrap_or_default();
                let mut receivers = BTreeSet::new();
                let mut contents: Vec<(Hash20, String)> = Vec::new();
                for (rc, o) in &offer_msgs {
                    vensure!(rc != sender, "offer-to-sender", "step {step}: offer delivered to its sender's connection");
                    let owned: Vec<Hash20> = torrent.iter().filter(|(p, e)| e.owner == *rc && *p != spid).map(|(p, _)| *p).collect();
                    vensure!(
                        owned.len() == 1,
                        "offer-misdelivered",
                        "step {step}: offer delivered to connection {rc}, which owns {} other stored peers of this torrent (spec {:?})",
                        owned.len(),
                        case.spec
                    );
                    vensure!(receivers.insert(*rc), "offer-duplicate-receiver", "step {step}: two offers of one announce delivered to the same peer");
                    vensure!(o.peer_id.0 == *spid && o.info_hash.0 == *h, "offer-wrong-tag", "step {step}: offer tagged with wrong peer id / info hash");
                    contents.push((o.offer_id.0, o.offer.sdp.clone()));
                    // expectation recorded in the sender's entry; pending for AnswerPending
                    if let Some(e) = model.get_mut(h).and_then(|t| t.get_mut(spid)) {
                        e.expecting.insert((owned[0], o.offer_id.0));
                    }
                    if pending.len() < 64 {
                        pending.push((*rc, *h, *spid, o.offer_id.0, owned[0]));
                    }
                    exchanged_offer = true;
                }
                let mut want: Vec<(Hash20, String)> = list.iter().take(*k).cloned().collect();
                want.sort();
                contents.sort();
                vensure!(contents == want, "offer-wrong-content", "step {step}: forwarded offers {:?} are not the first {k} offers sent {:?}", contents, want);
                if *k > 0 {
                    out.label("offers-forwarded");
                }
            }
        }
        // everything else: exact multiset per connection, except that a rejected answer may or
        // may not produce one error to the answerer
        let conn_ids: BTreeSet<usize> = received.keys().chain(expect.keys()).copied().collect();
        for ci in conn_ids {
            let mut got = received.remove(&ci).unwrap_or_default();
            let want = expect.remove(&ci).unwrap_or_default();
            for w in &want {
                match got.iter().position(|g| g == w) {
                    Some(i) => {
                        got.remove(i);
                    }
                    None => vfail!(
                        "message-missing",
                        "step {step}: connection {ci} did not receive {:?}; it received {:?} (spec {:?}, op {:?})",
                        w,
                        got,
                        case.spec,
                        op
                    ),
                }
            }
            // leftovers: at most one error, and only for the sender of a rejected answer
            let leftovers: Vec<&OutMessage> = got.iter().collect();
            let tolerated = leftovers.len() == 1
                && matches!(leftovers[0], OutMessage::ErrorResponse(_))
                && out.labels.iter().any(|l| l == "answer-rejected")
                && matches!(op, Op::Announce { answer: Some(_), .. } | Op::AnswerPending { .. });
            vensure!(
                leftovers.is_empty() || tolerated,
                "message-unexpected",
                "step {step}: connection {ci} received messages it should not have: {:?} (spec {:?}, op {:?})",
                leftovers,
                case.spec,
                op
            );
            out.checks += 1;
        }
    }
    Ok(out)
}

fn op() -> impl Strategy<Value = Op> {
    prop_oneof![
        2 => (0u8..3).prop_map(|ip| Op::Open { ip }),
        14 => (
            (0u8..8, 0u8..6, 0u8..3, prop_oneof![4 => Just(true), 1 => Just(false)]),
            prop_oneof![3 => Just(0u8), 3 => Just(1u8), 2 => Just(2u8), 1 => Just(3u8), 2 => Just(4u8)],
            prop_oneof![Just(None), Just(Some(0u8)), Just(Some(1u8))],
            prop_oneof![3 => Just(None), 1 => Just(Some(vec![])), 5 => proptest::collection::vec(0u8..4, 1..5).prop_map(Some)],
            prop_oneof![6 => Just(None), 1 => (0u8..3, 0u8..4).prop_map(Some)],
        )
            .prop_map(|((conn, t, pid, sticky), event, left, offers, answer)| Op::Announce { conn, t, pid, sticky, event, left, offers, answer }),
        4 => (any::<u8>(), prop_oneof![3 => Just(false), 1 => Just(true)]).prop_map(|(pick, keep)| Op::AnswerPending { pick, keep }),
        3 => (0u8..8, prop_oneof![1 => Just(None), 6 => proptest::collection::vec(0u8..8, 0..6).prop_map(Some)], any::<bool>()).prop_map(|(conn, hashes, single)| Op::Scrape { conn, hashes, single }),
        2 => (0u8..8, 0u8..3).prop_map(|(conn, kind)| Op::Close { conn, kind }),
    ]
}

fn case_strategy(specs: Vec<Spec>, max_len: usize) -> impl Strategy<Value = Case> {
    (proptest::sample::select(specs), proptest::collection::vec(0u8..3, 2..5), proptest::collection::vec(op(), 1..max_len)).prop_map(|(spec, opens, ops)| {
        let mut all: Vec<Op> = opens.into_iter().map(|ip| Op::Open { ip }).collect();
        all.extend(ops);
        Case { spec, ops: all }
    })
}

pub fn specs(tier: Tier) -> Vec<Spec> {
    let mut v = vec![
        Spec { socket_workers: 1, swarm_workers: 1 },
        Spec { socket_workers: 2, swarm_workers: 3 },
        Spec { socket_workers: 3, swarm_workers: 2 },
        Spec { socket_workers: 3, swarm_workers: 3 },
    ];
    if tier == Tier::Thorough {
        for a in 1..=3u8 {
            for b in 1..=3u8 {
                let s = Spec { socket_workers: a, swarm_workers: b };
                if !v.contains(&s) {
                    v.push(s);
                }
            }
        }
    }
    v
}

pub fn run(ctx: &mut Ctx) {
    ctx.confirm_runs = 2;
    ctx.assume("after a connection's fence scrape is answered, everything sent to it earlier by any swarm worker has been delivered (per-channel FIFO from swarm worker to socket worker to connection; the scrape reply is merged from all swarm workers); a fence that is not answered within the reply wait (20 s) is reported as undecided");
    ctx.assume("which socket worker accepts a connection is the kernel's choice (sampled); all clients are IPv4 loopback addresses; no cleaning pass happens during a run");
    ctx.run_regress::<Case, _>("ws", prop);
    let tier = ctx.tier;
    let sp = specs(tier);
    let n = tier.pick(1_500, 30_000);
    let threads = ctx.threads.min(8);
    ctx.run_prop_threads("ws", n, threads, move || case_strategy(sp.clone(), tier.pick(24, 60)), prop);
    for l in ["offers-forwarded", "answer-forwarded", "offer-and-answer-between-connections", "close-owning", "scrape-spanning-workers", "non-owner-announce", "second-peer-id-refused", "tcp-reset", "close-frame"] {
        ctx.require_label("ws", l, 0.03);
    }
}

pub fn replay(path: &str, _sub: &str, case: serde_json::Value) -> i32 {
    replay_one::<Case, _>("C17", path, case, prop)
}
