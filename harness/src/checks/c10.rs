//! C10 — Peers and offers expire exactly at their deadline, never earlier (DESIGN.md §6 C10)

use aquatic_common::{SecondsSinceServerStart, ServerStartInstant, ValidUntil};
use proptest::prelude::*;
use serde::{Deserialize, Serialize};

use crate::engine::*;
use crate::httpdrv::{self, HttpCase, HttpGen, HttpOp};
use crate::udpdrv::{self, GenParams, UdpCase, UdpOp};
use crate::vensure;
use crate::wsdrv::{self, WsCase, WsGen};

pub const RULE: &str = "boundary-time histories on the three storage drivers: one torrent filled to 1 / inline capacity / capacity+1 / 3x capacity members (seeders and leechers) with deadlines a and a+1 seconds ahead, then blocks of clean(dt in {0,1,1,2}) / re-announce / scrape / observe so that cleans land one second before, at and after live deadlines (UDP, HTTP through explicit valid_until and the mock clock; WS through the mock clock with max_peer_age in {2,3,4} and max_offer_age in {1,2,3}, offers answered before and after the clean at their deadline); oracle = models S / W with deadline = sample + age: nothing disappears before the first clean with now >= deadline, it is gone after it, a re-announce re-arms; plus ValidUntil::new / new_with_now / valid against integer arithmetic under the mock clock. non-trivial = some clean at distance <= 1 from a live deadline; distinct = distinct serialised history. Sub-check e2e-clock: running trackers (udp mio / io_uring, http, ws; cleaning every second, max_peer_age 15-18 s, thorough up to 35 s) against real time: a peer announced later than max_peer_age after start-up is still reported 3 s after its announce, a peer announced at start-up and the late peers are gone within seconds of announce time + max_peer_age, a re-announced peer outlives its first deadline";

#[derive(Debug, Clone, Serialize, Deserialize)]
pub struct VuCase {
    pub now: u32,
    pub age: u32,
    pub probe: u32,
}

pub fn prop_vu(c: &VuCase) -> CaseResult {
    let mut out = Outcome::default();
    let start = ServerStartInstant::new();
    aquatic_common::verif::set_mock_seconds(Some(c.now));
    let a = ValidUntil::new(start, c.age);
    let sampled = start.seconds_elapsed().map(|s| s.get());
    aquatic_common::verif::set_mock_seconds(None);
    let b = ValidUntil::new_with_now(SecondsSinceServerStart::new_raw(c.now), c.age);
    let want = (c.now as u64 + c.age as u64) > c.probe as u64;
    let probe = SecondsSinceServerStart::new_raw(c.probe);
    out.checks += 3;
    vensure!(sampled == Some(c.now), "clock-sample", "seconds_elapsed under mock = {:?}, mock {}", sampled, c.now);
    let a = a.ok_or_else(|| Violation::new("valid-until-none", "ValidUntil::new returned None under the mock clock"))?;
    vensure!(
        a.valid(probe) == want && b.valid(probe) == want,
        "valid-until",
        "now={} age={} probe={}: ValidUntil::new(..).valid = {}, new_with_now(..).valid = {}, now+age>probe = {}",
        c.now,
        c.age,
        c.probe,
        a.valid(probe),
        b.valid(probe),
        want
    );
    let d = (c.now as i64 + c.age as i64) - c.probe as i64;
    if d.abs() <= 1 {
        out.nontrivial = true;
        out.label("at-boundary");
    }
    Ok(out)
}

fn vu_strategy() -> impl Strategy<Value = VuCase> {
    (0u32..(u32::MAX / 2), prop_oneof![Just(0u32), Just(1u32), 0u32..10_000, 0u32..(u32::MAX / 2)])
        .prop_flat_map(|(now, age)| {
            let dl = now as u64 + age as u64;
            (
                Just(now),
                Just(age),
                prop_oneof![
                    Just(dl.saturating_sub(1).min(u32::MAX as u64) as u32),
                    Just(dl.min(u32::MAX as u64) as u32),
                    Just((dl + 1).min(u32::MAX as u64) as u32),
                    Just(now),
                    any::<u32>()
                ],
            )
        })
        .prop_map(|(now, age, probe)| VuCase { now, age, probe })
}

fn nt(o: &mut Outcome) {
    o.nontrivial = o.labels.iter().any(|l| {
        matches!(
            l.as_str(),
            "clean-at-deadline" | "clean-one-before-deadline" | "clean-one-after-deadline" | "clean-at-offer-deadline"
        )
    });
}

pub fn prop_udp(case: &UdpCase) -> CaseResult {
    let mut o = udpdrv::run_udp_case(case, udpdrv::Oracles { stats_totals: true, ..Default::default() })?;
    nt(&mut o);
    Ok(o)
}
pub fn prop_http(case: &HttpCase) -> CaseResult {
    let mut o = httpdrv::run_http_case(case, false)?;
    nt(&mut o);
    Ok(o)
}
pub fn prop_ws(case: &WsCase) -> CaseResult {
    let mut o = wsdrv::run_ws_case(case, wsdrv::WsOracles { signalling: true, ..Default::default() })?;
    nt(&mut o);
    Ok(o)
}

fn udp_boundary(max_blocks: usize) -> impl Strategy<Value = UdpCase> {
    (
        prop_oneof![Just(1u8), Just(2u8), Just(3u8), Just(6u8)],
        1u32..=4,
        0u8..3,
    )
        .prop_flat_map(move |(n, a, fam)| {
            let p = GenParams {
                stop_w: 1,
                clean_w: 8,
                torrents: 1,
                max_ops: max_blocks,
                ips: 2,
                ports: (n / 2).max(1),
                pids: 2,
                exports: false,
                access_list: false,
                max_ttl: a + 1,
            };
            (
                Just((n, a, fam)),
                any::<u64>(),
                proptest::collection::vec(any::<bool>(), n as usize),
                proptest::collection::vec(udpdrv::udp_op(p), 0..max_blocks),
            )
        })
        .prop_map(|((n, a, fam), rng_seed, seeders, ops)| {
            let mut all = Vec::new();
            for i in 0..n {
                all.push(UdpOp::Announce {
                    t: 0,
                    fam,
                    ip: i % 2,
                    port: i / 2,
                    pid: i % 2,
                    event: 2,
                    left: if seeders[i as usize] { 0 } else { 1 },
                    numwant: 0,
                    ttl: a + (i as u32 % 2),
                    req_ip: [0; 4],
                    tid: i as i32,
                });
            }
            // deterministic probe of the boundary, then generated blocks
            all.push(UdpOp::Clean { dt: a - 1, export: false });
            all.push(UdpOp::Observe { t: 0, fam: fam % 2 });
            all.push(UdpOp::Clean { dt: 1, export: false });
            all.push(UdpOp::Observe { t: 0, fam: fam % 2 });
            all.extend(ops);
            all.push(UdpOp::Clean { dt: 1, export: false });
            UdpCase {
                max_response_peers: 30,
                rng_seed,
                peer_clients: false,
                histograms: false,
                access_mode: 0,
                ops: all,
            }
        })
}

fn http_boundary(max_blocks: usize) -> impl Strategy<Value = HttpCase> {
    (
        prop_oneof![Just(1u8), Just(4u8), Just(5u8), Just(12u8)],
        1u32..=4,
        0u8..3,
    )
        .prop_flat_map(move |(n, a, fam)| {
            let p = HttpGen {
                stop_w: 1,
                clean_w: 8,
                torrents: 1,
                max_ops: max_blocks,
                ips: 2,
                ports: (n / 2).max(1),
                access_list: false,
                max_ttl: a + 1,
            };
            (
                Just((n, a, fam)),
                any::<u64>(),
                proptest::collection::vec(any::<bool>(), n as usize),
                proptest::collection::vec(httpdrv::http_op(p), 0..max_blocks),
            )
        })
        .prop_map(|((n, a, fam), rng_seed, seeders, ops)| {
            let mut all = Vec::new();
            for i in 0..n {
                all.push(HttpOp::Announce {
                    t: 0,
                    fam,
                    ip: i % 2,
                    port: i / 2,
                    event: 2,
                    left: if seeders[i as usize] { 0 } else { 1 },
                    numwant: None,
                    ttl: a + (i as u32 % 2),
                });
            }
            all.push(HttpOp::Clean { dt: a - 1 });
            all.push(HttpOp::Observe { t: 0, fam: fam % 2 });
            all.push(HttpOp::Clean { dt: 1 });
            all.push(HttpOp::Observe { t: 0, fam: fam % 2 });
            all.extend(ops);
            all.push(HttpOp::Clean { dt: 1 });
            HttpCase {
                max_peers: 50,
                max_scrape_torrents: 100,
                rng_seed,
                access_mode: 0,
                ops: all,
            }
        })
}

fn ws_boundary(max_ops: usize) -> impl Strategy<Value = WsCase> {
    let p = WsGen {
        max_ops,
        pids: 3,
        offer_ids: 3,
        max_offers_in_req: 3,
        signalling_w: 9,
        access_list: false,
        time_w: 4,
    };
    (wsdrv::ws_case(p), 2u32..=4, 1u32..=3).prop_map(|(mut c, peer_age, offer_age)| {
        c.max_peer_age = peer_age;
        c.max_offer_age = offer_age;
        c.max_offers = 10;
        c
    })
}

pub fn run(ctx: &mut Ctx) {
    ctx.assume("storage sub-checks: the UDP/HTTP worker's time sample reaches storage as the explicit valid_until argument (ValidUntil::new checked separately under the mock clock); WS storage and all cleaners read the mock clock. That running workers keep the sample current is the `e2e-clock` sub-check (real time, bounds several seconds wide)");
    ctx.assume("now + age stays below u32::MAX (the code documents the u32 limit with an expect)");
    // against real time, in the background: running workers keep their time sample current
    let clock = crate::checks::clock::Background::start(crate::checks::clock::peer_clock_cases(ctx.seed, ctx.tier), crate::checks::clock::prop_peer_clock);
    ctx.run_regress::<UdpCase, _>("udp", prop_udp);
    ctx.run_regress::<HttpCase, _>("http", prop_http);
    ctx.run_regress::<WsCase, _>("ws", prop_ws);
    let t = ctx.tier;
    ctx.run_prop("valid-until", t.pick(200_000, 2_000_000), vu_strategy, prop_vu);
    ctx.run_prop("udp", t.pick(60_000, 1_500_000), move || udp_boundary(t.pick(25, 60)), prop_udp);
    ctx.run_prop("http", t.pick(60_000, 1_500_000), move || http_boundary(t.pick(25, 60)), prop_http);
    ctx.run_prop("ws", t.pick(60_000, 1_500_000), move || ws_boundary(t.pick(40, 90)), prop_ws);
    for sub in ["udp", "http", "ws"] {
        for l in ["clean-at-deadline", "clean-one-before-deadline", "clean-one-after-deadline"] {
            ctx.require_label(sub, l, 0.05);
        }
    }
    for sub in ["udp", "http"] {
        ctx.require_label(sub, "expired-in-heap-map", 0.05);
        ctx.require_label(sub, "expired-in-inline-map", 0.05);
        ctx.require_label(sub, "reannounce", 0.05);
    }
    // offers of different age side by side, refreshed offers, cleans between their deadlines:
    // every short sequence (shared with C09's small-scope enumeration)
    ctx.run_enum("ws-offers-small-scope", crate::checks::c09::small_cases_pub(t.pick(6, 7)), true, crate::checks::c09::prop_small);
    ctx.require_label("ws", "clean-at-offer-deadline", 0.03);
    ctx.require_label("ws", "clean-expired-offer", 0.03);
    ctx.confirm_runs = 2;
    ctx.run_regress::<crate::checks::clock::PeerClockCase, _>("e2e-clock", crate::checks::clock::prop_peer_clock);
    clock.finish(ctx, "e2e-clock", crate::checks::clock::prop_peer_clock);
    ctx.confirm_runs = 0;
    ctx.require_label("e2e-clock", "late-peer-kept", 0.7);
    ctx.require_label("e2e-clock", "late-peer-expired", 0.7);
}

pub fn replay(path: &str, sub: &str, case: serde_json::Value) -> i32 {
    match sub {
        "udp" => replay_one::<UdpCase, _>("C10", path, case, prop_udp),
        "http" => replay_one::<HttpCase, _>("C10", path, case, prop_http),
        "ws" => replay_one::<WsCase, _>("C10", path, case, prop_ws),
        "e2e-clock" => replay_one::<crate::checks::clock::PeerClockCase, _>("C10", path, case, crate::checks::clock::prop_peer_clock),
        _ => replay_one::<VuCase, _>("C10", path, case, prop_vu),
    }
}
