//! C06 sub-check `send-faults`: the mio back end's resend queue (mio/socket.rs: send_response,
//! resend_failed) only runs when the kernel refuses a reply with EAGAIN / ENOBUFS, which never
//! happens on loopback. The fault is injected from outside: a child process hosts the tracker and
//! runs under `strace -e inject=sendto:error=...:when=first+step`, which makes chosen `sendto`
//! system calls of the tracker fail. The harness's own clients send with `sendmsg`, so only the
//! tracker's sends are hit (its start-up readiness probe uses sendto and simply retries).
//!
//! Oracle (the part of C06 that is independent of the kernel's refusal): every reply carries the
//! transaction id of a request, arrives at the socket that sent that request, and arrives at most
//! once - also long after the failure; with the resend queue on (`resend_buffer_max_len` > 0) and
//! failures never twice in a row, every well-formed request with a valid id still gets exactly
//! one reply. With the queue off a refused reply is lost - the kernel's doing, not counted.

use std::collections::BTreeMap;
use std::net::{IpAddr, Ipv4Addr, SocketAddr};
use std::os::fd::AsRawFd;
use std::time::{Duration, Instant};

use serde::{Deserialize, Serialize};

use crate::codecs::*;
use crate::e2e::*;
use crate::engine::*;
use crate::vfail;

#[derive(Debug, Clone, PartialEq, Serialize, Deserialize)]
pub struct SendFaultCase {
    pub resend_max: usize,
    pub socket_workers: usize,
    /// strace's when=first+step: the first failing sendto of each thread, then every step-th
    pub first: u32,
    pub step: u32,
    /// "EAGAIN" | "ENOBUFS"
    pub errno: String,
    /// request kinds: 0 connect, 1 announce, 2 scrape, 3 announce with an invalid connection id
    pub requests: Vec<u8>,
}

fn sendmsg_to(sock: &std::net::UdpSocket, bytes: &[u8], to: SocketAddr) -> std::io::Result<()> {
    let sa: socket2::SockAddr = to.into();
    let mut iov = libc::iovec { iov_base: bytes.as_ptr() as *mut _, iov_len: bytes.len() };
    let mut msg: libc::msghdr = unsafe { std::mem::zeroed() };
    msg.msg_name = sa.as_ptr() as *mut _;
    msg.msg_namelen = sa.len();
    msg.msg_iov = &mut iov;
    msg.msg_iovlen = 1;
    let r = unsafe { libc::sendmsg(sock.as_raw_fd(), &msg, 0) };
    if r < 0 {
        Err(std::io::Error::last_os_error())
    } else {
        Ok(())
    }
}

/// child: `vcheck --c06-fault-child <case json>`; prints one line `OK <labels>` /
/// `VIOLATION <kind> <message>` / `UNDECIDED <why>`
pub fn child_main(args: &[String]) -> i32 {
    let case: SendFaultCase = match args.first().and_then(|s| serde_json::from_str(s).ok()) {
        Some(c) => c,
        None => return 2,
    };
    let tr = match start_udp(|port| {
        let mut cfg = udp_config(port, SocketMode::V4Only, false, case.socket_workers.max(1));
        cfg.network.resend_buffer_max_len = case.resend_max;
        cfg.cleaning.torrent_cleaning_interval = 100_000;
        cfg
    }) {
        Ok(t) => t,
        Err(e) => {
            println!("UNDECIDED tracker start: {e}");
            return 2;
        }
    };
    let target: SocketAddr = (Ipv4Addr::LOCALHOST, tr.port).into();
    let mut clients = Vec::new();
    for k in 0..3u8 {
        let ip: IpAddr = Ipv4Addr::new(127, 0, 0, 2 + k).into();
        match UdpClient::new(ip, tr.port) {
            Ok(c) => clients.push(c),
            Err(e) => {
                println!("UNDECIDED client: {e}");
                return 2;
            }
        }
    }
    // a connection id per client (retried: the connect reply itself may be refused by the kernel)
    let mut cids = Vec::new();
    for (k, cl) in clients.iter().enumerate() {
        let mut cid = None;
        for attempt in 0..20 {
            let tid = 9_000 + (k * 100 + attempt) as i32;
            let _ = sendmsg_to(&cl.sock, &bep15_encode_request(&UReq::Connect { tid }), target);
            let deadline = Instant::now() + Duration::from_millis(400);
            while Instant::now() < deadline && cid.is_none() {
                if let Some((b, _)) = cl.recv(Duration::from_millis(100)) {
                    if let Ok(URsp::Connect { cid: c, tid: t }) = bep15_decode_response(&b, true) {
                        if t == tid {
                            cid = Some(c);
                        }
                    }
                }
            }
            if cid.is_some() {
                break;
            }
        }
        match cid {
            Some(c) => cids.push(c),
            None => {
                println!("UNDECIDED no connection id after 20 connect requests");
                return 2;
            }
        }
    }
    // drain what the warm-up may still deliver (resent connect replies)
    std::thread::sleep(Duration::from_millis(300));
    let mut warmup_replies = 0;
    for cl in clients.iter() {
        while cl.try_recv().is_some() {
            warmup_replies += 1;
        }
    }
    let _ = warmup_replies;
    // the requests, one at a time: tid i from client i % 3
    let mut expect_reply: BTreeMap<i32, (usize, bool)> = BTreeMap::new(); // tid -> (client, reply due)
    let mut got: BTreeMap<i32, Vec<usize>> = BTreeMap::new(); // tid -> clients that received a reply with it
    let mut stray = Vec::new();
    let mut collect = |clients: &Vec<UdpClient>, wait: Duration, got: &mut BTreeMap<i32, Vec<usize>>, stray: &mut Vec<String>| {
        let deadline = Instant::now() + wait;
        loop {
            let mut any = false;
            for (k, cl) in clients.iter().enumerate() {
                while let Some((b, from)) = cl.try_recv() {
                    any = true;
                    if from != target {
                        stray.push(format!("datagram from {from}"));
                        continue;
                    }
                    let tid = match bep15_decode_response(&b, true) {
                        Ok(URsp::Connect { tid, .. }) | Ok(URsp::Announce4 { tid, .. }) | Ok(URsp::Announce6 { tid, .. }) | Ok(URsp::Scrape { tid, .. }) | Ok(URsp::Error { tid, .. }) => tid,
                        Err(e) => {
                            stray.push(format!("undecodable reply ({e}) at client {k}"));
                            continue;
                        }
                    };
                    got.entry(tid).or_default().push(k);
                }
            }
            if Instant::now() > deadline {
                break;
            }
            if !any {
                std::thread::sleep(Duration::from_millis(2));
            }
        }
    };
    for (i, kind) in case.requests.iter().enumerate() {
        let k = i % clients.len();
        let tid = 100 + i as i32;
        let hash = {
            let mut h = [0x33u8; 20];
            h[0] = (i % 5) as u8;
            h
        };
        let (bytes, due) = match kind % 4 {
            0 => (bep15_encode_request(&UReq::Connect { tid }), true),
            1 => (bep15_encode_request(&UReq::Announce { cid: cids[k], tid, info_hash: hash, peer_id: [k as u8; 20], downloaded: 0, left: 1, uploaded: 0, event: 0, ip: [0; 4], key: 0, numwant: 10, port: 5000 + i as u16 }), true),
            2 => (bep15_encode_request(&UReq::Scrape { cid: cids[k], tid, hashes: vec![hash, [0x44; 20]] }), true),
            _ => (bep15_encode_request(&UReq::Announce { cid: cids[k] ^ 0x5a5a, tid, info_hash: hash, peer_id: [k as u8; 20], downloaded: 0, left: 1, uploaded: 0, event: 0, ip: [0; 4], key: 0, numwant: 10, port: 5000 + i as u16 }), false),
        };
        expect_reply.insert(tid, (k, due));
        if let Err(e) = sendmsg_to(&clients[k].sock, &bytes, target) {
            println!("UNDECIDED client send: {e}");
            return 2;
        }
        // One request at a time: with two replies in flight the injected failures could hit the
        // first attempt and the resend of the same reply, which the queue is not meant to survive.
        // A reply normally comes within a millisecond, a resent one after the next poll round;
        // with the queue on the reply is awaited (bounded only against a starved machine).
        let patience = if due && case.resend_max > 0 { crate::e2e::reply_wait() } else { Duration::from_millis(200) };
        let t0 = Instant::now();
        loop {
            collect(&clients, Duration::from_millis(20), &mut got, &mut stray);
            if got.contains_key(&tid) || t0.elapsed() > patience {
                break;
            }
        }
    }
    // long after: a queue that is not emptied keeps sending
    collect(&clients, Duration::from_millis(1500), &mut got, &mut stray);
    if let Some(s) = stray.first() {
        println!("VIOLATION stray-datagram {s}");
        return 1;
    }
    let mut labels = vec![];
    let mut missing = 0;
    for (tid, receivers) in got.iter() {
        let Some((k, due)) = expect_reply.get(tid) else {
            if (9_000..12_000).contains(tid) {
                // late (resent) connect replies of the warm-up: at most one each, checked below
                if receivers.len() > 1 {
                    println!("VIOLATION reply-duplicated warm-up connect request {tid} was answered {} times", receivers.len());
                    return 1;
                }
                continue;
            }
            println!("VIOLATION unknown-transaction-id a reply carries transaction id {tid}, which no request used");
            return 1;
        };
        if receivers.iter().any(|r| r != k) {
            println!("VIOLATION reply-to-wrong-address the reply to request {tid} (sent by client {k}) arrived at client(s) {:?}", receivers);
            return 1;
        }
        if receivers.len() > 1 {
            println!(
                "VIOLATION reply-duplicated request {tid} (kind {}) was answered {} times (resend_buffer_max_len {}, sendto failing with {} at {}+{})",
                case.requests[(*tid - 100) as usize],
                receivers.len(),
                case.resend_max,
                case.errno,
                case.first,
                case.step
            );
            return 1;
        }
        if !due {
            println!("VIOLATION reply-without-valid-id request {tid} carried an invalid connection id and was answered");
            return 1;
        }
    }
    for (tid, (_, due)) in expect_reply.iter() {
        if *due && !got.contains_key(tid) {
            missing += 1;
            if case.resend_max > 0 && case.step >= 2 {
                println!(
                    "VIOLATION reply-lost-despite-resend-queue request {tid} (kind {}) was never answered although the resend queue is on (max {}) and no two sends in a row failed ({} at {}+{})",
                    case.requests[(*tid - 100) as usize],
                    case.resend_max,
                    case.errno,
                    case.first,
                    case.step
                );
                return 1;
            }
        }
    }
    if missing > 0 {
        labels.push("reply-lost-queue-off");
    }
    if case.resend_max > 0 {
        labels.push("resend-queue-on");
    }
    println!("OK {}", labels.join(","));
    0
}

fn strace_usable() -> bool {
    static OK: std::sync::OnceLock<bool> = std::sync::OnceLock::new();
    *OK.get_or_init(|| {
        std::process::Command::new("strace")
            .args(["-f", "-qq", "-o", "/dev/null", "-e", "trace=sendto", "-e", "inject=sendto:error=EAGAIN:when=1", "true"])
            .output()
            .map(|o| o.status.success())
            .unwrap_or(false)
    })
}

pub fn prop_send_fault(c: &SendFaultCase) -> CaseResult {
    let mut out = Outcome::default();
    if !strace_usable() {
        out.label("skipped-no-strace");
        return Ok(out);
    }
    let exe = std::env::current_exe().map_err(|e| Violation::new("inconclusive-io", e.to_string()))?;
    let inject = format!("inject=sendto:error={}:when={}+{}", if c.errno == "ENOBUFS" { "ENOBUFS" } else { "EAGAIN" }, c.first.max(1), c.step.max(1));
    let output = std::process::Command::new("strace")
        .args(["-f", "-qq", "-o", "/dev/null", "-e", "trace=sendto", "-e", &inject])
        .arg(exe)
        .arg("--c06-fault-child")
        .arg(serde_json::to_string(c).unwrap())
        .output()
        .map_err(|e| Violation::new("inconclusive-io", e.to_string()))?;
    let stdout = String::from_utf8_lossy(&output.stdout).to_string();
    let last = stdout.lines().last().unwrap_or("").to_string();
    if let Some(rest) = last.strip_prefix("OK") {
        for l in rest.trim().split(',').filter(|l| !l.is_empty()) {
            out.label(l);
        }
        out.checks += c.requests.len() as u64;
        out.nontrivial = true;
        out.label(if c.errno == "ENOBUFS" { "enobufs" } else { "eagain" });
        return Ok(out);
    }
    if let Some(rest) = last.strip_prefix("VIOLATION ") {
        let (kind, msg) = rest.split_once(' ').unwrap_or((rest, ""));
        vfail!(kind, "{}", msg);
    }
    Err(Violation::new("inconclusive-child", format!("child said {:?} (status {:?}, stderr tail {:?})", last, output.status, String::from_utf8_lossy(&output.stderr).chars().rev().take(300).collect::<String>().chars().rev().collect::<String>())))
}

pub fn cases(seed: u64, tier: Tier) -> Vec<SendFaultCase> {
    let mut v = Vec::new();
    let n = tier.pick(24u64, 160);
    for i in 0..n {
        let mut x = derive_seed(seed, "C06", "send-faults", i);
        let mut next = |m: u64| {
            x = x.wrapping_mul(6364136223846793005).wrapping_add(1442695040888963407);
            (x >> 33) % m
        };
        let resend_max = [0usize, 1, 2, 8, 64][next(5) as usize];
        let requests: Vec<u8> = (0..tier.pick(24, 60)).map(|_| [0u8, 1, 1, 2, 2, 3][next(6) as usize]).collect();
        v.push(SendFaultCase {
            resend_max: if i % 4 == 0 { 8 } else { resend_max },
            socket_workers: 1 + next(2) as usize,
            first: 1 + next(6) as u32,
            step: 2 + next(5) as u32,
            errno: if next(3) == 0 { "ENOBUFS".into() } else { "EAGAIN".into() },
            requests,
        });
    }
    v
}
