//! C11 — Access list is enforced on announce, on cleaning and across reloads (DESIGN.md §6 C11)

use std::collections::BTreeSet;
use std::io::Write;
use std::sync::Arc;

use aquatic_common::access_list::{
    create_access_list_cache, update_access_list, AccessListArcSwap, AccessListConfig, AccessListMode,
    AccessListQuery,
};
use proptest::prelude::*;
use serde::{Deserialize, Serialize};

use crate::engine::*;
use crate::httpdrv::{self, HttpCase, HttpGen};
use crate::models::{hash_for, Hash20};
use crate::udpdrv::{self, hex, thread_tmp_path, GenParams, UdpCase};
use crate::{vensure, vfail};
use crate::wsdrv::{self, WsCase, WsGen};

pub const RULE: &str = "(reload) sequences of list files built from a known hash set with decorations (upper/lower/mixed-case hex, blank lines, leading/trailing blanks and tabs, CRLF, trailing newline or not) and faults (39/41-digit line, non-hex character, non-UTF-8 byte, missing file) at generated line positions, a third of the reloads being the previous file with one entry replaced (same length), files either rewritten in place or deployed as packaging tools do (written elsewhere, modification time set to a fixed release time, renamed into place), loaded through update_access_list in modes allow/deny/off; oracle = model A (parse whole file or keep the old set; decisions via AccessListArcSwap::allows and a cache created before the reload). (storage) histories of announce / swap-list / clean / scrape / observe on the UDP, HTTP and WS storage drivers in all three modes, where announces of currently forbidden hashes are withheld as the socket workers do, and the next clean must remove exactly the forbidden torrents and leave permitted ones untouched (compared with models S / W after every step). non-trivial = a failed reload after a good one, a fault at line position > 0, or a list swap that forbids a torrent holding peers followed by a clean; distinct = distinct serialised case";

#[derive(Debug, Clone, Serialize, Deserialize, PartialEq)]
pub enum Line {
    Hash { idx: u8, case_mode: u8, lead: String, trail: String },
    Blank(String),
    Short { idx: u8 },
    Long { idx: u8 },
    NonHex { idx: u8, pos: u8 },
    NonUtf8 { idx: u8 },
}

#[derive(Debug, Clone, Serialize, Deserialize, PartialEq)]
pub struct FileSpec {
    pub missing: bool,
    pub lines: Vec<Line>,
    pub crlf: bool,
    pub trailing_newline: bool,
    /// how the file gets there: 0 written in place, time stamps as they come; 1 / 2 deployed the
    /// way packaging tools do it - written elsewhere, modification time set to a fixed release
    /// time (1: the same for every file, 2: one hour later per reload), renamed into place
    #[serde(default)]
    pub deploy: u8,
}

#[derive(Debug, Clone, Serialize, Deserialize)]
pub struct ReloadCase {
    /// 0 off, 1 allow, 2 deny
    pub mode: u8,
    pub files: Vec<FileSpec>,
}

fn h(idx: u8) -> Hash20 {
    hash_for(idx, idx.wrapping_mul(37))
}

fn render(f: &FileSpec) -> (Vec<u8>, Option<BTreeSet<Hash20>>) {
    // returns bytes and the set the file denotes (None if the file is malformed)
    let mut bytes = Vec::new();
    let mut set = BTreeSet::new();
    let mut ok = true;
    let n = f.lines.len();
    for (i, l) in f.lines.iter().enumerate() {
        match l {
            Line::Hash { idx, case_mode, lead, trail } => {
                let hx = hex(&h(*idx));
                let hx: String = match case_mode % 3 {
                    0 => hx,
                    1 => hx.to_uppercase(),
                    _ => hx
                        .chars()
                        .enumerate()
                        .map(|(i, c)| if i % 2 == 0 { c.to_ascii_uppercase() } else { c })
                        .collect(),
                };
                bytes.extend_from_slice(lead.as_bytes());
                bytes.extend_from_slice(hx.as_bytes());
                bytes.extend_from_slice(trail.as_bytes());
                set.insert(h(*idx));
            }
            Line::Blank(ws) => bytes.extend_from_slice(ws.as_bytes()),
            Line::Short { idx } => {
                bytes.extend_from_slice(hex(&h(*idx))[..39].as_bytes());
                ok = false;
            }
            Line::Long { idx } => {
                bytes.extend_from_slice(hex(&h(*idx)).as_bytes());
                bytes.push(b'a');
                ok = false;
            }
            Line::NonHex { idx, pos } => {
                let mut s = hex(&h(*idx)).into_bytes();
                s[*pos as usize % 40] = b'g';
                bytes.extend_from_slice(&s);
                ok = false;
            }
            Line::NonUtf8 { idx } => {
                let mut s = hex(&h(*idx)).into_bytes();
                s[3] = 0xff;
                bytes.extend_from_slice(&s);
                ok = false;
            }
        }
        if i + 1 < n || f.trailing_newline {
            if f.crlf {
                bytes.push(b'\r');
            }
            bytes.push(b'\n');
        }
    }
    (bytes, if ok { Some(set) } else { None })
}

pub fn prop_reload(case: &ReloadCase) -> CaseResult {
    let mut out = Outcome::default();
    let path = thread_tmp_path("access-list.txt");
    let mode = match case.mode % 3 {
        0 => AccessListMode::Off,
        1 => AccessListMode::Allow,
        _ => AccessListMode::Deny,
    };
    let config = AccessListConfig { mode, path: path.clone() };
    let arc = Arc::new(AccessListArcSwap::default());
    let mut cache = create_access_list_cache(&arc);
    let mut current: BTreeSet<Hash20> = BTreeSet::new();
    let mut had_good = false;
    for (i, f) in case.files.iter().enumerate() {
        let _ = std::fs::remove_file(&path);
        let (bytes, denoted) = render(f);
        if !f.missing {
            if f.deploy % 3 == 0 {
                let mut fh = std::fs::File::create(&path).expect("create list file");
                fh.write_all(&bytes).unwrap();
            } else {
                let tmp = path.with_extension("deploy");
                let mut fh = std::fs::File::create(&tmp).expect("create list file");
                fh.write_all(&bytes).unwrap();
                let release = std::time::UNIX_EPOCH + std::time::Duration::from_secs(1_577_836_800 + if f.deploy % 3 == 2 { 3600 * i as u64 } else { 0 });
                fh.set_modified(release).expect("set mtime");
                drop(fh);
                std::fs::rename(&tmp, &path).expect("rename list file");
                out.label("deployed-with-fixed-mtime");
            }
        }
        let result = update_access_list(&config, &arc);
        let expect_ok = mode == AccessListMode::Off || (!f.missing && denoted.is_some());
        out.checks += 1;
        vensure!(
            result.is_ok() == expect_ok,
            if expect_ok { "good-reload-failed" } else { "bad-reload-succeeded" },
            "reload {i} (mode {:?}, missing={}, file {:?}): update_access_list returned {:?}, expected {}",
            mode,
            f.missing,
            String::from_utf8_lossy(&bytes),
            result.as_ref().map(|_| ()).map_err(|e| e.to_string()),
            if expect_ok { "Ok" } else { "Err" }
        );
        if expect_ok && mode != AccessListMode::Off {
            current = denoted.unwrap();
            had_good = true;
        } else if !expect_ok {
            if had_good {
                out.label("failed-after-good");
                out.nontrivial = true;
            }
            if f
                .lines
                .iter()
                .position(|l| !matches!(l, Line::Hash { .. } | Line::Blank(_)))
                .map(|p| p > 0)
                .unwrap_or(false)
            {
                out.label("fault-after-first-line");
                out.nontrivial = true;
            }
            if f.missing {
                out.label("missing-file");
            }
        }
        // decisions follow the model, through the shared ArcSwap and through a cache
        // created before any reload (what every worker holds)
        for idx in 0..10u8 {
            let hsh = h(idx);
            let want = match mode {
                AccessListMode::Off => true,
                AccessListMode::Allow => current.contains(&hsh),
                AccessListMode::Deny => !current.contains(&hsh),
            };
            out.checks += 2;
            let got_arc = arc.allows(mode, &hsh);
            let got_cache = cache.load().allows(mode, &hsh);
            vensure!(
                got_arc == want && got_cache == want,
                "decision-differs",
                "after reload {i} ({}): hash {idx} allowed: shared list says {}, worker cache says {}, model says {} (mode {:?}, set {:?})",
                if expect_ok { "ok" } else { "failed" },
                got_arc,
                got_cache,
                want,
                mode,
                current.iter().map(|x| x[19]).collect::<Vec<_>>()
            );
        }
        if f.crlf {
            out.label("crlf");
        }
    }
    let _ = std::fs::remove_file(&path);
    Ok(out)
}

fn ws() -> impl Strategy<Value = String> {
    prop_oneof![3 => Just(String::new()), 1 => Just(" ".to_string()), 1 => Just("\t".to_string()), 1 => Just("  \t ".to_string())]
}

/// well-formed lines only (constructed, not filtered)
fn good_line() -> impl Strategy<Value = Line> {
    prop_oneof![
        12 => (0u8..8, 0u8..3, ws(), ws()).prop_map(|(idx, case_mode, lead, trail)| Line::Hash { idx, case_mode, lead, trail }),
        3 => ws().prop_map(Line::Blank),
    ]
}

fn line(fault_w: u32) -> impl Strategy<Value = Line> {
    prop_oneof![
        12 => (0u8..8, 0u8..3, ws(), ws()).prop_map(|(idx, case_mode, lead, trail)| Line::Hash { idx, case_mode, lead, trail }),
        3 => ws().prop_map(Line::Blank),
        fault_w => (0u8..8).prop_map(|idx| Line::Short { idx }),
        fault_w => (0u8..8).prop_map(|idx| Line::Long { idx }),
        fault_w => (0u8..8, 0u8..40).prop_map(|(idx, pos)| Line::NonHex { idx, pos }),
        fault_w => (0u8..8).prop_map(|idx| Line::NonUtf8 { idx }),
    ]
}

fn file_spec() -> impl Strategy<Value = FileSpec> {
    prop_oneof![
        // good files
        5 => (proptest::collection::vec(good_line(), 0..10), any::<bool>(), any::<bool>())
            .prop_map(|(lines, crlf, trailing_newline)| FileSpec { missing: false, lines, crlf, trailing_newline, deploy: 0 }),
        // possibly faulty files
        4 => (proptest::collection::vec(line(1), 0..10), any::<bool>(), any::<bool>())
            .prop_map(|(lines, crlf, trailing_newline)| FileSpec { missing: false, lines, crlf, trailing_newline, deploy: 0 }),
        1 => Just(FileSpec { missing: true, lines: vec![], crlf: false, trailing_newline: false, deploy: 0 }),
    ]
}

fn reload_case() -> impl Strategy<Value = ReloadCase> {
    (
        prop_oneof![1 => Just(0u8), 3 => Just(1u8), 3 => Just(2u8)],
        proptest::collection::vec(file_spec(), 1..6),
        // per reload: (derive from the previous file, which line, new hash, deployment style)
        proptest::collection::vec((prop_oneof![2 => Just(false), 1 => Just(true)], any::<u8>(), 0u8..10, prop_oneof![3 => Just(0u8), 2 => Just(1u8), 1 => Just(2u8)]), 6),
    )
        .prop_map(|(mode, mut files, tweaks)| {
            for i in 0..files.len() {
                let (derive, pos, new_idx, deploy) = tweaks[i];
                files[i].deploy = deploy;
                // a new release of the list that differs from the previous one in a single entry:
                // same length, same decorations, other content
                if derive && i > 0 && !files[i - 1].missing {
                    let mut f = files[i - 1].clone();
                    let hashes: Vec<usize> = f.lines.iter().enumerate().filter(|(_, l)| matches!(l, Line::Hash { .. })).map(|(k, _)| k).collect();
                    if !hashes.is_empty() {
                        let k = hashes[pos as usize * hashes.len() / 256];
                        if let Line::Hash { idx, .. } = &mut f.lines[k] {
                            *idx = if *idx == new_idx { (new_idx + 1) % 10 } else { new_idx };
                        }
                        f.deploy = deploy;
                        files[i] = f;
                    }
                }
            }
            ReloadCase { mode, files }
        })
}

// ---- storage level -------------------------------------------------------------------------

fn nt_storage(o: &mut Outcome) {
    o.nontrivial = o.labels.iter().any(|l| l == "access-list-swap") && o.labels.iter().any(|l| l == "forbidden-torrent-cleaned");
}

pub fn prop_udp(case: &UdpCase) -> CaseResult {
    let mut o = udpdrv::run_udp_case(case, udpdrv::Oracles { access_list: true, ..Default::default() })?;
    nt_storage(&mut o);
    Ok(o)
}
pub fn prop_http(case: &HttpCase) -> CaseResult {
    let mut o = httpdrv::run_http_case(case, true)?;
    nt_storage(&mut o);
    Ok(o)
}
pub fn prop_ws(case: &WsCase) -> CaseResult {
    let mut o = wsdrv::run_ws_case(case, wsdrv::WsOracles { access_list: true, ..Default::default() })?;
    nt_storage(&mut o);
    Ok(o)
}

// ---- end to end: SIGUSR1 reloads against running trackers ---------------------------------------

#[derive(Debug, Clone, Serialize, Deserialize)]
pub struct E2eCase {
    /// "udp-mio" | "udp-uring" | "http" | "ws"
    pub tracker: String,
    /// 1 allow, 2 deny
    pub mode: u8,
    /// per round: (listed torrent indices (0..5), kind: 0 good, 1 bad line, 2 missing file)
    pub rounds: Vec<(Vec<u8>, u8)>,
}

fn e2e_hash(t: u8) -> Hash20 {
    let mut h = [b'q'; 20];
    h[0] = b'a' + t;
    h[19] = b'0' + t;
    h
}

pub fn prop_e2e(c: &E2eCase) -> CaseResult {
    use crate::codecs::*;
    use crate::e2e::*;
    use std::net::{IpAddr, SocketAddr};
    use std::time::{Duration, Instant};
    let mut out = Outcome::default();
    let dir = tempfile::Builder::new().prefix("vcheck-c11-").tempdir_in("/dev/shm").or_else(|_| tempfile::tempdir()).map_err(|e| Violation::new("inconclusive-io", e.to_string()))?;
    let path = dir.path().join("list.txt");
    let mode = if c.mode % 2 == 1 { AccessListMode::Allow } else { AccessListMode::Deny };
    const CANARY: u8 = 6;
    // the canary's listed-state flips with every good reload, so a poll tells when it took effect
    let mut canary_listed = false;
    let write_list = |listed: &[u8], canary: bool, bad: bool| {
        let mut text = String::new();
        for (i, t) in listed.iter().enumerate() {
            if bad && i == listed.len() / 2 {
                text.push_str("this-is-not-a-hash\n");
            }
            text.push_str(&hex(&e2e_hash(*t)));
            text.push('\n');
        }
        if bad && listed.is_empty() {
            text.push_str("zz\n");
        }
        if canary {
            text.push_str(&hex(&e2e_hash(CANARY)));
            text.push('\n');
        }
        let tmp = path.with_extension("new");
        std::fs::write(&tmp, text).unwrap();
        std::fs::rename(&tmp, &path).unwrap();
    };
    write_list(&[], canary_listed, false);
    let timeout = crate::e2e::reply_wait();
    let ip: IpAddr = "127.0.0.1".parse().unwrap();
    // start the tracker
    enum T {
        Udp(Tracker, UdpClient, i64),
        Http(Tracker),
        Ws(Tracker, WsClient),
    }
    let mut t = match c.tracker.as_str() {
        "udp-mio" | "udp-uring" => {
            let uring = c.tracker == "udp-uring";
            let tr = start_udp(|port| {
                let mut cfg = udp_config(port, SocketMode::V4Only, uring, 2);
                cfg.access_list.mode = mode;
                cfg.access_list.path = path.clone();
                cfg.cleaning.torrent_cleaning_interval = 1;
                cfg.cleaning.max_peer_age = 100_000;
                cfg
            })
            .map_err(|e| Violation::new("inconclusive-tracker-start", e))?;
            let cl = UdpClient::new(ip, tr.port).map_err(|e| Violation::new("inconclusive-client", e))?;
            cl.send(&bep15_encode_request(&UReq::Connect { tid: 1 })).map_err(|e| Violation::new("inconclusive-send", e))?;
            let cid = match cl.recv(timeout).map(|(b, _)| bep15_decode_response(&b, true)) {
                Some(Ok(URsp::Connect { cid, .. })) => cid,
                other => return Err(Violation::new("inconclusive-connect", format!("{:?}", other))),
            };
            T::Udp(tr, cl, cid)
        }
        "http" => {
            let tr = start_http(|port| {
                let mut cfg = http_config(port, 2, 2);
                cfg.network.use_ipv6 = false;
                cfg.access_list.mode = mode;
                cfg.access_list.path = path.clone();
                cfg.cleaning.torrent_cleaning_interval = 1;
                cfg.cleaning.max_peer_age = 100_000;
                cfg
            })
            .map_err(|e| Violation::new("inconclusive-tracker-start", e))?;
            T::Http(tr)
        }
        _ => {
            let tr = start_ws(|port| {
                let mut cfg = ws_config(port, 2, 2, false);
                cfg.access_list.mode = mode;
                cfg.access_list.path = path.clone();
                cfg.cleaning.torrent_cleaning_interval = 1;
                cfg.cleaning.max_peer_age = 100_000;
                cfg
            })
            .map_err(|e| Violation::new("inconclusive-tracker-start", e))?;
            let to: SocketAddr = (std::net::Ipv4Addr::LOCALHOST, tr.port).into();
            let cl = WsClient::connect(ip, to).map_err(|e| Violation::new("inconclusive-connect", e))?;
            T::Ws(tr, cl)
        }
    };
    // announce(hash, port) -> Ok(true) normal reply, Ok(false) error reply; scrape(hash) -> peers stored
    let mut announce = |t: &mut T, hsh: Hash20, port: u16| -> Result<bool, Violation> {
        match t {
            T::Udp(_, cl, cid) => {
                cl.send(&bep15_encode_request(&UReq::Announce { cid: *cid, tid: 2, info_hash: hsh, peer_id: [1; 20], downloaded: 0, left: 1, uploaded: 0, event: 2, ip: [0; 4], key: 0, numwant: 0, port })).map_err(|e| Violation::new("inconclusive-send", e))?;
                match cl.recv(timeout).map(|(b, _)| bep15_decode_response(&b, true)) {
                    Some(Ok(URsp::Announce4 { .. })) => Ok(true),
                    Some(Ok(URsp::Error { .. })) => Ok(false),
                    other => Err(Violation::new("no-reply", format!("announce: {:?}", other))),
                }
            }
            T::Http(tr) => {
                let to: SocketAddr = (std::net::Ipv4Addr::LOCALHOST, tr.port).into();
                let mut cl = HttpClient::connect(ip, to).map_err(|e| Violation::new("inconclusive-connect", e))?;
                let req = format!("GET /announce?info_hash={}&peer_id=-TR2940-abcdefghijkl&port={port}&uploaded=0&downloaded=0&left=1 HTTP/1.1\r\nHost: x\r\n\r\n", std::str::from_utf8(&hsh).unwrap());
                cl.send_segments(&[req.as_bytes()]).map_err(|e| Violation::new("inconclusive-send", e))?;
                match cl.read_reply(timeout) {
                    HttpRead::Ok { body, .. } => Ok(!body.starts_with(b"d14:failure reason")),
                    other => Err(Violation::new("no-reply", format!("announce: {:?}", other))),
                }
            }
            T::Ws(_, cl) => {
                use aquatic_ws_protocol::common::*;
                use aquatic_ws_protocol::incoming::*;
                use aquatic_ws_protocol::outgoing::OutMessage;
                let m = InMessage::AnnounceRequest(AnnounceRequest { action: AnnounceAction::Announce, info_hash: InfoHash(hsh), peer_id: PeerId([(port % 200) as u8; 20]), bytes_left: Some(1), event: None, offers: None, numwant: None, answer: None, answer_to_peer_id: None, answer_offer_id: None });
                let text = match m.to_ws_message() {
                    tungstenite::Message::Text(t) => t.as_str().to_string(),
                    _ => String::new(),
                };
                cl.send_text(text).map_err(|e| Violation::new("inconclusive-send", e))?;
                match cl.recv(timeout) {
                    Ok(Some(m)) => match OutMessage::from_ws_message(m) {
                        Ok(OutMessage::AnnounceResponse(_)) => Ok(true),
                        Ok(OutMessage::ErrorResponse(_)) => Ok(false),
                        other => Err(Violation::new("wrong-reply", format!("{:?}", other))),
                    },
                    other => Err(Violation::new("no-reply", format!("announce: {:?}", other.map(|_| ())))),
                }
            }
        }
    };
    let mut scrape = |t: &mut T, hsh: Hash20| -> Result<usize, Violation> {
        match t {
            T::Udp(_, cl, cid) => {
                cl.send(&bep15_encode_request(&UReq::Scrape { cid: *cid, tid: 3, hashes: vec![hsh] })).map_err(|e| Violation::new("inconclusive-send", e))?;
                match cl.recv(timeout).map(|(b, _)| bep15_decode_response(&b, true)) {
                    Some(Ok(URsp::Scrape { stats, .. })) => Ok(stats.first().map(|s| (s.0 + s.2) as usize).unwrap_or(0)),
                    other => Err(Violation::new("no-reply", format!("scrape: {:?}", other))),
                }
            }
            T::Http(tr) => {
                let to: SocketAddr = (std::net::Ipv4Addr::LOCALHOST, tr.port).into();
                let mut cl = HttpClient::connect(ip, to).map_err(|e| Violation::new("inconclusive-connect", e))?;
                let req = format!("GET /scrape?info_hash={} HTTP/1.1\r\nHost: x\r\n\r\n", std::str::from_utf8(&hsh).unwrap());
                cl.send_segments(&[req.as_bytes()]).map_err(|e| Violation::new("inconclusive-send", e))?;
                match cl.read_reply(timeout) {
                    HttpRead::Ok { body, .. } => {
                        let tree = ben_parse_strict(&body[..body.len().saturating_sub(2)]).map_err(|e| Violation::new("reply-malformed", e))?;
                        let n = match tree.get(b"files") {
                            Some(Ben::Dict(d)) => d.first().map(|(_, v)| match (v.get(b"complete"), v.get(b"incomplete")) {
                                (Some(Ben::Int(a)), Some(Ben::Int(b))) => (*a + *b) as usize,
                                _ => 0,
                            }).unwrap_or(0),
                            _ => 0,
                        };
                        Ok(n)
                    }
                    other => Err(Violation::new("no-reply", format!("scrape: {:?}", other))),
                }
            }
            T::Ws(_, cl) => {
                use aquatic_ws_protocol::common::*;
                use aquatic_ws_protocol::incoming::*;
                use aquatic_ws_protocol::outgoing::OutMessage;
                let m = InMessage::ScrapeRequest(ScrapeRequest { action: ScrapeAction::Scrape, info_hashes: Some(ScrapeRequestInfoHashes::Single(InfoHash(hsh))) });
                let text = match m.to_ws_message() {
                    tungstenite::Message::Text(t) => t.as_str().to_string(),
                    _ => String::new(),
                };
                cl.send_text(text).map_err(|e| Violation::new("inconclusive-send", e))?;
                match cl.recv(timeout) {
                    Ok(Some(m)) => match OutMessage::from_ws_message(m) {
                        Ok(OutMessage::ScrapeResponse(s)) => Ok(s.files.get(&InfoHash(hsh)).map(|f| f.complete + f.incomplete).unwrap_or(0)),
                        other => Err(Violation::new("wrong-reply", format!("{:?}", other))),
                    },
                    other => Err(Violation::new("no-reply", format!("scrape: {:?}", other.map(|_| ())))),
                }
            }
        }
    };
    let allowed_by = |listed: &BTreeSet<u8>, t: u8| if mode == AccessListMode::Allow { listed.contains(&t) } else { !listed.contains(&t) };
    let mut current: BTreeSet<u8> = BTreeSet::new();
    let mut stored: BTreeSet<u8> = BTreeSet::new(); // torrents with a stored peer of ours
    let mut port = 1000u16;
    // WS: one connection may announce one peer id per torrent; our announces vary the peer id by
    // port, so use a fresh port per torrent only once per connection for WS
    let ws = matches!(t, T::Ws(..));
    let mut ws_announced: BTreeSet<u8> = BTreeSet::new();
    for (round, (listed, kind)) in c.rounds.iter().enumerate() {
        let listed_set: BTreeSet<u8> = listed.iter().map(|x| x % 6).collect();
        let listed_vec: Vec<u8> = listed_set.iter().copied().collect();
        match kind % 3 {
            0 => {
                canary_listed = !canary_listed;
                write_list(&listed_vec, canary_listed, false);
                unsafe { libc::kill(libc::getpid(), libc::SIGUSR1) };
                // wait until the reload took effect: the canary's decision flips
                let want_canary_allowed = if mode == AccessListMode::Allow { canary_listed } else { !canary_listed };
                let deadline = Instant::now() + crate::e2e::reply_wait();
                loop {
                    port = port.wrapping_add(1).max(1000);
                    // the canary is announced from a connection of its own for WS (peer id rule)
                    let ok = if ws {
                        let tr_port = match &t { T::Ws(tr, _) => tr.port, _ => 0 };
                        let to: SocketAddr = (std::net::Ipv4Addr::LOCALHOST, tr_port).into();
                        let mut tmp = T::Ws(Tracker { port: tr_port, thread: None, _lease: lease_port().map_err(|e| Violation::new("inconclusive-io", e))? }, WsClient::connect(ip, to).map_err(|e| Violation::new("inconclusive-connect", e))?);
                        announce(&mut tmp, e2e_hash(CANARY), port)?
                    } else {
                        announce(&mut t, e2e_hash(CANARY), port)?
                    };
                    if ok == want_canary_allowed {
                        break;
                    }
                    if Instant::now() > deadline {
                        vfail!("reload-not-applied", "{} round {round}: 5 s after SIGUSR1 with a well-formed list the canary hash is still {}", c.tracker, if ok { "allowed" } else { "refused" });
                    }
                    std::thread::sleep(Duration::from_millis(10));
                }
                current = listed_set.clone();
                out.label("good-reload");
                // torrents that are now forbidden and hold peers must be removed by the next clean
                let newly_forbidden: Vec<u8> = stored.iter().copied().filter(|x| !allowed_by(&current, *x)).collect();
                for x in &newly_forbidden {
                    let deadline = Instant::now() + Duration::from_secs(6);
                    loop {
                        let n = scrape(&mut t, e2e_hash(*x))?;
                        if n == 0 {
                            break;
                        }
                        if Instant::now() > deadline {
                            vfail!("forbidden-torrent-not-cleaned", "{} round {round}: torrent {x} became forbidden but still holds {n} peers 6 s (6 cleaning intervals) after the reload", c.tracker);
                        }
                        std::thread::sleep(Duration::from_millis(50));
                    }
                    stored.remove(x);
                    out.label("forbidden-torrent-cleaned");
                    out.nontrivial = true;
                }
                // permitted torrents keep their peers across at least one cleaning pass
                if !newly_forbidden.is_empty() {
                    std::thread::sleep(Duration::from_millis(1100));
                }
                for x in stored.iter() {
                    let n = scrape(&mut t, e2e_hash(*x))?;
                    vensure!(n >= 1, "permitted-torrent-lost-peers", "{} round {round}: permitted torrent {x} lost its peers after the reload", c.tracker);
                }
            }
            k => {
                if k == 1 {
                    write_list(&listed_vec, canary_listed, true);
                    out.label("bad-reload");
                } else {
                    let _ = std::fs::remove_file(&path);
                    out.label("missing-file-reload");
                }
                unsafe { libc::kill(libc::getpid(), libc::SIGUSR1) };
                std::thread::sleep(Duration::from_millis(300));
                if !current.is_empty() || round > 0 {
                    out.nontrivial = true;
                }
            }
        }
        // decisions follow `current` for every torrent
        for x in 0..6u8 {
            if ws && ws_announced.contains(&x) && !allowed_by(&current, x) {
                // fine: a refused announce is answered by the socket worker before the peer id rule
            }
            port = port.wrapping_add(1).max(1000);
            let use_port = if ws { 1000 + x as u16 } else { port };
            let ok = announce(&mut t, e2e_hash(x), use_port)?;
            let want = allowed_by(&current, x);
            out.checks += 1;
            vensure!(
                ok == want,
                if want { "permitted-announce-refused" } else { "forbidden-announce-accepted" },
                "{} round {round} ({}): announce for torrent {x} was {}, the list in force ({:?}, mode {:?}) says {}",
                c.tracker,
                match kind % 3 { 0 => "after a good reload", 1 => "after a reload with a malformed line", _ => "after a reload of a missing file" },
                if ok { "accepted" } else { "refused" },
                current,
                mode,
                if want { "accept" } else { "refuse" }
            );
            if ok {
                stored.insert(x);
                ws_announced.insert(x);
            } else {
                // a refused announce creates no state
                if !stored.contains(&x) {
                    let n = scrape(&mut t, e2e_hash(x))?;
                    vensure!(n == 0, "refused-announce-created-state", "{} round {round}: refused announce for torrent {x} left {n} stored peers", c.tracker);
                }
            }
        }
    }
    out.label(&c.tracker);
    Ok(out)
}

fn e2e_cases(seed: u64, tier: Tier) -> Vec<E2eCase> {
    let mut v = Vec::new();
    let trackers = ["udp-mio", "udp-uring", "http", "ws"];
    for (i, tr) in trackers.iter().enumerate() {
        for mode in tier.pick(vec![1 + (i as u8 % 2)], vec![1u8, 2]) {
            let n = tier.pick(5, 12);
            let mut rounds = Vec::new();
            for r in 0..n {
                let x = derive_seed(seed, "C11", "e2e", (i * 100 + r) as u64 + mode as u64 * 1000);
                let listed: Vec<u8> = (0..6u8).filter(|t| (x >> t) & 1 == 1).collect();
                // first round good, second a bad line, third a missing file; then mixed
                let kind = if r <= 2 { r as u8 } else { ((x >> 8) % 4) as u8 % 3 };
                rounds.push((listed, kind));
            }
            rounds.push((vec![0, 1], 0));
            v.push(E2eCase { tracker: tr.to_string(), mode, rounds });
        }
    }
    v
}

pub fn run(ctx: &mut Ctx) {
    ctx.assume("list files are decorated with ASCII blanks/tabs/CR only (documented domain: newline-separated hex info hashes)");
    ctx.assume("at storage level, announces of forbidden hashes are withheld by the harness as the socket workers' gate does; the gate itself and SIGUSR1 handling are exercised end to end by the `e2e` sub-check");
    ctx.run_regress::<ReloadCase, _>("reload", prop_reload);
    let t = ctx.tier;
    ctx.run_prop("reload", t.pick(40_000, 600_000), reload_case, prop_reload);
    ctx.require_label("reload", "failed-after-good", 0.05);
    ctx.require_label("reload", "fault-after-first-line", 0.05);
    ctx.require_label("reload", "missing-file", 0.02);
    let up = GenParams { stop_w: 1, clean_w: 3, torrents: 4, max_ops: t.pick(50, 150), ips: 3, ports: 3, pids: 2, exports: false, access_list: true, max_ttl: 6 };
    ctx.run_prop("udp-storage", t.pick(60_000, 1_000_000), move || udpdrv::udp_case(up, false), prop_udp);
    let hp = HttpGen { stop_w: 1, clean_w: 3, torrents: 4, max_ops: t.pick(50, 150), ips: 3, ports: 3, access_list: true, max_ttl: 6 };
    ctx.run_prop("http-storage", t.pick(60_000, 1_000_000), move || httpdrv::http_case(hp), prop_http);
    let wp = WsGen { max_ops: t.pick(50, 120), pids: 3, offer_ids: 3, max_offers_in_req: 2, signalling_w: 1, access_list: true, time_w: 1 };
    ctx.run_prop("ws-storage", t.pick(60_000, 1_000_000), move || wsdrv::ws_case(wp), prop_ws);
    for sub in ["udp-storage", "http-storage", "ws-storage"] {
        ctx.require_label(sub, "access-list-swap", 0.2);
        ctx.require_label(sub, "forbidden-torrent-cleaned", 0.05);
    }
    // end to end: SIGUSR1 reloads; trackers one after the other (the signal reaches every
    // tracker of the process)
    ctx.confirm_runs = 2;
    ctx.run_regress::<E2eCase, _>("e2e", prop_e2e);
    let cases = e2e_cases(ctx.seed, t);
    let saved = ctx.threads;
    ctx.threads = 1;
    ctx.run_enum("e2e", cases, false, prop_e2e);
    ctx.threads = saved;
    ctx.confirm_runs = 0;
    for l in ["good-reload", "bad-reload", "forbidden-torrent-cleaned"] {
        ctx.require_label("e2e", l, 0.5);
    }
}

pub fn replay(path: &str, sub: &str, case: serde_json::Value) -> i32 {
    match sub {
        "udp-storage" => replay_one::<UdpCase, _>("C11", path, case, prop_udp),
        "http-storage" => replay_one::<HttpCase, _>("C11", path, case, prop_http),
        "ws-storage" => replay_one::<WsCase, _>("C11", path, case, prop_ws),
        "e2e" => replay_one::<E2eCase, _>("C11", path, case, prop_e2e),
        _ => replay_one::<ReloadCase, _>("C11", path, case, prop_reload),
    }
}
