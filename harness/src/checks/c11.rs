//! C11 — Access list is enforced on announce, on cleaning and across reloads (DESIGN.md §6 C11)

use std::collections::BTreeSet;
use std::io::Write;
use std::sync::Arc;

use aquatic_common::access_list::{
    create_access_list_cache, update_access_list, AccessListArcSwap, AccessListConfig, AccessListMode,
    AccessListQuery,
};
use proptest::prelude::*;
use serde::{Deserialize, Serialize};

use crate::engine::*;
use crate::httpdrv::{self, HttpCase, HttpGen};
use crate::models::{hash_for, Hash20};
use crate::udpdrv::{self, hex, thread_tmp_path, GenParams, UdpCase};
use crate::vensure;
use crate::wsdrv::{self, WsCase, WsGen};

pub const RULE: &str = "(reload) sequences of list files built from a known hash set with decorations (upper/lower/mixed-case hex, blank lines, leading/trailing blanks and tabs, CRLF, trailing newline or not) and faults (39/41-digit line, non-hex character, non-UTF-8 byte, missing file) at generated line positions, loaded through update_access_list in modes allow/deny/off; oracle = model A (parse whole file or keep the old set; decisions via AccessListArcSwap::allows and a cache created before the reload). (storage) histories of announce / swap-list / clean / scrape / observe on the UDP, HTTP and WS storage drivers in all three modes, where announces of currently forbidden hashes are withheld as the socket workers do, and the next clean must remove exactly the forbidden torrents and leave permitted ones untouched (compared with models S / W after every step). non-trivial = a failed reload after a good one, a fault at line position > 0, or a list swap that forbids a torrent holding peers followed by a clean; distinct = distinct serialised case";

#[derive(Debug, Clone, Serialize, Deserialize, PartialEq)]
pub enum Line {
    Hash { idx: u8, case_mode: u8, lead: String, trail: String },
    Blank(String),
    Short { idx: u8 },
    Long { idx: u8 },
    NonHex { idx: u8, pos: u8 },
    NonUtf8 { idx: u8 },
}

#[derive(Debug, Clone, Serialize, Deserialize, PartialEq)]
pub struct FileSpec {
    pub missing: bool,
    pub lines: Vec<Line>,
    pub crlf: bool,
    pub trailing_newline: bool,
}

#[derive(Debug, Clone, Serialize, Deserialize)]
pub struct ReloadCase {
    /// 0 off, 1 allow, 2 deny
    pub mode: u8,
    pub files: Vec<FileSpec>,
}

fn h(idx: u8) -> Hash20 {
    hash_for(idx, idx.wrapping_mul(37))
}

fn render(f: &FileSpec) -> (Vec<u8>, Option<BTreeSet<Hash20>>) {
    // returns bytes and the set the file denotes (None if the file is malformed)
    let mut bytes = Vec::new();
    let mut set = BTreeSet::new();
    let mut ok = true;
    let n = f.lines.len();
    for (i, l) in f.lines.iter().enumerate() {
        match l {
            Line::Hash { idx, case_mode, lead, trail } => {
                let hx = hex(&h(*idx));
                let hx: String = match case_mode % 3 {
                    0 => hx,
                    1 => hx.to_uppercase(),
                    _ => hx
                        .chars()
                        .enumerate()
                        .map(|(i, c)| if i % 2 == 0 { c.to_ascii_uppercase() } else { c })
                        .collect(),
                };
                bytes.extend_from_slice(lead.as_bytes());
                bytes.extend_from_slice(hx.as_bytes());
                bytes.extend_from_slice(trail.as_bytes());
                set.insert(h(*idx));
            }
            Line::Blank(ws) => bytes.extend_from_slice(ws.as_bytes()),
            Line::Short { idx } => {
                bytes.extend_from_slice(hex(&h(*idx))[..39].as_bytes());
                ok = false;
            }
            Line::Long { idx } => {
                bytes.extend_from_slice(hex(&h(*idx)).as_bytes());
                bytes.push(b'a');
                ok = false;
            }
            Line::NonHex { idx, pos } => {
                let mut s = hex(&h(*idx)).into_bytes();
                s[*pos as usize % 40] = b'g';
                bytes.extend_from_slice(&s);
                ok = false;
            }
            Line::NonUtf8 { idx } => {
                let mut s = hex(&h(*idx)).into_bytes();
                s[3] = 0xff;
                bytes.extend_from_slice(&s);
                ok = false;
            }
        }
        if i + 1 < n || f.trailing_newline {
            if f.crlf {
                bytes.push(b'\r');
            }
            bytes.push(b'\n');
        }
    }
    (bytes, if ok { Some(set) } else { None })
}

pub fn prop_reload(case: &ReloadCase) -> CaseResult {
    let mut out = Outcome::default();
    let path = thread_tmp_path("access-list.txt");
    let mode = match case.mode % 3 {
        0 => AccessListMode::Off,
        1 => AccessListMode::Allow,
        _ => AccessListMode::Deny,
    };
    let config = AccessListConfig { mode, path: path.clone() };
    let arc = Arc::new(AccessListArcSwap::default());
    let mut cache = create_access_list_cache(&arc);
    let mut current: BTreeSet<Hash20> = BTreeSet::new();
    let mut had_good = false;
    for (i, f) in case.files.iter().enumerate() {
        let _ = std::fs::remove_file(&path);
        let (bytes, denoted) = render(f);
        if !f.missing {
            let mut fh = std::fs::File::create(&path).expect("create list file");
            fh.write_all(&bytes).unwrap();
        }
        let result = update_access_list(&config, &arc);
        let expect_ok = mode == AccessListMode::Off || (!f.missing && denoted.is_some());
        out.checks += 1;
        vensure!(
            result.is_ok() == expect_ok,
            if expect_ok { "good-reload-failed" } else { "bad-reload-succeeded" },
            "reload {i} (mode {:?}, missing={}, file {:?}): update_access_list returned {:?}, expected {}",
            mode,
            f.missing,
            String::from_utf8_lossy(&bytes),
            result.as_ref().map(|_| ()).map_err(|e| e.to_string()),
            if expect_ok { "Ok" } else { "Err" }
        );
        if expect_ok && mode != AccessListMode::Off {
            current = denoted.unwrap();
            had_good = true;
        } else if !expect_ok {
            if had_good {
                out.label("failed-after-good");
                out.nontrivial = true;
            }
            if f
                .lines
                .iter()
                .position(|l| !matches!(l, Line::Hash { .. } | Line::Blank(_)))
                .map(|p| p > 0)
                .unwrap_or(false)
            {
                out.label("fault-after-first-line");
                out.nontrivial = true;
            }
            if f.missing {
                out.label("missing-file");
            }
        }
        // decisions follow the model, through the shared ArcSwap and through a cache
        // created before any reload (what every worker holds)
        for idx in 0..10u8 {
            let hsh = h(idx);
            let want = match mode {
                AccessListMode::Off => true,
                AccessListMode::Allow => current.contains(&hsh),
                AccessListMode::Deny => !current.contains(&hsh),
            };
            out.checks += 2;
            let got_arc = arc.allows(mode, &hsh);
            let got_cache = cache.load().allows(mode, &hsh);
            vensure!(
                got_arc == want && got_cache == want,
                "decision-differs",
                "after reload {i} ({}): hash {idx} allowed: shared list says {}, worker cache says {}, model says {} (mode {:?}, set {:?})",
                if expect_ok { "ok" } else { "failed" },
                got_arc,
                got_cache,
                want,
                mode,
                current.iter().map(|x| x[19]).collect::<Vec<_>>()
            );
        }
        if f.crlf {
            out.label("crlf");
        }
    }
    let _ = std::fs::remove_file(&path);
    Ok(out)
}

fn ws() -> impl Strategy<Value = String> {
    prop_oneof![3 => Just(String::new()), 1 => Just(" ".to_string()), 1 => Just("\t".to_string()), 1 => Just("  \t ".to_string())]
}

fn line(fault_w: u32) -> impl Strategy<Value = Line> {
    prop_oneof![
        12 => (0u8..8, 0u8..3, ws(), ws()).prop_map(|(idx, case_mode, lead, trail)| Line::Hash { idx, case_mode, lead, trail }),
        3 => ws().prop_map(Line::Blank),
        fault_w => (0u8..8).prop_map(|idx| Line::Short { idx }),
        fault_w => (0u8..8).prop_map(|idx| Line::Long { idx }),
        fault_w => (0u8..8, 0u8..40).prop_map(|(idx, pos)| Line::NonHex { idx, pos }),
        fault_w => (0u8..8).prop_map(|idx| Line::NonUtf8 { idx }),
    ]
}

fn file_spec() -> impl Strategy<Value = FileSpec> {
    prop_oneof![
        // good files
        5 => (proptest::collection::vec(line(0 + 1).prop_filter("good", |l| matches!(l, Line::Hash { .. } | Line::Blank(_))), 0..10), any::<bool>(), any::<bool>())
            .prop_map(|(lines, crlf, trailing_newline)| FileSpec { missing: false, lines, crlf, trailing_newline }),
        // possibly faulty files
        4 => (proptest::collection::vec(line(1), 0..10), any::<bool>(), any::<bool>())
            .prop_map(|(lines, crlf, trailing_newline)| FileSpec { missing: false, lines, crlf, trailing_newline }),
        1 => Just(FileSpec { missing: true, lines: vec![], crlf: false, trailing_newline: false }),
    ]
}

fn reload_case() -> impl Strategy<Value = ReloadCase> {
    (prop_oneof![1 => Just(0u8), 3 => Just(1u8), 3 => Just(2u8)], proptest::collection::vec(file_spec(), 1..6))
        .prop_map(|(mode, files)| ReloadCase { mode, files })
}

// ---- storage level -------------------------------------------------------------------------

fn nt_storage(o: &mut Outcome) {
    o.nontrivial = o.labels.iter().any(|l| l == "access-list-swap") && o.labels.iter().any(|l| l == "forbidden-torrent-cleaned");
}

pub fn prop_udp(case: &UdpCase) -> CaseResult {
    let mut o = udpdrv::run_udp_case(case, udpdrv::Oracles { access_list: true, ..Default::default() })?;
    nt_storage(&mut o);
    Ok(o)
}
pub fn prop_http(case: &HttpCase) -> CaseResult {
    let mut o = httpdrv::run_http_case(case, true)?;
    nt_storage(&mut o);
    Ok(o)
}
pub fn prop_ws(case: &WsCase) -> CaseResult {
    let mut o = wsdrv::run_ws_case(case, wsdrv::WsOracles { access_list: true, ..Default::default() })?;
    nt_storage(&mut o);
    Ok(o)
}

pub fn run(ctx: &mut Ctx) {
    ctx.assume("list files are decorated with ASCII blanks/tabs/CR only (documented domain: newline-separated hex info hashes)");
    ctx.assume("at storage level, announces of forbidden hashes are withheld by the harness as the socket workers' gate does; the gate itself and SIGUSR1 handling are exercised end to end by the `e2e` sub-check");
    ctx.run_regress::<ReloadCase, _>("reload", prop_reload);
    let t = ctx.tier;
    ctx.run_prop("reload", t.pick(40_000, 600_000), reload_case, prop_reload);
    ctx.require_label("reload", "failed-after-good", 0.05);
    ctx.require_label("reload", "fault-after-first-line", 0.05);
    ctx.require_label("reload", "missing-file", 0.02);
    let up = GenParams { stop_w: 1, clean_w: 3, torrents: 4, max_ops: t.pick(50, 150), ips: 3, ports: 3, pids: 2, exports: false, access_list: true, max_ttl: 6 };
    ctx.run_prop("udp-storage", t.pick(60_000, 1_000_000), move || udpdrv::udp_case(up, false), prop_udp);
    let hp = HttpGen { stop_w: 1, clean_w: 3, torrents: 4, max_ops: t.pick(50, 150), ips: 3, ports: 3, access_list: true, max_ttl: 6 };
    ctx.run_prop("http-storage", t.pick(60_000, 1_000_000), move || httpdrv::http_case(hp), prop_http);
    let wp = WsGen { max_ops: t.pick(50, 120), pids: 3, offer_ids: 3, max_offers_in_req: 2, signalling_w: 1, access_list: true, time_w: 1 };
    ctx.run_prop("ws-storage", t.pick(60_000, 1_000_000), move || wsdrv::ws_case(wp), prop_ws);
    for sub in ["udp-storage", "http-storage", "ws-storage"] {
        ctx.require_label(sub, "access-list-swap", 0.2);
        ctx.require_label(sub, "forbidden-torrent-cleaned", 0.05);
    }
}

pub fn replay(path: &str, sub: &str, case: serde_json::Value) -> i32 {
    match sub {
        "udp-storage" => replay_one::<UdpCase, _>("C11", path, case, prop_udp),
        "http-storage" => replay_one::<HttpCase, _>("C11", path, case, prop_http),
        "ws-storage" => replay_one::<WsCase, _>("C11", path, case, prop_ws),
        _ => replay_one::<ReloadCase, _>("C11", path, case, prop_reload),
    }
}
