//! Counting global allocator: bytes allocated by the current thread (DESIGN.md C12)

use std::alloc::{GlobalAlloc, Layout, System};
use std::cell::Cell;

pub struct Counting;

thread_local! {
    static ALLOCATED: Cell<u64> = const { Cell::new(0) };
    static PEAK_SINGLE: Cell<u64> = const { Cell::new(0) };
}

unsafe impl GlobalAlloc for Counting {
    unsafe fn alloc(&self, layout: Layout) -> *mut u8 {
        let _ = ALLOCATED.try_with(|a| a.set(a.get().wrapping_add(layout.size() as u64)));
        let _ = PEAK_SINGLE.try_with(|a| a.set(a.get().max(layout.size() as u64)));
        unsafe { System.alloc(layout) }
    }
    unsafe fn dealloc(&self, ptr: *mut u8, layout: Layout) {
        unsafe { System.dealloc(ptr, layout) }
    }
    unsafe fn alloc_zeroed(&self, layout: Layout) -> *mut u8 {
        let _ = ALLOCATED.try_with(|a| a.set(a.get().wrapping_add(layout.size() as u64)));
        let _ = PEAK_SINGLE.try_with(|a| a.set(a.get().max(layout.size() as u64)));
        unsafe { System.alloc_zeroed(layout) }
    }
    unsafe fn realloc(&self, ptr: *mut u8, layout: Layout, new_size: usize) -> *mut u8 {
        if new_size > layout.size() {
            let _ = ALLOCATED.try_with(|a| a.set(a.get().wrapping_add((new_size - layout.size()) as u64)));
            let _ = PEAK_SINGLE.try_with(|a| a.set(a.get().max(new_size as u64)));
        }
        unsafe { System.realloc(ptr, layout, new_size) }
    }
}

/// bytes allocated by this thread so far (monotonic)
pub fn allocated() -> u64 {
    ALLOCATED.with(|a| a.get())
}

/// run f and return (result, bytes this thread allocated during f, largest single request)
pub fn measure<R>(f: impl FnOnce() -> R) -> (R, u64, u64) {
    let before = allocated();
    PEAK_SINGLE.with(|p| p.set(0));
    let r = f();
    (r, allocated().wrapping_sub(before), PEAK_SINGLE.with(|p| p.get()))
}
