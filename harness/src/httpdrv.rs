//! Driver for aquatic_http's swarm storage (through the verif_api re-export) against model S.
//! Shared by C07, C10 (http part), C11 (http storage), C03 (storage layer).

use std::collections::{BTreeMap, BTreeSet};
use std::net::{IpAddr, SocketAddr};
use std::sync::Arc;

use aquatic_common::access_list::{AccessList, AccessListArcSwap, AccessListMode};
use aquatic_common::{CanonicalSocketAddr, SecondsSinceServerStart, ServerStartInstant, ValidUntil};
use aquatic_http::config::Config;
use aquatic_http::verif_api::TorrentMaps;
use aquatic_http_protocol::common::{AnnounceEvent, InfoHash, PeerId};
use aquatic_http_protocol::request::{AnnounceRequest, ScrapeRequest};
use proptest::prelude::*;
use rand::rngs::SmallRng;
use rand::SeedableRng;
use serde::{Deserialize, Serialize};

use crate::engine::{CaseResult, Outcome, Violation};
use crate::models::*;
use crate::udpdrv::{hex, port_of, src_ip, torrent_hash, NUM_TORRENTS};
use crate::{vensure, vfail};

const CAP: usize = 4; // documented inline capacity of the HTTP peer map

#[derive(Debug, Clone, Serialize, Deserialize, PartialEq)]
pub enum HttpOp {
    Announce {
        t: u8,
        fam: u8,
        ip: u8,
        port: u8,
        /// 0 empty, 1 completed, 2 started, 3 stopped
        event: u8,
        left: u64,
        numwant: Option<u64>,
        ttl: u32,
    },
    Scrape {
        fam: u8,
        hashes: Vec<u8>,
    },
    Clean {
        dt: u32,
    },
    Observe {
        t: u8,
        fam: u8,
    },
    SetAccessList {
        listed: Vec<u8>,
    },
}

#[derive(Debug, Clone, Serialize, Deserialize, PartialEq)]
pub struct HttpCase {
    pub max_peers: usize,
    pub max_scrape_torrents: usize,
    pub rng_seed: u64,
    pub access_mode: u8,
    pub ops: Vec<HttpOp>,
}

fn event_of(e: u8) -> AnnounceEvent {
    match e % 4 {
        0 => AnnounceEvent::Empty,
        1 => AnnounceEvent::Completed,
        2 => AnnounceEvent::Started,
        _ => AnnounceEvent::Stopped,
    }
}

pub struct HttpHarness {
    pub config: Config,
    pub observe_config: Config,
    pub maps: TorrentMaps,
    pub rng: SmallRng,
    pub access_list: Arc<AccessListArcSwap>,
    pub start: ServerStartInstant,
}

impl HttpHarness {
    pub fn new(case: &HttpCase) -> Self {
        let mut config = Config::default();
        config.protocol.max_peers = case.max_peers;
        config.protocol.max_scrape_torrents = case.max_scrape_torrents;
        config.access_list.mode = match case.access_mode % 3 {
            0 => AccessListMode::Off,
            1 => AccessListMode::Allow,
            _ => AccessListMode::Deny,
        };
        let mut observe_config = config.clone();
        observe_config.protocol.max_peers = 1_000_000;
        Self {
            config,
            observe_config,
            maps: TorrentMaps::new(0),
            rng: SmallRng::seed_from_u64(case.rng_seed),
            access_list: Arc::new(AccessListArcSwap::default()),
            start: ServerStartInstant::new(),
        }
    }

    pub fn observe(&mut self, hash: Hash20, is_v4: bool) -> Result<BTreeSet<PKey>, Violation> {
        let src: IpAddr = if is_v4 {
            "10.9.9.9".parse().unwrap()
        } else {
            "2001:db8::9:9:9".parse().unwrap()
        };
        let req = AnnounceRequest {
            info_hash: InfoHash(hash),
            peer_id: PeerId([0xEE; 20]),
            port: 9,
            bytes_uploaded: 0,
            bytes_downloaded: 0,
            bytes_left: 1,
            event: AnnounceEvent::Stopped,
            numwant: None,
            key: None,
        };
        let resp = self.maps.handle_announce_request(
            &self.observe_config,
            &mut self.rng,
            ValidUntil::new_raw(SecondsSinceServerStart::new_raw(0)),
            CanonicalSocketAddr::new(SocketAddr::new(src, 4444)),
            req,
        );
        let mut out = BTreeSet::new();
        if is_v4 {
            vensure!(resp.peers6.0.is_empty(), "peer-list-wrong-family", "observer (v4) got peers6");
            for p in resp.peers.0 {
                if !out.insert(PKey { ip: IpAddr::V4(p.ip_address), port: p.port }) {
                    vfail!("observe-duplicate", "observer saw a duplicate peer");
                }
            }
        } else {
            vensure!(resp.peers.0.is_empty(), "peer-list-wrong-family", "observer (v6) got v4 peers");
            for p in resp.peers6.0 {
                if !out.insert(PKey { ip: IpAddr::V6(p.ip_address), port: p.port }) {
                    vfail!("observe-duplicate", "observer saw a duplicate peer");
                }
            }
        }
        Ok(out)
    }
}

pub fn run_http_case(case: &HttpCase, with_access_list: bool) -> CaseResult {
    let mut out = Outcome::default();
    let mut h = HttpHarness::new(case);
    let mut model = SwarmModel::default();
    let mut now: u64 = 0;
    let mut large: BTreeMap<(bool, Hash20), bool> = BTreeMap::new();
    let mut listed: BTreeSet<Hash20> = BTreeSet::new();
    let mode = case.access_mode % 3;
    let allowed = |listed: &BTreeSet<Hash20>, hsh: &Hash20| match mode {
        0 => true,
        1 => listed.contains(hsh),
        _ => !listed.contains(hsh),
    };
    struct ClockGuard;
    impl Drop for ClockGuard {
        fn drop(&mut self) {
            aquatic_common::verif::set_mock_seconds(None);
        }
    }
    let _g = ClockGuard;

    for (step, op) in case.ops.iter().enumerate() {
        match op {
            HttpOp::Announce { t, fam, ip, port, event, left, numwant, ttl } => {
                let hash = torrent_hash(*t % NUM_TORRENTS);
                if with_access_list && !allowed(&listed, &hash) {
                    out.label("announce-forbidden-skipped");
                    continue;
                }
                let src = src_ip(*fam, *ip);
                let is_v4 = canonical_ip(src).is_ipv4();
                let stopped = *event % 4 == 3;
                let deadline = now + *ttl as u64;
                let left_usize = (*left).min(usize::MAX as u64) as usize;
                let req = AnnounceRequest {
                    info_hash: InfoHash(hash),
                    peer_id: PeerId(peer_id_for(*ip)),
                    port: port_of(*port),
                    bytes_uploaded: 0,
                    bytes_downloaded: 0,
                    bytes_left: left_usize,
                    event: event_of(*event),
                    numwant: numwant.map(|v| v.min(usize::MAX as u64) as usize),
                    key: None,
                };
                let exp = model.announce(hash, src, port_of(*port), stopped, left_usize == 0, deadline, peer_id_for(*ip));
                let resp = h.maps.handle_announce_request(
                    &h.config,
                    &mut h.rng,
                    ValidUntil::new_raw(SecondsSinceServerStart::new_raw(deadline as u32)),
                    CanonicalSocketAddr::new(SocketAddr::new(src, 50_000)),
                    req,
                );
                out.checks += 4;
                vensure!(
                    resp.announce_interval == h.config.protocol.peer_announce_interval,
                    "announce-interval",
                    "step {step}: interval {}",
                    resp.announce_interval
                );
                vensure!(
                    resp.complete == exp.seeders && resp.incomplete == exp.leechers,
                    "announce-counts",
                    "step {step}: complete/incomplete {}/{}, reference {}/{} (excluding announcer) for {:?}",
                    resp.complete,
                    resp.incomplete,
                    exp.seeders,
                    exp.leechers,
                    op
                );
                let (own, foreign): (Vec<PKey>, usize) = if is_v4 {
                    (resp.peers.0.iter().map(|p| PKey { ip: IpAddr::V4(p.ip_address), port: p.port }).collect(), resp.peers6.0.len())
                } else {
                    (resp.peers6.0.iter().map(|p| PKey { ip: IpAddr::V6(p.ip_address), port: p.port }).collect(), resp.peers.0.len())
                };
                vensure!(
                    foreign == 0,
                    "peer-list-wrong-family",
                    "step {step}: {foreign} peers in the other family's list"
                );
                let limit = match numwant {
                    None | Some(0) => case.max_peers,
                    Some(n) => ((*n).min(usize::MAX as u64) as usize).min(case.max_peers),
                };
                let requester = PKey { ip: canonical_ip(src), port: port_of(*port) };
                if let Err((kind, msg)) = check_peer_list(&own, &exp.others, Some(&requester), limit, false) {
                    return Err(Violation::new(&kind, format!("step {step}: {msg} ({:?})", op)));
                }
                let lk = (is_v4, hash);
                let is_large = large.get(&lk).copied().unwrap_or(false);
                let others = exp.others.len();
                if !is_large && others == CAP && !stopped {
                    large.insert(lk, true);
                    out.label("inline->heap");
                } else if is_large && stopped && others <= CAP {
                    large.insert(lk, false);
                    out.label("heap->inline-by-stop");
                }
                if let Some(prev) = exp.previous {
                    if stopped {
                        out.label("stop-existing");
                    } else {
                        out.label("reannounce");
                        if prev.seeder != (left_usize == 0) {
                            out.label("seeder-flag-flip");
                        }
                    }
                }
                if others > limit {
                    out.label("swarm>limit");
                }
                if others > 255 {
                    out.label("swarm>255");
                }
                if exp.seeders > 255 {
                    out.label("seeders>255");
                }
            }
            HttpOp::Scrape { fam, hashes } => {
                let src = src_ip(*fam, 0);
                let is_v4 = canonical_ip(src).is_ipv4();
                let req = ScrapeRequest {
                    info_hashes: hashes.iter().map(|t| InfoHash(torrent_hash(*t))).collect(),
                };
                let resp = h.maps.handle_scrape_request(
                    &h.config,
                    CanonicalSocketAddr::new(SocketAddr::new(src, 50_000)),
                    req,
                );
                let take = hashes.len().min(case.max_scrape_torrents);
                let mut want: BTreeMap<Hash20, (usize, usize)> = BTreeMap::new();
                for t in hashes.iter().take(take) {
                    let hsh = torrent_hash(*t);
                    want.insert(hsh, model.scrape(is_v4, &hsh));
                }
                let got: BTreeMap<Hash20, (usize, usize)> = resp
                    .files
                    .iter()
                    .map(|(k, v)| (k.0, (v.complete, v.incomplete)))
                    .collect();
                out.checks += 1;
                vensure!(
                    got == want,
                    "scrape-content",
                    "step {step}: scrape of torrents {:?} (limit {}) returned {:?}, reference {:?}",
                    hashes,
                    case.max_scrape_torrents,
                    got.iter().map(|(k, v)| (k[19], *v)).collect::<Vec<_>>(),
                    want.iter().map(|(k, v)| (k[19], *v)).collect::<Vec<_>>()
                );
                vensure!(
                    resp.files.values().all(|v| v.downloaded == 0),
                    "scrape-downloaded",
                    "step {step}: downloaded != 0"
                );
                if hashes.len() > case.max_scrape_torrents {
                    out.label("scrape>limit");
                }
                let distinct: BTreeSet<u8> = hashes.iter().copied().collect();
                if distinct.len() < hashes.len() {
                    out.label("scrape-repeated-hash");
                }
            }
            HttpOp::Clean { dt } => {
                now += *dt as u64;
                let before: Vec<usize> = (0..NUM_TORRENTS)
                    .flat_map(|t| [model.size(true, &torrent_hash(t)), model.size(false, &torrent_hash(t))])
                    .collect();
                let removed = model.clean(now);
                if with_access_list {
                    let n = model.torrents.len();
                    model.retain_torrents(|hsh| allowed(&listed, hsh));
                    if model.torrents.len() < n {
                        out.label("forbidden-torrent-cleaned");
                    }
                }
                aquatic_common::verif::set_mock_seconds(Some(now as u32));
                h.maps.clean(&h.config, &h.access_list, h.start);
                aquatic_common::verif::set_mock_seconds(None);
                let mut i = 0;
                for t in 0..NUM_TORRENTS {
                    for f in [true, false] {
                        let lk = (f, torrent_hash(t));
                        let after = model.size(f, &lk.1);
                        if large.get(&lk).copied().unwrap_or(false) && before[i] > CAP && after <= CAP {
                            large.insert(lk, false);
                            out.label("heap->inline-by-clean");
                        }
                        i += 1;
                    }
                }
                if !removed.is_empty() {
                    out.label("clean-expired-some");
                }
                if removed.iter().any(|(_, _, e)| e.deadline == now) {
                    out.label("clean-at-deadline");
                }
                if removed.iter().any(|(_, _, e)| e.deadline + 1 == now) {
                    out.label("clean-one-after-deadline");
                }
                if model.torrents.values().any(|t| t.values().any(|e| e.deadline == now + 1)) {
                    out.label("clean-one-before-deadline");
                }
                for (tk, _, _) in &removed {
                    let left = model.size(tk.0, &tk.1);
                    out.label(if large.get(tk).copied().unwrap_or(false) || left > 4 {
                        "expired-in-heap-map"
                    } else {
                        "expired-in-inline-map"
                    });
                }
                let got = h.maps.verif_num_torrents();
                let want = (model.totals(true).0, model.totals(false).0);
                out.checks += 1;
                vensure!(
                    got == want,
                    "torrent-count-after-clean",
                    "step {step}: after clean(now={now}) the worker stores (v4, v6) = {:?} torrents, reference has {:?} with peers",
                    got,
                    want
                );
            }
            HttpOp::Observe { t, fam } => {
                let hash = torrent_hash(*t % NUM_TORRENTS);
                let is_v4 = *fam % 2 == 0;
                let got = h.observe(hash, is_v4)?;
                let want = model.keys(is_v4, &hash);
                out.checks += 1;
                vensure!(
                    got == want,
                    "observe-set",
                    "step {step}: peers that can be handed out for torrent {t} = {:?}, reference {:?}",
                    got,
                    want
                );
                let lk = (is_v4, hash);
                if large.get(&lk).copied().unwrap_or(false) && want.len() <= CAP {
                    large.insert(lk, false);
                }
            }
            HttpOp::SetAccessList { listed: l } => {
                if with_access_list {
                    listed = l.iter().map(|t| torrent_hash(*t % NUM_TORRENTS)).collect();
                    let mut al = AccessList::default();
                    for hsh in &listed {
                        al.insert_from_line(&hex(hsh)).unwrap();
                    }
                    h.access_list.store(Arc::new(al));
                    out.label("access-list-swap");
                }
            }
        }
    }
    for t in 0..NUM_TORRENTS {
        for is_v4 in [true, false] {
            let hash = torrent_hash(t);
            let got = h.observe(hash, is_v4)?;
            let want = model.keys(is_v4, &hash);
            out.checks += 1;
            vensure!(
                got == want,
                "observe-set",
                "final: peers that can be handed out for torrent {t} ({}) = {:?}, reference {:?}",
                if is_v4 { "v4" } else { "v6" },
                got,
                want
            );
        }
    }
    Ok(out)
}

#[derive(Clone, Copy, Debug)]
pub struct HttpGen {
    /// per-case knobs (set by http_case): weight of `stopped`, weight of clean ops, torrents used
    pub stop_w: u32,
    pub clean_w: u32,
    pub torrents: u8,
    pub max_ops: usize,
    pub ips: u8,
    pub ports: u8,
    pub access_list: bool,
    pub max_ttl: u32,
}

pub fn http_op(p: HttpGen) -> BoxedStrategy<HttpOp> {
    let announce = (
        (0..p.torrents.clamp(1, NUM_TORRENTS), 0u8..3, 0..p.ips, 0..p.ports),
        prop_oneof![3 => Just(0u8), 1 => Just(1u8), 3 => Just(2u8), p.stop_w.max(1) => Just(3u8)],
        prop_oneof![4 => Just(0u64), 4 => Just(1u64), 1 => Just(u64::MAX), 1 => any::<u64>()],
        prop_oneof![
            3 => Just(None),
            2 => Just(Some(0u64)),
            1 => Just(Some(1u64)),
            1 => Just(Some(2u64)),
            1 => Just(Some(3u64)),
            1 => Just(Some(5u64)),
            1 => Just(Some(100u64)),
            1 => Just(Some(u64::MAX)),
            1 => any::<u64>().prop_map(Some)
        ],
        0..=p.max_ttl,
    )
        .prop_map(|((t, fam, ip, port), event, left, numwant, ttl)| HttpOp::Announce {
            t,
            fam,
            ip,
            port,
            event,
            left,
            numwant,
            ttl,
        });
    let scrape = (0u8..3, proptest::collection::vec(0u8..(NUM_TORRENTS + 2), 1..8))
        .prop_map(|(fam, hashes)| HttpOp::Scrape { fam, hashes });
    let clean = prop_oneof![3 => Just(0u32), 3 => Just(1u32), 2 => 2u32..6].prop_map(|dt| HttpOp::Clean { dt });
    let observe = (0..NUM_TORRENTS, 0u8..2).prop_map(|(t, fam)| HttpOp::Observe { t, fam });
    if p.access_list {
        let set = proptest::collection::vec(0..NUM_TORRENTS, 0..4).prop_map(|listed| HttpOp::SetAccessList { listed });
        prop_oneof![12 => announce, 2 => scrape, p.clean_w.max(1) => clean, 1 => observe, 2 => set].boxed()
    } else {
        prop_oneof![12 => announce, 2 => scrape, p.clean_w.max(1) => clean, 1 => observe].boxed()
    }
}

/// One torrent, hundreds to thousands of keys, long histories (see udpdrv::udp_big_swarm)
pub fn http_big_swarm(p: HttpGen) -> BoxedStrategy<HttpCase> {
    let q = HttpGen { torrents: 1, stop_w: 1, clean_w: 1, ..p };
    (
        prop_oneof![Just(1usize), Just(50usize), Just(100usize), Just(400usize)],
        prop_oneof![Just(1usize), Just(100usize)],
        any::<u64>(),
        proptest::collection::vec(http_op(q), p.max_ops / 2..p.max_ops),
    )
        .prop_map(|(max_peers, max_scrape_torrents, rng_seed, ops)| HttpCase { max_peers, max_scrape_torrents, rng_seed, access_mode: 0, ops })
        .boxed()
}

pub fn http_case(p: HttpGen) -> BoxedStrategy<HttpCase> {
    (
        prop_oneof![Just(1u8), Just(2u8), Just(p.ips.max(1))],
        prop_oneof![Just(1u8), Just(2u8), Just(3u8), Just(p.ports.max(1))],
        prop_oneof![Just(1u32), Just(3u32)],
        prop_oneof![Just(1u32), Just(3u32)],
        prop_oneof![Just(1u8), Just(2u8), Just(NUM_TORRENTS)],
    )
        .prop_flat_map(move |(ips, ports, stop_w, clean_w, torrents)| {
            let q = HttpGen { ips: ips.min(p.ips.max(1)), ports: ports.min(p.ports.max(1)), stop_w, clean_w, torrents, ..p };
            (
                prop_oneof![Just(0usize), Just(1usize), Just(2usize), Just(3usize), Just(5usize), Just(50usize), Just(100usize)],
                prop_oneof![Just(0usize), Just(1usize), Just(3usize), Just(100usize)],
                any::<u64>(),
                if p.access_list { 0u8..3 } else { 0u8..1 },
                proptest::collection::vec(http_op(q), 0..p.max_ops),
            )
        })
        .prop_map(|(max_peers, max_scrape_torrents, rng_seed, access_mode, ops)| HttpCase {
            max_peers,
            max_scrape_torrents,
            rng_seed,
            access_mode,
            ops,
        })
        .boxed()
}
