//! Entry functions through which every byte-level engine (proptest mutations, libFuzzer targets,
//! replayed corpus files) reaches the parsers. One call = one network input.

use std::io::Write;

pub const ENTRIES: [&str; 11] = [
    "udp_request",
    "udp_response",
    "http_request",
    "http_path",
    "http_response",
    "ws_in_text",
    "ws_in_binary",
    "ws_out",
    "peer_client",
    "access_list_file",
    "http_parse_request",
];

#[derive(Debug, Default, Clone)]
pub struct EntryOutcome {
    pub accepted: bool,
    /// accepted value re-serialised and re-parsed to an equal value (None = not applicable)
    pub roundtrip_equal: Option<bool>,
}

/// One-time initialisation (lazily compiled regular expressions, temp dir, allocator arenas) must
/// not be charged to the first measured input: run every entry once on a fixed valid input.
pub fn warm_up() {
    static ONCE: std::sync::Once = std::sync::Once::new();
    ONCE.call_once(|| {
        let _ = run_entry("peer_client", b"-TR2940-abcdefghijkl");
        let _ = run_entry("peer_client", b"M7-10-5--bcdefghijkl");
        let _ = run_entry("access_list_file", b"aaaaaaaaaaaaaaaaaaaaaaaaaaaaaaaaaaaaaaaa\n");
        let _ = run_entry("ws_in_text", br#"{"action":"scrape","info_hash":"aaaaaaaaaaaaaaaaaaaa"}"#);
        let _ = run_entry("ws_out", br#"{"failure reason":"x"}"#);
        let _ = run_entry("http_response", b"d14:failure reason1:xe");
        let _ = run_entry("http_parse_request", b"\x01GET /scrape?info_hash=aaaaaaaaaaaaaaaaaaaa HTTP/1.1\r\nX-Forwarded-For: 1.2.3.4\r\n\r\n");
        let _ = run_entry("udp_request", &[70u8; 40]);
        let _ = run_entry("udp_response", &[0u8; 40]);
    });
}

/// Run one input through the named entry. Panics propagate to the caller.
pub fn run_entry(entry: &str, data: &[u8]) -> EntryOutcome {
    let mut o = EntryOutcome::default();
    match entry {
        "udp_request" => {
            use aquatic_udp_protocol::Request;
            let max = data.first().copied().unwrap_or(70);
            let body = data.get(1..).unwrap_or(&[]);
            if let Ok(r) = Request::parse_bytes(body, max) {
                o.accepted = true;
                let mut w = Vec::new();
                let _ = r.write_bytes(&mut w);
                o.roundtrip_equal = Some(match &r {
                    Request::Scrape(s) if s.info_hashes.is_empty() => true,
                    _ => Request::parse_bytes(&w, u8::MAX).ok().as_ref() == Some(&r),
                });
            }
        }
        "udp_response" => {
            use aquatic_udp_protocol::Response;
            let ipv4 = data.first().copied().unwrap_or(0) % 2 == 0;
            let body = data.get(1..).unwrap_or(&[]);
            if let Ok(r) = Response::parse_bytes(body, ipv4) {
                o.accepted = true;
                let mut w = Vec::new();
                let _ = r.write_bytes(&mut w);
                let ipv4_again = !matches!(r, Response::AnnounceIpv6(_));
                o.roundtrip_equal = Some(Response::parse_bytes(&w, ipv4_again).ok().as_ref() == Some(&r));
            }
        }
        "http_request" => {
            use aquatic_http_protocol::request::Request;
            if let Ok(Some(r)) = Request::parse_bytes(data) {
                o.accepted = true;
                let mut w = Vec::new();
                let _ = r.write(&mut w, b"");
                o.roundtrip_equal = Some(matches!(Request::parse_bytes(&w), Ok(Some(ref r2)) if *r2 == r));
            }
        }
        "http_path" => {
            use aquatic_http_protocol::request::Request;
            if let Ok(s) = std::str::from_utf8(data) {
                if let Ok(r) = Request::parse_http_get_path(s) {
                    o.accepted = true;
                    let mut w = Vec::new();
                    let _ = r.write(&mut w, b"");
                    o.roundtrip_equal = Some(matches!(Request::parse_bytes(&w), Ok(Some(ref r2)) if *r2 == r));
                }
            }
        }
        "http_response" => {
            use aquatic_http_protocol::response::Response;
            if let Ok(r) = Response::parse_bytes(data) {
                o.accepted = true;
                let mut w = Vec::new();
                let _ = r.write_bytes(&mut w);
                let mut w2 = Vec::new();
                o.roundtrip_equal = Some(match Response::parse_bytes(&w) {
                    Ok(r2) => {
                        let _ = r2.write_bytes(&mut w2);
                        w == w2
                    }
                    Err(_) => false,
                });
            }
        }
        "ws_in_text" | "ws_in_binary" => {
            use aquatic_ws_protocol::incoming::InMessage;
            let msg = if entry == "ws_in_text" {
                match std::str::from_utf8(data) {
                    Ok(s) => tungstenite::Message::text(s.to_string()),
                    Err(_) => return o, // a text frame is valid UTF-8 by the time the tracker sees it
                }
            } else {
                tungstenite::Message::binary(data.to_vec())
            };
            if let Ok(m) = InMessage::from_ws_message(msg) {
                o.accepted = true;
                o.roundtrip_equal = Some(InMessage::from_ws_message(m.to_ws_message()).ok().as_ref() == Some(&m));
            }
        }
        "ws_out" => {
            use aquatic_ws_protocol::outgoing::OutMessage;
            let msg = match std::str::from_utf8(data) {
                Ok(s) if data.first().copied().unwrap_or(0) % 2 == 0 => tungstenite::Message::text(s.to_string()),
                _ => tungstenite::Message::binary(data.to_vec()),
            };
            if let Ok(m) = OutMessage::from_ws_message(msg) {
                o.accepted = true;
                o.roundtrip_equal = Some(OutMessage::from_ws_message(m.to_ws_message()).ok().as_ref() == Some(&m));
            }
        }
        "peer_client" => {
            let mut id = [0u8; 20];
            for (i, b) in data.iter().take(20).enumerate() {
                id[i] = *b;
            }
            let p = aquatic_peer_id::PeerId(id);
            let c = p.client();
            let _ = c.to_string();
            let _ = p.first_8_bytes_hex();
            o.accepted = true;
        }
        "access_list_file" => {
            let path = crate::udpdrv::thread_tmp_path("fuzz-access-list.txt");
            if let Ok(mut f) = std::fs::File::create(&path) {
                let _ = f.write_all(data);
            }
            o.accepted = aquatic_common::access_list::AccessList::create_from_path(&path).is_ok();
        }
        "http_parse_request" => {
            use aquatic_http::config::Config;
            let mut config = Config::default();
            config.network.runs_behind_reverse_proxy = data.first().copied().unwrap_or(0) % 2 == 1;
            let body = data.get(1..).unwrap_or(&[]);
            o.accepted = aquatic_http::verif_api::parse_request(&config, body).is_ok();
        }
        _ => panic!("unknown entry {entry}"),
    }
    o
}
