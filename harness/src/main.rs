mod alloc;
mod checks;
mod codecs;
mod e2e;
mod engine;
mod entries;
mod httpdrv;
mod models;
mod udpdrv;
mod wsdrv;

use engine::{Ctx, Tier};

#[global_allocator]
static GLOBAL: alloc::Counting = alloc::Counting;

fn usage() -> ! {
    eprintln!("usage: vcheck <Cxx> [--tier quick|thorough] [--seed N] [--replay FILE]");
    std::process::exit(2)
}

struct Entry {
    id: &'static str,
    level: &'static str,
    rule: &'static str,
    run: fn(&mut Ctx),
    replay: fn(&str, &str, serde_json::Value) -> i32,
}

macro_rules! entry {
    ($id:expr, $m:ident, $level:expr) => {
        Entry {
            id: $id,
            level: $level,
            rule: checks::$m::RULE,
            run: checks::$m::run,
            replay: checks::$m::replay,
        }
    };
}

fn table() -> Vec<Entry> {
    vec![
        entry!("C01", c01, "exploration"),
        entry!("C02", c02, "exploration"),
        entry!("C03", c03, "exploration"),
        entry!("C04", c04, "exploration"),
        entry!("C05", c05, "exploration"),
        entry!("C06", c06, "exploration"),
        entry!("C07", c07, "exploration"),
        entry!("C08", c08, "exploration"),
        entry!("C09", c09, "exploration"),
        entry!("C10", c10, "exploration"),
        entry!("C11", c11, "exploration"),
        entry!("C12", c12, "exploration"),
        entry!("C13", c13, "exploration"),
        entry!("C14", c14, "exploration"),
        entry!("C15", c15, "exploration"),
        entry!("C16", c16, "exploration"),
        entry!("C17", c17, "exploration"),
        entry!("C18", c18, "exploration"),
        entry!("C19", c19, "fault_enumeration"),
        entry!("C20", c20, "exploration"),
    ]
}

/// diagnostic: VCHECK_LOG=debug|trace prints the trackers' log records (they run in-process)
struct StderrLog;
impl log::Log for StderrLog {
    fn enabled(&self, _: &log::Metadata) -> bool {
        true
    }
    fn log(&self, r: &log::Record) {
        let t = std::thread::current();
        eprintln!("[{:?} {} {} {}] {}", std::time::SystemTime::now().duration_since(std::time::UNIX_EPOCH).map(|d| d.as_millis() % 1_000_000).unwrap_or(0), r.level(), t.name().unwrap_or("?"), r.target(), r.args());
    }
    fn flush(&self) {}
}
static STDERR_LOG: StderrLog = StderrLog;

fn main() {
    if let Ok(l) = std::env::var("VCHECK_LOG") {
        let _ = log::set_logger(&STDERR_LOG);
        log::set_max_level(match l.as_str() {
            "trace" => log::LevelFilter::Trace,
            "debug" => log::LevelFilter::Debug,
            _ => log::LevelFilter::Info,
        });
    }
    let args: Vec<String> = std::env::args().collect();
    if args.len() < 2 {
        usage();
    }
    let prop = args[1].clone();
    // internal sub-commands (child processes of fault-injection checks)
    if prop.starts_with("--") {
        std::process::exit(checks::child_main(&args[1..]));
    }
    let mut tier = Tier::Quick;
    let mut seed: u64 = std::env::var("VERIF_SEED")
        .ok()
        .and_then(|s| s.trim().parse::<i128>().ok())
        .map(|v| v as u64)
        .unwrap_or(0);
    let mut replay: Option<String> = None;
    let mut i = 2;
    while i < args.len() {
        match args[i].as_str() {
            "--tier" => {
                i += 1;
                tier = match args.get(i).map(|s| s.as_str()) {
                    Some("quick") => Tier::Quick,
                    Some("thorough") => Tier::Thorough,
                    _ => usage(),
                };
            }
            "--seed" => {
                i += 1;
                seed = args
                    .get(i)
                    .and_then(|s| s.parse().ok())
                    .unwrap_or_else(|| usage());
            }
            "--replay" => {
                i += 1;
                replay = Some(args.get(i).cloned().unwrap_or_else(|| usage()));
            }
            _ => usage(),
        }
        i += 1;
    }
    if let Ok(t) = std::env::var("VERIF_TIER") {
        match t.as_str() {
            "quick" => tier = Tier::Quick,
            "thorough" => tier = Tier::Thorough,
            _ => {}
        }
    }

    let table = table();
    let entry = match table.iter().find(|e| e.id == prop) {
        Some(e) => e,
        None => {
            eprintln!("unknown property {prop}");
            usage()
        }
    };

    if let Some(path) = replay {
        let (sub, case) = engine::load_replay(&path);
        std::process::exit((entry.replay)(&path, &sub, case));
    }

    let mut ctx = Ctx::new(entry.id, tier, seed);
    (entry.run)(&mut ctx);
    std::process::exit(ctx.finish(entry.level, entry.rule));
}
