mod checks;
mod engine;
mod models;
mod udpdrv;

use engine::{Ctx, Tier};

fn usage() -> ! {
    eprintln!("usage: vcheck <Cxx> [--tier quick|thorough] [--seed N] [--replay FILE]");
    std::process::exit(2)
}

fn main() {
    let args: Vec<String> = std::env::args().collect();
    if args.len() < 2 {
        usage();
    }
    let prop = args[1].clone();
    let mut tier = Tier::Quick;
    let mut seed: u64 = std::env::var("VERIF_SEED")
        .ok()
        .and_then(|s| s.trim().parse::<i128>().ok())
        .map(|v| v as u64)
        .unwrap_or(0);
    let mut replay: Option<String> = None;
    let mut i = 2;
    while i < args.len() {
        match args[i].as_str() {
            "--tier" => {
                i += 1;
                tier = match args.get(i).map(|s| s.as_str()) {
                    Some("quick") => Tier::Quick,
                    Some("thorough") => Tier::Thorough,
                    _ => usage(),
                };
            }
            "--seed" => {
                i += 1;
                seed = args.get(i).and_then(|s| s.parse().ok()).unwrap_or_else(|| usage());
            }
            "--replay" => {
                i += 1;
                replay = Some(args.get(i).cloned().unwrap_or_else(|| usage()));
            }
            _ => usage(),
        }
        i += 1;
    }
    if let Ok(t) = std::env::var("VERIF_TIER") {
        match t.as_str() {
            "quick" => tier = Tier::Quick,
            "thorough" => tier = Tier::Thorough,
            _ => {}
        }
    }

    if let Some(path) = replay {
        let (sub, case) = engine::load_replay(&path);
        let code = match prop.as_str() {
            "C01" => checks::c01::replay(&path, &sub, case),
            _ => usage(),
        };
        std::process::exit(code);
    }

    let code = match prop.as_str() {
        "C01" => {
            let mut ctx = Ctx::new("C01", tier, seed);
            checks::c01::run(&mut ctx);
            ctx.finish("exploration", checks::c01::RULE)
        }
        _ => usage(),
    };
    std::process::exit(code);
}
