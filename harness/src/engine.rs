//! Engine: seeded proptest runners, counting, evidence, replay files, known findings.
//!
//! See DESIGN.md §4.

use std::collections::{BTreeMap, HashSet};
use std::fmt::Debug;
use std::hash::{Hash, Hasher};
use std::panic::{catch_unwind, AssertUnwindSafe};
use std::path::PathBuf;
use std::sync::{Arc, Mutex};
use std::time::Instant;

use proptest::strategy::{Strategy, ValueTree};
use proptest::test_runner::{Config, RngAlgorithm, RngSeed, TestCaseError, TestError, TestRunner};
use serde::de::DeserializeOwned;
use serde::Serialize;
use serde_json::{json, Value};

/// Root for evidence/, replays/, regress/, known_findings.json. `VCHECK_DIR` overrides it (used
/// only by the mutant runner, which works on a scratch copy so that /verif's evidence stays
/// that of the real tree).
pub fn verif_dir() -> PathBuf {
    PathBuf::from(std::env::var("VCHECK_DIR").unwrap_or_else(|_| "/verif".to_string()))
}

#[derive(Clone, Copy, Debug, PartialEq, Eq)]
pub enum Tier {
    Quick,
    Thorough,
}

impl Tier {
    pub fn as_str(&self) -> &'static str {
        match self {
            Tier::Quick => "quick",
            Tier::Thorough => "thorough",
        }
    }
    /// pick by tier
    pub fn pick<T>(&self, quick: T, thorough: T) -> T {
        match self {
            Tier::Quick => quick,
            Tier::Thorough => thorough,
        }
    }
}

/// Result of executing one generated case against the oracle
#[derive(Debug, Default, Clone)]
pub struct Outcome {
    pub labels: Vec<String>,
    pub nontrivial: bool,
    /// number of individual oracle comparisons made (informational)
    pub checks: u64,
}

impl Outcome {
    pub fn label(&mut self, l: &str) {
        if !self.labels.iter().any(|x| x == l) {
            self.labels.push(l.to_string());
        }
    }
}

/// A violation of the property by the code under test
#[derive(Debug, Clone)]
pub struct Violation {
    /// stable machine-readable kind, matched against known-finding signatures
    pub kind: String,
    pub message: String,
}

impl Violation {
    pub fn new(kind: &str, message: impl Into<String>) -> Self {
        Self {
            kind: kind.to_string(),
            message: message.into(),
        }
    }
}

pub type CaseResult = Result<Outcome, Violation>;

#[macro_export]
macro_rules! vfail {
    ($kind:expr, $($arg:tt)*) => {
        return Err($crate::engine::Violation::new($kind, format!($($arg)*)))
    };
}

#[macro_export]
macro_rules! vensure {
    ($cond:expr, $kind:expr, $($arg:tt)*) => {
        if !($cond) {
            return Err($crate::engine::Violation::new($kind, format!($($arg)*)));
        }
    };
}

pub fn derive_seed(base: u64, property: &str, sub: &str, worker: u64) -> u64 {
    // FNV-1a over the identifying text, mixed with splitmix64
    let mut h: u64 = 0xcbf29ce484222325;
    for b in property
        .bytes()
        .chain([0u8])
        .chain(sub.bytes())
        .chain([0u8])
        .chain(worker.to_le_bytes())
        .chain(base.to_le_bytes())
    {
        h ^= b as u64;
        h = h.wrapping_mul(0x100000001b3);
    }
    let mut z = h.wrapping_add(0x9e3779b97f4a7c15);
    z = (z ^ (z >> 30)).wrapping_mul(0xbf58476d1ce4e5b9);
    z = (z ^ (z >> 27)).wrapping_mul(0x94d049bb133111eb);
    z ^ (z >> 31)
}

pub fn fingerprint<T: Serialize>(v: &T) -> u64 {
    let s = serde_json::to_vec(v).unwrap_or_default();
    let mut h = std::collections::hash_map::DefaultHasher::new();
    s.hash(&mut h);
    h.finish()
}

/// Silence panic messages for panics we catch on purpose. Installed once.
pub fn install_quiet_panic_hook() {
    static ONCE: std::sync::Once = std::sync::Once::new();
    ONCE.call_once(|| {
        let default = std::panic::take_hook();
        std::panic::set_hook(Box::new(move |info| {
            if QUIET.with(|q| q.get()) {
                let msg = if let Some(s) = info.payload().downcast_ref::<&str>() {
                    s.to_string()
                } else if let Some(s) = info.payload().downcast_ref::<String>() {
                    s.clone()
                } else {
                    "<non-string panic>".to_string()
                };
                let loc = info
                    .location()
                    .map(|l| format!("{}:{}", l.file(), l.line()))
                    .unwrap_or_default();
                LAST_PANIC.with(|p| *p.borrow_mut() = Some(format!("{} at {}", msg, loc)));
            } else {
                default(info);
            }
        }));
    });
}

thread_local! {
    static QUIET: std::cell::Cell<bool> = const { std::cell::Cell::new(false) };
    static LAST_PANIC: std::cell::RefCell<Option<String>> = const { std::cell::RefCell::new(None) };
}

/// Run `f`, converting a panic inside it into Err(description)
pub fn catch_panic<R>(f: impl FnOnce() -> R) -> Result<R, String> {
    install_quiet_panic_hook();
    let prev = QUIET.with(|q| q.replace(true));
    LAST_PANIC.with(|p| *p.borrow_mut() = None);
    let r = catch_unwind(AssertUnwindSafe(f));
    QUIET.with(|q| q.set(prev));
    match r {
        Ok(v) => Ok(v),
        Err(_) => Err(LAST_PANIC
            .with(|p| p.borrow_mut().take())
            .unwrap_or_else(|| "panic".to_string())),
    }
}

// ---------------------------------------------------------------------------
// Known findings
// ---------------------------------------------------------------------------

#[derive(Debug, Clone, serde::Deserialize)]
pub struct KnownFinding {
    pub id: String,
    pub property: String,
    pub status: String,
    #[serde(default)]
    pub commit: Option<String>,
    /// `<subcheck>/<violation kind>` this finding covers; a trailing `*` matches a prefix
    #[serde(default)]
    pub signature: Vec<String>,
    pub what: String,
}

#[derive(Debug, Clone, Default)]
pub struct KnownFindings {
    pub entries: Vec<KnownFinding>,
}

impl KnownFindings {
    pub fn load() -> Self {
        let p = verif_dir().join("known_findings.json");
        match std::fs::read_to_string(&p) {
            Ok(s) => {
                #[derive(serde::Deserialize)]
                struct F {
                    findings: Vec<KnownFinding>,
                }
                match serde_json::from_str::<F>(&s) {
                    Ok(f) => Self {
                        entries: f.findings,
                    },
                    Err(e) => {
                        eprintln!("cannot parse known_findings.json: {e}");
                        std::process::exit(2);
                    }
                }
            }
            Err(_) => Self::default(),
        }
    }

    /// Open finding covering this violation?
    pub fn matching(&self, property: &str, sub: &str, kind: &str) -> Option<&KnownFinding> {
        let key = format!("{sub}/{kind}");
        self.entries.iter().find(|e| {
            e.status == "open"
                && e.property == property
                && e.signature.iter().any(|s| {
                    if let Some(prefix) = s.strip_suffix('*') {
                        key.starts_with(prefix)
                    } else {
                        *s == key
                    }
                })
        })
    }
}

static NOTED_KNOWN: Mutex<BTreeMap<String, u64>> = Mutex::new(BTreeMap::new());

/// For checks that continue a case past a known finding: true (and counted) iff the finding
/// `id` is listed as open for `property` in known_findings.json.
pub fn tolerate_known(property: &str, id: &str) -> bool {
    static LOADED: std::sync::OnceLock<KnownFindings> = std::sync::OnceLock::new();
    let k = LOADED.get_or_init(KnownFindings::load);
    let open = k.entries.iter().any(|e| e.id == id && e.property == property && e.status == "open");
    if open {
        *NOTED_KNOWN.lock().unwrap().entry(id.to_string()).or_default() += 1;
    }
    open
}

// ---------------------------------------------------------------------------
// Sub-check report
// ---------------------------------------------------------------------------

#[derive(Debug, Clone, Default)]
pub struct SubReport {
    pub name: String,
    pub evaluations: u64,
    pub oracle_checks: u64,
    pub nontrivial: u64,
    pub fingerprints: HashSet<u64>,
    pub labels: BTreeMap<String, u64>,
    pub samples: Vec<Value>,
    pub exhaustive: bool,
    pub excluded_known: BTreeMap<String, u64>,
    pub failure: Option<Failure>,
    pub note: Option<String>,
    pub wall_s: f64,
}

#[derive(Debug, Clone)]
pub struct Failure {
    pub kind: String,
    pub message: String,
    pub case: Value,
}

struct Shared {
    evaluations: u64,
    oracle_checks: u64,
    nontrivial: u64,
    fingerprints: HashSet<u64>,
    labels: BTreeMap<String, u64>,
    samples: Vec<Value>,
    excluded_known: BTreeMap<String, u64>,
    counting: bool,
    inconclusive: Vec<String>,
}

const MAX_SAMPLES: usize = 4;
const MAX_SAMPLE_BYTES: usize = 6000;

pub struct Ctx {
    pub property: &'static str,
    pub tier: Tier,
    pub seed: u64,
    pub known: KnownFindings,
    pub threads: usize,
    pub start: Instant,
    pub reports: Vec<SubReport>,
    pub known_hits: BTreeMap<String, String>,
    pub assumptions: Vec<String>,
    pub inconclusive: Vec<String>,
    /// strict mode (replay): known findings are not tolerated inside cases
    pub strict: bool,
    /// for checks that touch wall-clock time (running trackers): a violation is re-run this
    /// many more times and reported only if every run fails; otherwise it is "undecided"
    pub confirm_runs: u32,
    /// violation kinds whose single observation is conclusive although the case may not fail
    /// again (free-running threads: an observed deadlock or non-linearizable history is real
    /// whether or not the same burst shows it a second time)
    pub decisive_kinds: Vec<&'static str>,
}

impl Ctx {
    pub fn new(property: &'static str, tier: Tier, seed: u64) -> Self {
        let threads = std::env::var("VERIF_THREADS")
            .ok()
            .and_then(|s| s.parse().ok())
            .unwrap_or_else(|| {
                std::thread::available_parallelism()
                    .map(|n| n.get())
                    .unwrap_or(4)
                    .min(16)
            });
        Self {
            property,
            tier,
            seed,
            known: KnownFindings::load(),
            threads,
            start: Instant::now(),
            reports: Vec::new(),
            known_hits: BTreeMap::new(),
            assumptions: Vec::new(),
            inconclusive: Vec::new(),
            strict: false,
            confirm_runs: 0,
            decisive_kinds: Vec::new(),
        }
    }

    pub fn assume(&mut self, s: &str) {
        self.assumptions.push(s.to_string());
    }

    /// Replay committed regression cases for a sub-check (files
    /// /verif/regress/<property>/<sub>-*.json). Returns a report.
    pub fn run_regress<T, F>(&mut self, sub: &str, f: F)
    where
        T: Serialize + DeserializeOwned + Debug + Clone,
        F: Fn(&T) -> CaseResult,
    {
        let dir = verif_dir().join("regress").join(self.property);
        let mut files: Vec<PathBuf> = match std::fs::read_dir(&dir) {
            Ok(rd) => rd
                .filter_map(|e| e.ok().map(|e| e.path()))
                .filter(|p| {
                    p.file_name()
                        .and_then(|n| n.to_str())
                        .map(|n| n.starts_with(&format!("{sub}-")) && n.ends_with(".json"))
                        .unwrap_or(false)
                })
                .collect(),
            Err(_) => return,
        };
        files.sort();
        if files.is_empty() {
            return;
        }
        let t0 = Instant::now();
        let mut rep = SubReport {
            name: format!("{sub}:regress"),
            ..Default::default()
        };
        for p in files {
            let v: Value = match std::fs::read_to_string(&p)
                .ok()
                .and_then(|s| serde_json::from_str(&s).ok())
            {
                Some(v) => v,
                None => {
                    self.inconclusive
                        .push(format!("unreadable regress file {}", p.display()));
                    continue;
                }
            };
            let case: T = match serde_json::from_value(v["case"].clone()) {
                Ok(c) => c,
                Err(e) => {
                    self.inconclusive
                        .push(format!("regress file {} does not parse: {e}", p.display()));
                    continue;
                }
            };
            rep.evaluations += 1;
            let r = match catch_panic(|| f(&case)) {
                Ok(r) => r,
                Err(p) => Err(Violation::new("panic", p)),
            };
            match r {
                Ok(o) => {
                    rep.oracle_checks += o.checks;
                    if o.nontrivial {
                        rep.nontrivial += 1;
                        rep.fingerprints.insert(fingerprint(&case));
                    }
                    for l in o.labels {
                        *rep.labels.entry(l).or_default() += 1;
                    }
                }
                Err(v) => {
                    if let Some(k) = self.known.matching(self.property, sub, &v.kind) {
                        *rep.excluded_known.entry(k.id.clone()).or_default() += 1;
                        self.known_hits.insert(k.id.clone(), k.what.clone());
                    } else if rep.failure.is_none() {
                        rep.failure = Some(Failure {
                            kind: v.kind,
                            message: format!("(regress {}) {}", p.display(), v.message),
                            case: serde_json::to_value(&case).unwrap_or(Value::Null),
                        });
                    }
                }
            }
        }
        rep.wall_s = t0.elapsed().as_secs_f64();
        self.reports.push(rep);
    }

    /// Run a generated sub-check with `cases` cases in total, spread over worker threads.
    pub fn run_prop<T, S, G, F>(&mut self, sub: &str, cases: u32, strategy: G, f: F)
    where
        T: Serialize + DeserializeOwned + Debug + Clone + Send + 'static,
        S: Strategy<Value = T>,
        G: Fn() -> S + Send + Sync + 'static,
        F: Fn(&T) -> CaseResult + Send + Sync + 'static,
    {
        let threads = self.threads.max(1).min(cases.max(1) as usize);
        self.run_prop_threads(sub, cases, threads, strategy, f)
    }

    pub fn run_prop_threads<T, S, G, F>(
        &mut self,
        sub: &str,
        cases: u32,
        threads: usize,
        strategy: G,
        f: F,
    ) where
        T: Serialize + DeserializeOwned + Debug + Clone + Send + 'static,
        S: Strategy<Value = T>,
        G: Fn() -> S + Send + Sync + 'static,
        F: Fn(&T) -> CaseResult + Send + Sync + 'static,
    {
        if self.violation_already_found(sub) {
            return;
        }
        install_quiet_panic_hook();
        let t0 = Instant::now();
        let per = (cases as usize).div_ceil(threads) as u32;
        let f = Arc::new(f);
        let strategy = Arc::new(strategy);
        let known = Arc::new(self.known.clone());
        let property = self.property;
        let strict = self.strict;
        let confirm_runs = self.confirm_runs;
        let mut handles = Vec::new();
        for w in 0..threads {
            let strategy = strategy.clone();
            let f = f.clone();
            let known = known.clone();
            let sub_s = sub.to_string();
            let seed = derive_seed(self.seed, property, sub, w as u64);
            let h = std::thread::Builder::new()
                .name(format!("vcheck-{sub}-{w}"))
                .stack_size(16 << 20)
                .spawn(move || {
                    let shared = Arc::new(Mutex::new(Shared {
                        evaluations: 0,
                        oracle_checks: 0,
                        nontrivial: 0,
                        fingerprints: HashSet::new(),
                        labels: BTreeMap::new(),
                        samples: Vec::new(),
                        excluded_known: BTreeMap::new(),
                        counting: true,
                        inconclusive: Vec::new(),
                    }));
                    let mut seed_bytes = [0u8; 32];
                    for (i, chunk) in seed_bytes.chunks_mut(8).enumerate() {
                        chunk.copy_from_slice(
                            &derive_seed(seed, "rng", "", i as u64).to_le_bytes(),
                        );
                    }
                    let _ = seed_bytes;
                    let config = Config {
                        cases: per,
                        failure_persistence: None,
                        rng_algorithm: RngAlgorithm::ChaCha,
                        rng_seed: RngSeed::Fixed(seed),
                        max_shrink_iters: 50_000,
                        // minimisation budget per worker (not a verdict: the unshrunk case already failed)
                        max_shrink_time: 120_000,
                        // prop_flat_map strategies re-generate their inner value whenever shrinking
                        // steps back (`complicate`), by default up to a million times per run -
                        // minutes of work after the shrinking budget has already run out
                        max_flat_map_regens: 2_000,
                        max_global_rejects: 100_000,
                        // rejections are counted over the whole run, so a rare filter would end a
                        // long run with 'too many local rejects'
                        max_local_rejects: u32::MAX,
                        ..Config::default()
                    };
                    let mut runner = TestRunner::new(config);
                    let last_violation: Arc<Mutex<Option<Violation>>> = Arc::new(Mutex::new(None));
                    let result = {
                        let shared = shared.clone();
                        let last_violation = last_violation.clone();
                        let sub_s = sub_s.clone();
                        let strategy = (strategy)();
                        runner.run(&strategy, move |case: T| {
                            let mut r = match catch_panic(|| f(&case)) {
                                Ok(r) => r,
                                Err(p) => Err(Violation::new("panic", p)),
                            };
                            // a wait that ran out (loaded machine): run the case again
                            let mut tries = 0;
                            while tries < confirm_runs && matches!(&r, Err(v) if v.kind.starts_with("inconclusive")) {
                                tries += 1;
                                r = match catch_panic(|| f(&case)) {
                                    Ok(Ok(mut o)) => {
                                        o.label("passed-on-retry");
                                        Ok(o)
                                    }
                                    Ok(Err(v)) => Err(v),
                                    Err(p) => Err(Violation::new("panic", p)),
                                };
                            }
                            let mut sh = shared.lock().unwrap();
                            match r {
                                Ok(o) => {
                                    if sh.counting {
                                        sh.evaluations += 1;
                                        sh.oracle_checks += o.checks;
                                        if o.nontrivial {
                                            sh.nontrivial += 1;
                                            let fp = fingerprint(&case);
                                            if sh.fingerprints.insert(fp)
                                                && sh.samples.len() < MAX_SAMPLES
                                            {
                                                if let Ok(v) = serde_json::to_value(&case) {
                                                    if v.to_string().len() <= MAX_SAMPLE_BYTES {
                                                        sh.samples.push(v);
                                                    }
                                                }
                                            }
                                        }
                                        for l in o.labels {
                                            *sh.labels.entry(l).or_default() += 1;
                                        }
                                    }
                                    Ok(())
                                }
                                Err(v) if v.kind.starts_with("inconclusive") => {
                                    sh.inconclusive.push(format!("{}: {}", v.kind, v.message));
                                    Ok(())
                                }
                                Err(v) => {
                                    if !strict {
                                        if let Some(k) = known.matching(property, &sub_s, &v.kind) {
                                            if sh.counting {
                                                sh.evaluations += 1;
                                                *sh.excluded_known
                                                    .entry(k.id.clone())
                                                    .or_default() += 1;
                                            }
                                            return Ok(());
                                        }
                                    }
                                    if sh.counting {
                                        sh.evaluations += 1;
                                    }
                                    sh.counting = false;
                                    *last_violation.lock().unwrap() = Some(v.clone());
                                    Err(TestCaseError::fail(format!(
                                        "{}: {}",
                                        v.kind, v.message
                                    )))
                                }
                            }
                        })
                    };
                    let failure = match result {
                        Ok(()) => None,
                        Err(TestError::Fail(_reason, value)) => {
                            // message of the last failing execution (kept for the case that the
                            // shrunk case does not fail again)
                            let v = last_violation.lock().unwrap().clone();
                            Some((v.unwrap_or_else(|| Violation::new("unknown", "")), value))
                        }
                        Err(TestError::Abort(reason)) => {
                            return (shared, None, Some(format!("aborted: {reason}")))
                        }
                    };
                    (shared, failure, None)
                })
                .expect("spawn worker");
            handles.push(h);
        }

        let mut rep = SubReport {
            name: sub.to_string(),
            ..Default::default()
        };
        let mut failures: Vec<(T, Violation)> = Vec::new();
        for h in handles {
            match h.join() {
                Ok((shared, failure, abort)) => {
                    let sh = Arc::try_unwrap(shared)
                        .map(|m| m.into_inner().unwrap())
                        .unwrap_or_else(|a| {
                            let g = a.lock().unwrap();
                            Shared {
                                evaluations: g.evaluations,
                                oracle_checks: g.oracle_checks,
                                nontrivial: g.nontrivial,
                                fingerprints: g.fingerprints.clone(),
                                labels: g.labels.clone(),
                                samples: g.samples.clone(),
                                excluded_known: g.excluded_known.clone(),
                                counting: g.counting,
                                inconclusive: g.inconclusive.clone(),
                            }
                        });
                    rep.evaluations += sh.evaluations;
                    rep.oracle_checks += sh.oracle_checks;
                    rep.nontrivial += sh.nontrivial;
                    rep.fingerprints.extend(sh.fingerprints);
                    for (k, v) in sh.labels {
                        *rep.labels.entry(k).or_default() += v;
                    }
                    for s in sh.samples {
                        if rep.samples.len() < MAX_SAMPLES {
                            rep.samples.push(s);
                        }
                    }
                    for (k, v) in sh.excluded_known {
                        *rep.excluded_known.entry(k).or_default() += v;
                    }
                    for i in sh.inconclusive.into_iter().take(3) {
                        self.inconclusive.push(format!("{sub}: {i}"));
                    }
                    if let Some((reason, value)) = failure {
                        failures.push((value, reason));
                    }
                    if let Some(a) = abort {
                        self.inconclusive.push(format!("{sub}: {a}"));
                    }
                }
                Err(_) => {
                    self.inconclusive
                        .push(format!("{sub}: worker thread panicked outside a case"));
                }
            }
        }
        for (id, _) in rep.excluded_known.iter() {
            if let Some(k) = self.known.entries.iter().find(|e| &e.id == id) {
                self.known_hits.insert(k.id.clone(), k.what.clone());
            }
        }
        // choose the smallest failing case and re-run it once for an exact message
        if !failures.is_empty() {
            failures.sort_by_key(|(c, _)| serde_json::to_vec(c).map(|v| v.len()).unwrap_or(usize::MAX));
            let (case, seen) = failures.remove(0);
            let strict_known = self.known.clone();
            // Re-run the minimal case. Deterministic checks: once. Checks against running
            // trackers (confirm_runs > 0): up to six times, because whether a defect shows can
            // depend on choices the harness does not own (which socket worker the kernel hands
            // a connection to); one more failure confirms the violation found during the
            // search, none at all makes it "undecided".
            let attempts = if self.confirm_runs > 0 { 6 } else { 1 };
            let mut r: CaseResult = Ok(Outcome::default());
            for _ in 0..attempts {
                let again = match catch_panic(|| (f)(&case)) {
                    Ok(r) => r,
                    Err(p) => Err(Violation::new("panic", p)),
                };
                match again {
                    Err(v) if !v.kind.starts_with("inconclusive") => {
                        r = Err(v);
                        break;
                    }
                    other => r = other,
                }
            }
            // a re-run that could not be judged (a wait ran out) confirms nothing
            if matches!(&r, Err(v) if v.kind.starts_with("inconclusive")) {
                r = Ok(Outcome::default());
            }
            match r {
                Err(v) if strict || strict_known.matching(property, sub, &v.kind).is_none() => {
                    rep.failure = Some(Failure {
                        kind: v.kind,
                        message: v.message,
                        case: serde_json::to_value(&case).unwrap_or(Value::Null),
                    });
                }
                Err(_) => {}
                Ok(_) if self.decisive_kinds.contains(&seen.kind.as_str())
                    && (strict || strict_known.matching(property, sub, &seen.kind).is_none()) =>
                {
                    // the observation made during the search stands on its own
                    rep.failure = Some(Failure {
                        kind: seen.kind,
                        message: format!("{} (seen once during the search; the same case passed when run again - the outcome depends on the thread schedule)", seen.message),
                        case: serde_json::to_value(&case).unwrap_or(Value::Null),
                    });
                }
                Ok(_) => {
                    // did not reproduce on re-run: not deterministic => inconclusive
                    let js = serde_json::to_string(&case).unwrap_or_default();
                    let m = format!("[{}] {}", seen.kind, seen.message);
                    self.inconclusive.push(format!(
                        "{sub}: shrunk failing case did not fail again when re-run; last failure seen: {}; case: {}",
                        &m[..m.len().min(1500)],
                        &js[..js.len().min(3000)]
                    ));
                }
            }
        }
        rep.wall_s = t0.elapsed().as_secs_f64();
        self.reports.push(rep);
    }

    /// Run an explicitly enumerated list of cases (possibly exhaustive) in parallel.
    pub fn run_enum<T, F>(&mut self, sub: &str, cases: Vec<T>, exhaustive: bool, f: F)
    where
        T: Serialize + DeserializeOwned + Debug + Clone + Send + Sync + 'static,
        F: Fn(&T) -> CaseResult + Send + Sync + 'static,
    {
        if self.violation_already_found(sub) {
            return;
        }
        install_quiet_panic_hook();
        let t0 = Instant::now();
        let threads = self.threads.max(1).min(cases.len().max(1));
        let cases = Arc::new(cases);
        let f = Arc::new(f);
        let next = Arc::new(std::sync::atomic::AtomicUsize::new(0));
        let stop = Arc::new(std::sync::atomic::AtomicBool::new(false));
        let mut handles = Vec::new();
        for w in 0..threads {
            let cases = cases.clone();
            let f = f.clone();
            let next = next.clone();
            let stop = stop.clone();
            handles.push(
                std::thread::Builder::new()
                    .name(format!("vcheck-{sub}-{w}"))
                    .stack_size(16 << 20)
                    .spawn(move || {
                        let mut out: Vec<(usize, CaseResult)> = Vec::new();
                        loop {
                            if stop.load(std::sync::atomic::Ordering::Relaxed) {
                                break;
                            }
                            let i = next.fetch_add(1, std::sync::atomic::Ordering::Relaxed);
                            if i >= cases.len() {
                                break;
                            }
                            let r = match catch_panic(|| f(&cases[i])) {
                                Ok(r) => r,
                                Err(p) => Err(Violation::new("panic", p)),
                            };
                            out.push((i, r));
                        }
                        out
                    })
                    .unwrap(),
            );
        }
        let mut rep = SubReport {
            name: sub.to_string(),
            exhaustive,
            ..Default::default()
        };
        let mut results: Vec<(usize, CaseResult)> = Vec::new();
        for h in handles {
            match h.join() {
                Ok(v) => results.extend(v),
                Err(_) => self
                    .inconclusive
                    .push(format!("{sub}: worker thread panicked")),
            }
        }
        results.sort_by_key(|(i, _)| *i);
        if results.len() != cases.len() {
            rep.exhaustive = false;
        }
        // timing-dependent checks: a violation counts only if every confirmation run fails too
        if self.confirm_runs > 0 {
            let mut confirmed_any = false;
            for (i, r) in results.iter_mut() {
                if confirmed_any {
                    // one confirmed violation decides the run: the other failing cases are not run
                    // again (against a broken tracker each re-run can take minutes)
                    if let Err(v) = r {
                        if !v.kind.starts_with("inconclusive") {
                            *r = Err(Violation::new("inconclusive-not-rerun", format!("[{}] not run again: another case of this sub-check was already confirmed", v.kind)));
                        }
                    }
                    continue;
                }
                if let Err(first) = r {
                    // Undecided outcomes (a wait that ran out on a loaded machine) are simply
                    // run again. A violation is run again up to four times: one more failure
                    // confirms it (defects may depend on kernel choices such as which socket
                    // worker gets a connection); if it never fails again the case passes and
                    // the retry is recorded.
                    let was_violation = !first.kind.starts_with("inconclusive");
                    let first = first.clone();
                    eprintln!("{sub}: case {i} first run: [{}] {} - running it again", first.kind, first.message);
                    let tries = if was_violation { 4 } else { self.confirm_runs };
                    let mut confirmed: Option<Violation> = None;
                    let mut last_ok: Option<Outcome> = None;
                    for _ in 0..tries {
                        let again = match catch_panic(|| f(&cases[*i])) {
                            Ok(r) => r,
                            Err(p) => Err(Violation::new("panic", p)),
                        };
                        match again {
                            Ok(mut o) => {
                                o.label("passed-on-retry");
                                last_ok = Some(o);
                                if !was_violation {
                                    break;
                                }
                            }
                            Err(v2) if !v2.kind.starts_with("inconclusive") => {
                                confirmed = Some(v2);
                                break;
                            }
                            Err(_) => {}
                        }
                    }
                    confirmed_any = confirmed.is_some();
                    *r = match (confirmed, last_ok) {
                        (Some(v), _) => Err(v),
                        (None, Some(o)) => Ok(o),
                        (None, None) => Err(if was_violation { Violation::new("inconclusive-not-reproducible", format!("[{}] {}", first.kind, first.message)) } else { first }),
                    };
                }
            }
        }
        for (i, r) in results {
            rep.evaluations += 1;
            match r {
                Ok(o) => {
                    rep.oracle_checks += o.checks;
                    if o.nontrivial {
                        rep.nontrivial += 1;
                        if rep.fingerprints.insert(fingerprint(&cases[i]))
                            && rep.samples.len() < MAX_SAMPLES
                        {
                            if let Ok(v) = serde_json::to_value(&cases[i]) {
                                if v.to_string().len() <= MAX_SAMPLE_BYTES {
                                    rep.samples.push(v);
                                }
                            }
                        }
                    }
                    for l in o.labels {
                        *rep.labels.entry(l).or_default() += 1;
                    }
                }
                Err(v) if v.kind.starts_with("inconclusive") => {
                    if self.inconclusive.len() < 5 {
                        self.inconclusive.push(format!("{sub}: {}: {}", v.kind, v.message));
                    }
                }
                Err(v) => {
                    if !self.strict {
                        if let Some(k) = self.known.matching(self.property, sub, &v.kind) {
                            *rep.excluded_known.entry(k.id.clone()).or_default() += 1;
                            self.known_hits.insert(k.id.clone(), k.what.clone());
                            continue;
                        }
                    }
                    if rep.failure.is_none() {
                        rep.failure = Some(Failure {
                            kind: v.kind,
                            message: v.message,
                            case: serde_json::to_value(&cases[i]).unwrap_or(Value::Null),
                        });
                    }
                }
            }
        }
        rep.wall_s = t0.elapsed().as_secs_f64();
        self.reports.push(rep);
    }

    /// Add a report assembled by hand (end-to-end checks)
    pub fn push_report(&mut self, rep: SubReport) {
        for (id, _) in rep.excluded_known.iter() {
            if let Some(k) = self.known.entries.iter().find(|e| &e.id == id) {
                self.known_hits.insert(k.id.clone(), k.what.clone());
            }
        }
        self.reports.push(rep);
    }

    /// Require that a label was seen in at least `min_fraction` of evaluations of a sub-check
    /// A violation decides the property: later generated sub-checks of the same run are skipped
    /// (their shrinking alone can take long) - the evidence then lists only what ran.
    fn violation_already_found(&self, sub: &str) -> bool {
        if let Some(r) = self.reports.iter().find(|r| r.failure.is_some()) {
            eprintln!("sub-check {sub} skipped: sub-check {} already reported a violation", r.name);
            true
        } else {
            false
        }
    }

    pub fn require_label(&mut self, sub: &str, label: &str, min_fraction: f64) {
        if let Some(r) = self.reports.iter().find(|r| r.name == sub) {
            if r.failure.is_some() {
                return;
            }
            let n = r.labels.get(label).copied().unwrap_or(0);
            if r.evaluations == 0 || (n as f64) < min_fraction * r.evaluations as f64 {
                self.inconclusive.push(format!(
                    "generator degenerated: sub-check {sub} label {label} seen {n} times in {} cases (floor {:.1}%)",
                    r.evaluations,
                    min_fraction * 100.0
                ));
            }
        }
    }

    /// Write evidence, print result lines, return process exit code
    pub fn finish(mut self, level: &str, rule: &str) -> i32 {
        let wall = self.start.elapsed().as_secs_f64();
        let mut noted = NOTED_KNOWN.lock().unwrap().clone();
        // aquatic_ws instances found stuck at start-up and replaced (known finding F17)
        let stuck = crate::e2e::WS_STUCK_STARTS.load(std::sync::atomic::Ordering::SeqCst);
        if stuck > 0 {
            if self.known.entries.iter().any(|e| e.id == "F17" && e.property == self.property && e.status == "open") {
                noted.insert("F17".to_string(), stuck);
            } else {
                self.assumptions.push(format!("{stuck} aquatic_ws instance(s) did not serve after start-up (known finding F17 of C17) and were replaced by fresh instances"));
            }
        }
        for (id, n) in noted.iter() {
            if let Some(k) = self.known.entries.iter().find(|e| &e.id == id) {
                self.known_hits.insert(k.id.clone(), format!("{} (tolerated {} times in this run)", k.what, n));
            }
        }
        let mut evaluations = 0u64;
        let mut distinct = 0u64;
        let mut samples: Vec<Value> = Vec::new();
        let mut subs = Vec::new();
        let mut violations = 0;
        let mut any_exhaustive = false;
        for r in &self.reports {
            evaluations += r.evaluations;
            distinct += r.fingerprints.len() as u64;
            any_exhaustive |= r.exhaustive;
            for s in &r.samples {
                if samples.len() < 8 {
                    samples.push(json!({"subcheck": r.name, "case": s}));
                }
            }
            subs.push(json!({
                "name": r.name,
                "evaluations": r.evaluations,
                "oracle_checks": r.oracle_checks,
                "nontrivial": r.nontrivial,
                "distinct_nontrivial": r.fingerprints.len(),
                "labels": r.labels,
                "exhaustive": r.exhaustive,
                "excluded_known": r.excluded_known,
                "note": r.note,
                "wall_s": (r.wall_s * 1000.0).round() / 1000.0,
            }));
            if r.failure.is_some() {
                violations += 1;
            }
        }
        if samples.is_empty() {
            // fall back: any sample at all, so evidence shows what cases look like
            samples.push(json!({"note": "no non-trivial sample small enough to print"}));
        }
        let evidence = json!({
            "property_id": self.property,
            "tier": self.tier.as_str(),
            "seed": self.seed,
            "level": level,
            "coverage": {
                "evaluations": evaluations,
                "distinct_nontrivial": distinct,
                "rule": rule,
                "samples": samples,
                "exhaustive": false,
                "exhaustive_subchecks": self.reports.iter().filter(|r| r.exhaustive).map(|r| r.name.clone()).collect::<Vec<_>>(),
                "subchecks": subs,
                "known_findings_hit": self.known_hits,
                "inconclusive": self.inconclusive,
            },
            "assumptions": self.assumptions,
            "wall_s": (wall * 1000.0).round() / 1000.0,
            "violations": violations,
        });
        let _ = any_exhaustive;
        let dir = verif_dir().join("evidence");
        let _ = std::fs::create_dir_all(&dir);
        let path = dir.join(format!("{}.json", self.property));
        if let Err(e) = std::fs::write(&path, serde_json::to_string_pretty(&evidence).unwrap()) {
            eprintln!("cannot write evidence {}: {e}", path.display());
            return 2;
        }

        for (id, what) in &self.known_hits {
            println!("KNOWN-FINDING: property={} {} {}", self.property, id, what);
        }

        let mut code = 0;
        for r in &self.reports {
            if let Some(fail) = &r.failure {
                let replay_dir = verif_dir().join("replays").join(self.property);
                let _ = std::fs::create_dir_all(&replay_dir);
                let fp = fingerprint(&fail.case);
                let sub_clean: String = r
                    .name
                    .chars()
                    .map(|c| if c.is_ascii_alphanumeric() { c } else { '_' })
                    .collect();
                let p = replay_dir.join(format!("{}-{:016x}.json", sub_clean, fp));
                let body = json!({
                    "property": self.property,
                    "subcheck": r.name.trim_end_matches(":regress"),
                    "kind": fail.kind,
                    "message": fail.message,
                    "case": fail.case,
                });
                let _ = std::fs::write(&p, serde_json::to_string_pretty(&body).unwrap());
                eprintln!(
                    "violation in {} / {}: [{}] {}",
                    self.property, r.name, fail.kind, fail.message
                );
                println!("VIOLATION property={} replay={}", self.property, p.display());
                code = 1;
            }
        }
        if code == 0 && !self.inconclusive.is_empty() {
            for i in &self.inconclusive {
                eprintln!("INCONCLUSIVE property={} {}", self.property, i);
            }
            code = 2;
        }
        let total_nt: u64 = self.reports.iter().map(|r| r.nontrivial).sum();
        eprintln!(
            "{} {} seed={} evaluations={} nontrivial={} distinct_nontrivial={} wall={:.1}s exit={}",
            self.property,
            self.tier.as_str(),
            self.seed,
            evaluations,
            total_nt,
            distinct,
            wall,
            code
        );
        code
    }
}

/// Replay helper: load `{subcheck, case}` from a replay file
pub fn load_replay(path: &str) -> (String, Value) {
    let s = std::fs::read_to_string(path).unwrap_or_else(|e| {
        eprintln!("cannot read replay file {path}: {e}");
        std::process::exit(2)
    });
    let v: Value = serde_json::from_str(&s).unwrap_or_else(|e| {
        eprintln!("cannot parse replay file {path}: {e}");
        std::process::exit(2)
    });
    (
        v["subcheck"].as_str().unwrap_or("").to_string(),
        v["case"].clone(),
    )
}

/// Run one replayed case strictly; prints and returns exit code
pub fn replay_one<T, F>(property: &str, path: &str, case: Value, f: F) -> i32
where
    T: DeserializeOwned + Debug,
    F: Fn(&T) -> CaseResult,
{
    let case: T = match serde_json::from_value(case) {
        Ok(c) => c,
        Err(e) => {
            eprintln!("replay case does not deserialize: {e}");
            return 2;
        }
    };
    let r = match catch_panic(|| f(&case)) {
        Ok(r) => r,
        Err(p) => Err(Violation::new("panic", p)),
    };
    match r {
        Ok(o) => {
            eprintln!("replay passed (labels {:?})", o.labels);
            0
        }
        Err(v) => {
            eprintln!("replay violation: [{}] {}", v.kind, v.message);
            println!("VIOLATION property={property} replay={path}");
            1
        }
    }
}

/// Generate one value from a strategy with a fixed seed (for hand-driven loops)
pub fn sample_strategy<S: Strategy>(strategy: &S, seed: u64) -> S::Value {
    let config = Config {
        failure_persistence: None,
        rng_algorithm: RngAlgorithm::ChaCha,
        rng_seed: RngSeed::Fixed(seed),
        ..Config::default()
    };
    let mut runner = TestRunner::new(config);
    strategy
        .new_tree(&mut runner)
        .expect("strategy produces a value")
        .current()
}
