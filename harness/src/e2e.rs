//! End-to-end infrastructure: port leases, in-process tracker launchers, loopback clients.
//! See DESIGN.md §4.4.

use std::fs::File;
use std::io::{Read, Write};
use std::net::{IpAddr, Ipv4Addr, Ipv6Addr, SocketAddr, SocketAddrV4, SocketAddrV6, TcpListener, TcpStream, UdpSocket};
use std::os::fd::AsRawFd;
use std::sync::atomic::{AtomicU32, Ordering};
use std::thread::JoinHandle;
use std::time::{Duration, Instant};

use crate::engine::verif_dir;

pub struct PortLease {
    pub port: u16,
    _file: File,
}

static NEXT: AtomicU32 = AtomicU32::new(0);

/// Lease a port nobody else (no other harness process, no other socket) is using:
/// flock on a per-port lock file + probe binds without SO_REUSEPORT.
/// How long a harness waits for a reply that must come. A reply that is due arrives in
/// milliseconds; the bound only matters when the machine is starved (then a short wait would turn
/// load into an undecided run) or when the reply is really missing (then the wait is the price of
/// reporting it). VCHECK_REPLY_WAIT_S overrides.
pub fn reply_wait() -> std::time::Duration {
    static W: std::sync::OnceLock<u64> = std::sync::OnceLock::new();
    std::time::Duration::from_secs(*W.get_or_init(|| std::env::var("VCHECK_REPLY_WAIT_S").ok().and_then(|s| s.parse().ok()).unwrap_or(20)))
}

pub fn lease_port() -> Result<PortLease, String> {
    let dir = verif_dir().join(".locks");
    let _ = std::fs::create_dir_all(&dir);
    let base = 20_000u32;
    let span = 30_000u32;
    let start = (std::process::id().wrapping_mul(2654435761)) % span;
    for _ in 0..2000 {
        let n = NEXT.fetch_add(1, Ordering::Relaxed);
        let port = (base + (start + n * 7) % span) as u16;
        let path = dir.join(format!("port-{port}"));
        let file = match File::create(&path) {
            Ok(f) => f,
            Err(_) => continue,
        };
        let rc = unsafe { libc::flock(file.as_raw_fd(), libc::LOCK_EX | libc::LOCK_NB) };
        if rc != 0 {
            continue;
        }
        // probe: nothing may hold the port on any family/protocol
        let free = UdpSocket::bind(("0.0.0.0", port)).is_ok()
            && UdpSocket::bind(("::", port)).is_ok()
            && TcpListener::bind(("0.0.0.0", port)).is_ok()
            && TcpListener::bind(("::", port)).is_ok();
        if free {
            return Ok(PortLease { port, _file: file });
        }
    }
    Err("no free port found".into())
}

pub struct Tracker {
    pub port: u16,
    pub thread: Option<JoinHandle<anyhow::Result<()>>>,
    pub _lease: PortLease,
}

impl Tracker {
    pub fn finished(&self) -> bool {
        self.thread.as_ref().map(|t| t.is_finished()).unwrap_or(true)
    }
    /// if run() has returned, its result as text
    pub fn result(&mut self) -> Option<String> {
        if self.finished() {
            self.thread.take().map(|t| match t.join() {
                Ok(Ok(())) => "run() returned Ok".to_string(),
                Ok(Err(e)) => format!("run() returned Err: {e:#}"),
                Err(_) => "run() panicked".to_string(),
            })
        } else {
            None
        }
    }
}

// ---------------------------------------------------------------------------
// UDP
// ---------------------------------------------------------------------------

#[derive(Clone, Copy, Debug, PartialEq, Eq, serde::Serialize, serde::Deserialize)]
pub enum SocketMode {
    /// IPv4 socket + IPv6-only socket (defaults)
    Both,
    V4Only,
    V6Only,
    /// only an IPv6 socket that also accepts IPv4 (sources appear IPv4-mapped)
    DualStackV6,
    /// an IPv4 socket on 127.0.0.1 *and* a dual-stack IPv6 socket on [::]: IPv4 hosts that
    /// address another local address (127.0.0.2) arrive at the IPv6 socket as IPv4-mapped sources
    SplitV4AndDualStackV6,
}

pub fn udp_config(port: u16, mode: SocketMode, uring: bool, socket_workers: usize) -> aquatic_udp::config::Config {
    let mut c = aquatic_udp::config::Config::default();
    c.socket_workers = socket_workers;
    c.network.address_ipv4 = SocketAddrV4::new(Ipv4Addr::LOCALHOST, port);
    c.network.address_ipv6 = SocketAddrV6::new(Ipv6Addr::LOCALHOST, port, 0, 0);
    c.network.use_io_uring = uring;
    c.network.socket_recv_buffer_size = 0;
    c.network.poll_timeout_ms = 5;
    match mode {
        SocketMode::Both => {}
        SocketMode::V4Only => c.network.use_ipv6 = false,
        SocketMode::V6Only => c.network.use_ipv4 = false,
        SocketMode::DualStackV6 => {
            c.network.use_ipv4 = false;
            c.network.set_only_ipv6 = false;
            c.network.address_ipv6 = SocketAddrV6::new(Ipv6Addr::UNSPECIFIED, port, 0, 0);
        }
        SocketMode::SplitV4AndDualStackV6 => {
            c.network.set_only_ipv6 = false;
            c.network.address_ipv6 = SocketAddrV6::new(Ipv6Addr::UNSPECIFIED, port, 0, 0);
        }
    }
    c
}

/// Start aquatic_udp in a thread; returns once it answers a connect request (or failed).
pub fn start_udp(make: impl FnOnce(u16) -> aquatic_udp::config::Config) -> Result<Tracker, String> {
    let lease = lease_port()?;
    let port = lease.port;
    let config = make(port);
    let v4 = config.network.use_ipv4 || !config.network.set_only_ipv6;
    let thread = std::thread::Builder::new()
        .name(format!("udp-tracker-{port}"))
        .spawn(move || aquatic_udp::run(config))
        .map_err(|e| e.to_string())?;
    let mut t = Tracker { port, thread: Some(thread), _lease: lease };
    // readiness: a connect request gets answered
    let target: SocketAddr = if v4 { (Ipv4Addr::LOCALHOST, port).into() } else { (Ipv6Addr::LOCALHOST, port).into() };
    let sock = if v4 { UdpSocket::bind("127.0.0.1:0") } else { UdpSocket::bind("[::1]:0") }.map_err(|e| e.to_string())?;
    sock.set_read_timeout(Some(Duration::from_millis(50))).ok();
    let start = Instant::now();
    let mut buf = [0u8; 64];
    loop {
        if let Some(r) = t.result() {
            return Err(format!("tracker exited during start-up: {r}"));
        }
        let mut req = Vec::new();
        req.extend_from_slice(&crate::codecs::BEP15_MAGIC.to_be_bytes());
        req.extend_from_slice(&0i32.to_be_bytes());
        req.extend_from_slice(&0x7eadbeefi32.to_be_bytes());
        let _ = sock.send_to(&req, target);
        if let Ok((n, _)) = sock.recv_from(&mut buf) {
            if n == 16 {
                return Ok(t);
            }
        }
        if start.elapsed() > Duration::from_secs(60) {
            return Err("tracker did not answer a connect request within 60 s".into());
        }
    }
}

pub struct UdpClient {
    pub sock: UdpSocket,
    pub local: SocketAddr,
    /// address the tracker is reached at from this client
    pub target: SocketAddr,
    /// canonical source IP as the tracker should see it
    pub canonical_ip: IpAddr,
}

impl UdpClient {
    /// `ip` = 127.0.0.x, ::1, or ::ffff:127.0.0.x (dual-stack socket sending IPv4)
    pub fn new(ip: IpAddr, tracker_port: u16) -> Result<Self, String> {
        let (sock, target): (UdpSocket, SocketAddr) = match ip {
            IpAddr::V4(a) => (UdpSocket::bind((a, 0)).map_err(|e| format!("bind {a}: {e}"))?, (Ipv4Addr::LOCALHOST, tracker_port).into()),
            IpAddr::V6(a) => {
                let s = socket2::Socket::new(socket2::Domain::IPV6, socket2::Type::DGRAM, Some(socket2::Protocol::UDP)).map_err(|e| e.to_string())?;
                if a.to_ipv4_mapped().is_some() {
                    s.set_only_v6(false).map_err(|e| e.to_string())?;
                    s.bind(&SocketAddr::new(ip, 0).into()).map_err(|e| format!("bind {a}: {e}"))?;
                    (s.into(), (Ipv4Addr::LOCALHOST.to_ipv6_mapped(), tracker_port).into())
                } else {
                    s.set_only_v6(true).ok();
                    s.bind(&SocketAddr::new(ip, 0).into()).map_err(|e| format!("bind {a}: {e}"))?;
                    (s.into(), (Ipv6Addr::LOCALHOST, tracker_port).into())
                }
            }
        };
        let local = sock.local_addr().map_err(|e| e.to_string())?;
        Ok(Self { sock, local, target, canonical_ip: crate::models::canonical_ip(ip) })
    }

    pub fn send(&self, bytes: &[u8]) -> Result<(), String> {
        self.sock.send_to(bytes, self.target).map(|_| ()).map_err(|e| e.to_string())
    }

    /// receive one datagram with timeout; None on timeout
    pub fn recv(&self, timeout: Duration) -> Option<(Vec<u8>, SocketAddr)> {
        self.sock.set_read_timeout(Some(timeout.max(Duration::from_micros(1)))).ok();
        let mut buf = vec![0u8; 65_536];
        match self.sock.recv_from(&mut buf) {
            Ok((n, from)) => {
                buf.truncate(n);
                Some((buf, from))
            }
            Err(_) => None,
        }
    }

    pub fn try_recv(&self) -> Option<(Vec<u8>, SocketAddr)> {
        self.sock.set_nonblocking(true).ok();
        let mut buf = vec![0u8; 65_536];
        let r = match self.sock.recv_from(&mut buf) {
            Ok((n, from)) => {
                buf.truncate(n);
                Some((buf, from))
            }
            Err(_) => None,
        };
        self.sock.set_nonblocking(false).ok();
        r
    }
}

// ---------------------------------------------------------------------------
// HTTP
// ---------------------------------------------------------------------------

pub fn start_http(make: impl FnOnce(u16) -> aquatic_http::config::Config) -> Result<Tracker, String> {
    let lease = lease_port()?;
    let port = lease.port;
    let config = make(port);
    let v4 = config.network.use_ipv4;
    let thread = std::thread::Builder::new()
        .name(format!("http-tracker-{port}"))
        .spawn(move || aquatic_http::run(config))
        .map_err(|e| e.to_string())?;
    let mut t = Tracker { port, thread: Some(thread), _lease: lease };
    let start = Instant::now();
    loop {
        if let Some(r) = t.result() {
            return Err(format!("tracker exited during start-up: {r}"));
        }
        let addr: SocketAddr = if v4 { (Ipv4Addr::LOCALHOST, port).into() } else { (Ipv6Addr::LOCALHOST, port).into() };
        if TcpStream::connect_timeout(&addr, Duration::from_millis(200)).is_ok() {
            // connection accepted by the kernel: listeners exist. Give workers a moment to join the mesh.
            std::thread::sleep(Duration::from_millis(100));
            return Ok(t);
        }
        if start.elapsed() > Duration::from_secs(60) {
            return Err("http tracker did not accept a connection within 60 s".into());
        }
        std::thread::sleep(Duration::from_millis(20));
    }
}

pub fn http_config(port: u16, socket_workers: usize, swarm_workers: usize) -> aquatic_http::config::Config {
    let mut c = aquatic_http::config::Config::default();
    c.socket_workers = socket_workers;
    c.swarm_workers = swarm_workers;
    c.network.address_ipv4 = SocketAddrV4::new(Ipv4Addr::LOCALHOST, port);
    c.network.address_ipv6 = SocketAddrV6::new(Ipv6Addr::LOCALHOST, port, 0, 0);
    c
}

#[derive(Debug)]
pub enum HttpRead {
    /// status line + headers + exactly content-length body bytes
    Ok { body: Vec<u8>, head: String },
    Eof,
    Malformed(String),
    Timeout,
}

pub struct HttpClient {
    pub stream: TcpStream,
    pub local: SocketAddr,
    pending: Vec<u8>,
}

impl HttpClient {
    pub fn connect(from: IpAddr, to: SocketAddr) -> Result<Self, String> {
        let domain = if to.is_ipv4() { socket2::Domain::IPV4 } else { socket2::Domain::IPV6 };
        let s = socket2::Socket::new(domain, socket2::Type::STREAM, Some(socket2::Protocol::TCP)).map_err(|e| e.to_string())?;
        if to.is_ipv6() {
            s.set_only_v6(false).ok();
        }
        s.bind(&SocketAddr::new(from, 0).into()).map_err(|e| format!("bind {from}: {e}"))?;
        s.connect_timeout(&to.into(), reply_wait()).map_err(|e| format!("connect {to}: {e}"))?;
        let stream: TcpStream = s.into();
        stream.set_nodelay(true).ok();
        let local = stream.local_addr().map_err(|e| e.to_string())?;
        Ok(Self { stream, local, pending: Vec::new() })
    }

    /// write the request in the given segments (separate TCP segments: nodelay + pause)
    pub fn send_segments(&mut self, segments: &[&[u8]]) -> Result<(), String> {
        for (i, s) in segments.iter().enumerate() {
            if s.is_empty() {
                continue;
            }
            self.stream.write_all(s).map_err(|e| e.to_string())?;
            self.stream.flush().ok();
            if i + 1 < segments.len() {
                std::thread::sleep(Duration::from_millis(2));
            }
        }
        Ok(())
    }

    /// Strict reader for one reply
    pub fn read_reply(&mut self, timeout: Duration) -> HttpRead {
        let deadline = Instant::now() + timeout;
        let mut buf = std::mem::take(&mut self.pending);
        let mut tmp = [0u8; 8192];
        let head_end;
        loop {
            if let Some(p) = find(&buf, b"\r\n\r\n") {
                head_end = p + 4;
                break;
            }
            let left = deadline.saturating_duration_since(Instant::now());
            if left.is_zero() {
                self.pending = buf;
                return HttpRead::Timeout;
            }
            self.stream.set_read_timeout(Some(left)).ok();
            match self.stream.read(&mut tmp) {
                Ok(0) => {
                    return if buf.is_empty() { HttpRead::Eof } else { HttpRead::Malformed(format!("EOF inside header after {} bytes", buf.len())) };
                }
                Ok(n) => buf.extend_from_slice(&tmp[..n]),
                Err(e) if matches!(e.kind(), std::io::ErrorKind::WouldBlock | std::io::ErrorKind::TimedOut) => {
                    self.pending = buf;
                    return HttpRead::Timeout;
                }
                Err(e) if e.kind() == std::io::ErrorKind::ConnectionReset => return if buf.is_empty() { HttpRead::Eof } else { HttpRead::Malformed("reset inside reply".into()) },
                Err(e) => return HttpRead::Malformed(format!("read error {e}")),
            }
        }
        let head = String::from_utf8_lossy(&buf[..head_end]).to_string();
        let mut lines = head.split("\r\n");
        let status = lines.next().unwrap_or("");
        if status != "HTTP/1.1 200 OK" {
            return HttpRead::Malformed(format!("status line {:?}", status));
        }
        let mut content_length: Option<usize> = None;
        for l in lines {
            if l.is_empty() {
                continue;
            }
            let (k, v) = match l.split_once(':') {
                Some(x) => x,
                None => return HttpRead::Malformed(format!("header line {:?}", l)),
            };
            if k.eq_ignore_ascii_case("content-length") {
                let v = v.trim_matches(|c| c == ' ' || c == '\t');
                match v.parse::<usize>() {
                    Ok(n) if v.bytes().all(|b| b.is_ascii_digit()) => content_length = Some(n),
                    _ => return HttpRead::Malformed(format!("Content-Length value {:?}", v)),
                }
            }
        }
        let cl = match content_length {
            Some(n) => n,
            None => return HttpRead::Malformed("no Content-Length".into()),
        };
        while buf.len() < head_end + cl {
            let left = deadline.saturating_duration_since(Instant::now());
            if left.is_zero() {
                return HttpRead::Malformed(format!("body shorter than Content-Length {cl}: got {}", buf.len() - head_end));
            }
            self.stream.set_read_timeout(Some(left)).ok();
            match self.stream.read(&mut tmp) {
                Ok(0) => return HttpRead::Malformed(format!("EOF after {} of {cl} body bytes", buf.len() - head_end)),
                Ok(n) => buf.extend_from_slice(&tmp[..n]),
                Err(_) => return HttpRead::Malformed(format!("body shorter than Content-Length {cl}: got {}", buf.len() - head_end)),
            }
        }
        let body = buf[head_end..head_end + cl].to_vec();
        self.pending = buf[head_end + cl..].to_vec();
        HttpRead::Ok { body, head }
    }

    /// bytes that arrived beyond the last complete reply (must be none before the next request)
    pub fn stray_bytes(&mut self) -> Vec<u8> {
        self.stream.set_nonblocking(true).ok();
        let mut tmp = [0u8; 4096];
        loop {
            match self.stream.read(&mut tmp) {
                Ok(0) => break,
                Ok(n) => self.pending.extend_from_slice(&tmp[..n]),
                Err(_) => break,
            }
        }
        self.stream.set_nonblocking(false).ok();
        self.pending.clone()
    }

    /// true if the peer has closed (EOF) within the timeout
    pub fn wait_eof(&mut self, timeout: Duration) -> bool {
        self.stream.set_read_timeout(Some(timeout)).ok();
        let mut tmp = [0u8; 64];
        matches!(self.stream.read(&mut tmp), Ok(0)) || matches!(self.stream.read(&mut tmp), Ok(0))
    }
}

pub fn find(hay: &[u8], needle: &[u8]) -> Option<usize> {
    hay.windows(needle.len()).position(|w| w == needle)
}

// ---------------------------------------------------------------------------
// WS
// ---------------------------------------------------------------------------

pub fn ws_config(port: u16, socket_workers: usize, swarm_workers: usize, v6: bool) -> aquatic_ws::config::Config {
    let mut c = aquatic_ws::config::Config::default();
    c.socket_workers = socket_workers;
    c.swarm_workers = swarm_workers;
    c.network.address = if v6 { (Ipv6Addr::UNSPECIFIED, port).into() } else { (Ipv4Addr::LOCALHOST, port).into() };
    c
}

/// Number of aquatic_ws instances that were found stuck at start-up in this process (known
/// finding F17: with several socket and swarm workers the channel-mesh join sometimes never
/// completes - listeners are open, but some worker never serves). Such an instance is left
/// alone and another one is started.
pub static WS_STUCK_STARTS: std::sync::atomic::AtomicU64 = std::sync::atomic::AtomicU64::new(0);

/// Every swarm worker answers (a scrape whose hashes map to all of them is merged from all
/// parts) on several fresh connections (which the kernel spreads over the socket workers).
fn ws_serves(addr: SocketAddr, socket_workers: usize, swarm_workers: usize) -> bool {
    let sw = swarm_workers.max(1);
    let hashes: Vec<String> = (0..sw)
        .map(|k| {
            let b = (0x30u8..0x7f).find(|b| (*b as usize) % sw == k && *b != b'"' && *b != b'\\').unwrap_or(b'0');
            format!("\"{}readinessprobe00000\"", b as char)
        })
        .collect();
    let scrape = format!("{{\"action\":\"scrape\",\"info_hash\":[{}]}}", hashes.join(","));
    let wait = Duration::from_secs(6);
    let from: IpAddr = if addr.is_ipv4() { Ipv4Addr::LOCALHOST.into() } else { Ipv6Addr::LOCALHOST.into() };
    for _ in 0..(5 * socket_workers + 3) {
        let mut c = match WsClient::connect_with(from, addr, wait) {
            Ok(c) => c,
            Err(_) => return false,
        };
        if c.send_text(scrape.clone()).is_err() {
            return false;
        }
        match c.recv(wait) {
            Ok(Some(_)) => {}
            _ => return false,
        }
    }
    true
}

pub fn start_ws(make: impl FnOnce(u16) -> aquatic_ws::config::Config) -> Result<Tracker, String> {
    let mut make = Some(make);
    let mut template: Option<aquatic_ws::config::Config> = None;
    for attempt in 0..4 {
        let lease = lease_port()?;
        let port = lease.port;
        let config = match (make.take(), &template) {
            (Some(m), _) => {
                let c = m(port);
                template = Some(c.clone());
                c
            }
            (None, Some(t)) => {
                let mut c = t.clone();
                c.network.address.set_port(port);
                c
            }
            (None, None) => unreachable!(),
        };
        let (so, sw) = (config.socket_workers, config.swarm_workers);
        let tls = config.network.enable_tls;
        let v4 = config.network.address.is_ipv4();
        let thread = std::thread::Builder::new()
            .name(format!("ws-tracker-{port}"))
            .spawn(move || aquatic_ws::run(config))
            .map_err(|e| e.to_string())?;
        let mut t = Tracker { port, thread: Some(thread), _lease: lease };
        let start = Instant::now();
        let addr: SocketAddr = if v4 { (Ipv4Addr::LOCALHOST, port).into() } else { (Ipv6Addr::LOCALHOST, port).into() };
        loop {
            if let Some(r) = t.result() {
                return Err(format!("tracker exited during start-up: {r}"));
            }
            if TcpStream::connect_timeout(&addr, Duration::from_millis(200)).is_ok() {
                break;
            }
            if start.elapsed() > Duration::from_secs(60) {
                return Err("ws tracker did not accept a connection within 60 s".into());
            }
            std::thread::sleep(Duration::from_millis(20));
        }
        if tls || std::env::var("VCHECK_WS_NO_READINESS").is_ok() && { std::thread::sleep(Duration::from_millis(150)); true } || ws_serves(addr, so, sw) {
            return Ok(t);
        }
        if let Some(r) = t.result() {
            return Err(format!("tracker exited during start-up: {r}"));
        }
        // stuck: its threads cannot be stopped from here; keep its port leased and start another
        WS_STUCK_STARTS.fetch_add(1, std::sync::atomic::Ordering::SeqCst);
        eprintln!("aquatic_ws instance on port {port} ({so} socket / {sw} swarm workers) accepts connections but does not serve (attempt {attempt}); starting another instance");
        std::mem::forget(t);
    }
    Err("four aquatic_ws instances in a row were stuck at start-up".into())
}

pub struct WsClient {
    pub ws: tungstenite::WebSocket<TcpStream>,
    pub local: SocketAddr,
}

impl WsClient {
    pub fn connect(from: IpAddr, to: SocketAddr) -> Result<Self, String> {
        Self::connect_with(from, to, reply_wait())
    }

    pub fn connect_with(from: IpAddr, to: SocketAddr, wait: Duration) -> Result<Self, String> {
        let domain = if to.is_ipv4() { socket2::Domain::IPV4 } else { socket2::Domain::IPV6 };
        let s = socket2::Socket::new(domain, socket2::Type::STREAM, Some(socket2::Protocol::TCP)).map_err(|e| e.to_string())?;
        if to.is_ipv6() {
            s.set_only_v6(false).ok();
        }
        s.bind(&SocketAddr::new(from, 0).into()).map_err(|e| format!("bind {from}: {e}"))?;
        s.connect_timeout(&to.into(), wait).map_err(|e| format!("connect {to}: {e}"))?;
        let stream: TcpStream = s.into();
        stream.set_nodelay(true).ok();
        stream.set_read_timeout(Some(wait)).ok();
        let local = stream.local_addr().map_err(|e| e.to_string())?;
        let url = format!("ws://{}/", to);
        let (ws, _) = tungstenite::client::client(url.as_str(), stream).map_err(|e| format!("ws handshake: {e}"))?;
        Ok(Self { ws, local })
    }

    pub fn send_text(&mut self, text: String) -> Result<(), String> {
        self.ws.send(tungstenite::Message::text(text)).map_err(|e| e.to_string())
    }

    /// Next text/binary message, or None on timeout; Err on close/reset
    pub fn recv(&mut self, timeout: Duration) -> Result<Option<tungstenite::Message>, String> {
        self.ws.get_ref().set_read_timeout(Some(timeout.max(Duration::from_millis(1)))).ok();
        loop {
            match self.ws.read() {
                Ok(m @ (tungstenite::Message::Text(_) | tungstenite::Message::Binary(_))) => return Ok(Some(m)),
                Ok(tungstenite::Message::Close(_)) => return Err("closed".into()),
                Ok(_) => continue,
                Err(tungstenite::Error::Io(e)) if matches!(e.kind(), std::io::ErrorKind::WouldBlock | std::io::ErrorKind::TimedOut) => return Ok(None),
                Err(e) => return Err(e.to_string()),
            }
        }
    }

    /// abrupt reset (SO_LINGER 0)
    pub fn reset(self) {
        let s = socket2::SockRef::from(self.ws.get_ref());
        let _ = s.set_linger(Some(Duration::from_secs(0)));
        drop(self);
    }
}
