//! Reference models written from the property text (DESIGN.md §5). They never call aquatic code.

use std::collections::{BTreeMap, BTreeSet};
use std::net::{IpAddr, Ipv4Addr, Ipv6Addr};

pub type Hash20 = [u8; 20];

/// canonical (never IPv4-mapped) IP + announced port
#[derive(Clone, Copy, Debug, PartialEq, Eq, Hash, PartialOrd, Ord, serde::Serialize)]
pub struct PKey {
    pub ip: IpAddr,
    pub port: u16,
}

#[derive(Clone, Copy, Debug, PartialEq, Eq)]
pub struct SEntry {
    pub seeder: bool,
    pub deadline: u64,
    pub peer_id: Hash20,
}

/// Independent canonicalisation: IPv4-mapped IPv6 -> IPv4 (std's own implementation)
pub fn canonical_ip(ip: IpAddr) -> IpAddr {
    match ip {
        IpAddr::V4(_) => ip,
        IpAddr::V6(v6) => match v6.to_ipv4_mapped() {
            Some(v4) => IpAddr::V4(v4),
            None => ip,
        },
    }
}

#[derive(Clone, Debug, Default)]
pub struct AnnounceExpect {
    pub seeders: usize,
    pub leechers: usize,
    pub others: BTreeSet<PKey>,
    /// entry of this key before the announce (if any)
    pub previous: Option<SEntry>,
}

/// Swarm model S for UDP and HTTP: one entry per (family, info hash, (ip, port))
#[derive(Clone, Debug, Default)]
pub struct SwarmModel {
    /// key: (is_ipv4, info_hash)
    pub torrents: BTreeMap<(bool, Hash20), BTreeMap<PKey, SEntry>>,
}

impl SwarmModel {
    pub fn announce(
        &mut self,
        info_hash: Hash20,
        src_ip: IpAddr,
        port: u16,
        stopped: bool,
        seeder: bool,
        deadline: u64,
        peer_id: Hash20,
    ) -> AnnounceExpect {
        let ip = canonical_ip(src_ip);
        let key = PKey { ip, port };
        let fam = ip.is_ipv4();
        let t = self.torrents.entry((fam, info_hash)).or_default();
        let previous = t.remove(&key);
        let seeders = t.values().filter(|e| e.seeder).count();
        let leechers = t.len() - seeders;
        let others = t.keys().copied().collect();
        if !stopped {
            t.insert(
                key,
                SEntry {
                    seeder,
                    deadline,
                    peer_id,
                },
            );
        }
        if t.is_empty() {
            self.torrents.remove(&(fam, info_hash));
        }
        AnnounceExpect {
            seeders,
            leechers,
            others,
            previous,
        }
    }

    pub fn scrape(&self, is_ipv4: bool, info_hash: &Hash20) -> (usize, usize) {
        match self.torrents.get(&(is_ipv4, *info_hash)) {
            Some(t) => {
                let s = t.values().filter(|e| e.seeder).count();
                (s, t.len() - s)
            }
            None => (0, 0),
        }
    }

    pub fn keys(&self, is_ipv4: bool, info_hash: &Hash20) -> BTreeSet<PKey> {
        self.torrents
            .get(&(is_ipv4, *info_hash))
            .map(|t| t.keys().copied().collect())
            .unwrap_or_default()
    }

    pub fn size(&self, is_ipv4: bool, info_hash: &Hash20) -> usize {
        self.torrents
            .get(&(is_ipv4, *info_hash))
            .map(|t| t.len())
            .unwrap_or(0)
    }

    /// Drop entries whose deadline has been reached; returns removed entries
    pub fn clean(&mut self, now: u64) -> Vec<((bool, Hash20), PKey, SEntry)> {
        let mut removed = Vec::new();
        for (tk, t) in self.torrents.iter_mut() {
            let dead: Vec<PKey> = t
                .iter()
                .filter(|(_, e)| e.deadline <= now)
                .map(|(k, _)| *k)
                .collect();
            for k in dead {
                let e = t.remove(&k).unwrap();
                removed.push((*tk, k, e));
            }
        }
        self.torrents.retain(|_, t| !t.is_empty());
        removed
    }

    /// Remove torrents by predicate (access list)
    pub fn retain_torrents(&mut self, mut allowed: impl FnMut(&Hash20) -> bool) {
        self.torrents.retain(|(_, h), _| allowed(h));
    }

    /// (number of torrents with >= 1 entry, number of entries) for a family
    pub fn totals(&self, is_ipv4: bool) -> (usize, usize) {
        let mut t = 0;
        let mut p = 0;
        for ((f, _), m) in self.torrents.iter() {
            if *f == is_ipv4 && !m.is_empty() {
                t += 1;
                p += m.len();
            }
        }
        (t, p)
    }
}

/// The C02 rule for a returned peer list. `others` = stored members other than the requester.
/// `exact_when_over`: WebTorrent (exactly limit) vs UDP/HTTP (at least limit-1).
pub fn check_peer_list<K: Ord + Copy + std::fmt::Debug>(
    returned: &[K],
    others: &BTreeSet<K>,
    requester: Option<&K>,
    limit: usize,
    exact_when_over: bool,
) -> Result<(), (String, String)> {
    let set: BTreeSet<K> = returned.iter().copied().collect();
    if set.len() != returned.len() {
        return Err((
            "peer-list-duplicate".into(),
            format!("duplicate peer in returned list {:?}", returned),
        ));
    }
    if let Some(r) = requester {
        if set.contains(r) {
            return Err((
                "peer-list-contains-requester".into(),
                format!("requester {:?} in returned list {:?}", r, returned),
            ));
        }
    }
    for k in &set {
        if !others.contains(k) {
            return Err((
                "peer-list-unsound".into(),
                format!(
                    "returned peer {:?} is not a stored member of this torrent and family (stored others: {:?})",
                    k, others
                ),
            ));
        }
    }
    if returned.len() > limit {
        return Err((
            "peer-list-over-limit".into(),
            format!("{} peers returned, limit {}", returned.len(), limit),
        ));
    }
    if others.len() <= limit {
        if set.len() != others.len() {
            return Err((
                "peer-list-incomplete".into(),
                format!(
                    "torrent holds {} other members <= limit {}, but only {} returned: {:?} vs {:?}",
                    others.len(),
                    limit,
                    set.len(),
                    returned,
                    others
                ),
            ));
        }
    } else if exact_when_over {
        if returned.len() != limit {
            return Err((
                "peer-list-too-few".into(),
                format!(
                    "{} others > limit {}, {} returned (exactly limit required)",
                    others.len(),
                    limit,
                    returned.len()
                ),
            ));
        }
    } else if returned.len() + 1 < limit {
        return Err((
            "peer-list-too-few".into(),
            format!(
                "{} others > limit {}, only {} returned (at least limit-1 required)",
                others.len(),
                limit,
                returned.len()
            ),
        ));
    }
    Ok(())
}

pub fn hash_for(index: u8, first_byte: u8) -> Hash20 {
    let mut h = [0u8; 20];
    h[0] = first_byte;
    for (i, b) in h.iter_mut().enumerate().skip(1) {
        *b = index.wrapping_mul(31).wrapping_add(i as u8 * 7).wrapping_add(0x5a);
    }
    h[19] = index;
    h
}

pub fn v4(n: u8) -> IpAddr {
    IpAddr::V4(Ipv4Addr::new(10, 0, (n / 250) + 1, (n % 250) + 1))
}

pub fn v6(n: u8) -> IpAddr {
    IpAddr::V6(Ipv6Addr::new(0x2001, 0xdb8, 0, 0, 0, 0, 0x100, n as u16 + 1))
}

pub fn v4_mapped(n: u8) -> IpAddr {
    match v4(n) {
        IpAddr::V4(a) => IpAddr::V6(a.to_ipv6_mapped()),
        x => x,
    }
}

pub fn peer_id_for(index: u8) -> Hash20 {
    // neighbouring indices (0,1), (2,3), .. share the 8-byte client prefix and differ only in the
    // random tail (a client that rotates its id); other pairs are different clients
    let prefixes: [&[u8; 8]; 6] = [
        b"-TR2940-", b"-qB4250-", b"-UT355W-", b"-DE13F0-", b"-lt0D60-", b"M7-10-5-",
    ];
    let mut id = [0u8; 20];
    id[..8].copy_from_slice(prefixes[(index as usize / 2) % prefixes.len()]);
    for (i, b) in id.iter_mut().enumerate().skip(8) {
        *b = b'a' + ((index as usize + i) % 26) as u8;
    }
    id[19] = index;
    id
}
