//! Driver for aquatic_udp::swarm::TorrentMaps against the swarm model S.
//! Shared by C01, C03 (storage layer), C10 (udp part), C11 (udp storage), C20 (histories).

use std::collections::{BTreeMap, BTreeSet};
use std::net::{IpAddr, SocketAddr};
use std::num::NonZeroU16;
use std::path::PathBuf;
use std::sync::atomic::Ordering;
use std::sync::Arc;

use aquatic_common::access_list::{AccessList, AccessListArcSwap, AccessListMode};
use aquatic_common::{CanonicalSocketAddr, SecondsSinceServerStart, ValidUntil};
use aquatic_udp::common::{IpVersionStatistics, StatisticsMessage, SwarmWorkerStatistics};
use aquatic_udp::config::Config;
use aquatic_udp::swarm::TorrentMaps;
use aquatic_udp_protocol::*;
use crossbeam_channel::{unbounded, Receiver, Sender};
use proptest::prelude::*;
use rand::rngs::SmallRng;
use rand::SeedableRng;
use serde::{Deserialize, Serialize};

use crate::engine::{CaseResult, Outcome, Violation};
use crate::models::*;
use crate::{vensure, vfail};

pub const TORRENT_FIRST_BYTES: [u8; 6] = [0x00, 0x10, 0x01, 0x02, 0x21, 0xff];
pub const NUM_TORRENTS: u8 = 4; // indices >= NUM_TORRENTS are never announced ("unknown")

pub fn torrent_hash(t: u8) -> Hash20 {
    hash_for(t, TORRENT_FIRST_BYTES[(t as usize) % TORRENT_FIRST_BYTES.len()])
}

#[derive(Debug, Clone, Serialize, Deserialize, PartialEq)]
pub enum UdpOp {
    Announce {
        t: u8,
        /// 0 = IPv4, 1 = IPv6, 2 = IPv4-mapped IPv6 source
        fam: u8,
        ip: u8,
        port: u8,
        pid: u8,
        /// 0 none, 1 completed, 2 started, 3 stopped
        event: u8,
        left: i64,
        numwant: i32,
        /// deadline = now + ttl
        ttl: u32,
        /// the ip field inside the request (must be ignored)
        req_ip: [u8; 4],
        tid: i32,
    },
    Scrape {
        fam: u8,
        hashes: Vec<u8>,
        tid: i32,
    },
    Clean {
        dt: u32,
        export: bool,
    },
    Observe {
        t: u8,
        fam: u8,
    },
    /// replace the access list (C11): hashes by torrent index
    SetAccessList {
        listed: Vec<u8>,
    },
}

#[derive(Debug, Clone, Serialize, Deserialize, PartialEq)]
pub struct UdpCase {
    pub max_response_peers: usize,
    pub rng_seed: u64,
    pub peer_clients: bool,
    pub histograms: bool,
    /// 0 off, 1 allow, 2 deny
    pub access_mode: u8,
    pub ops: Vec<UdpOp>,
}

#[derive(Debug, Clone, Copy, Default)]
pub struct Oracles {
    pub stats_totals: bool,
    pub client_tallies: bool,
    pub exports: bool,
    /// check at storage level that forbidden torrents are removed by clean (C11)
    pub access_list: bool,
}

pub fn event_of(e: u8) -> AnnounceEvent {
    match e % 4 {
        0 => AnnounceEvent::None,
        1 => AnnounceEvent::Completed,
        2 => AnnounceEvent::Started,
        _ => AnnounceEvent::Stopped,
    }
}

pub fn src_ip(fam: u8, ip: u8) -> IpAddr {
    match fam % 3 {
        0 => v4(ip),
        1 => v6(ip),
        _ => v4_mapped(ip),
    }
}

pub fn port_of(p: u8) -> u16 {
    1000 + p as u16
}

pub struct UdpHarness {
    pub config: Config,
    pub observe_config: Config,
    pub maps: TorrentMaps,
    pub rng: SmallRng,
    pub sender: Sender<StatisticsMessage>,
    pub receiver: Receiver<StatisticsMessage>,
    pub statistics: aquatic_udp::common::CachePaddedArc<IpVersionStatistics<SwarmWorkerStatistics>>,
    pub access_list: Arc<AccessListArcSwap>,
    pub export_path: Option<PathBuf>,
}

impl UdpHarness {
    pub fn new(case: &UdpCase, export_path: Option<PathBuf>) -> Self {
        let mut config = Config::default();
        config.protocol.max_response_peers = case.max_response_peers;
        config.statistics.interval = 1;
        config.statistics.print_to_stdout = true; // makes statistics "active"; no worker runs
        config.statistics.peer_clients = case.peer_clients;
        config.statistics.torrent_peer_histograms = case.histograms;
        config.access_list.mode = match case.access_mode % 3 {
            0 => AccessListMode::Off,
            1 => AccessListMode::Allow,
            _ => AccessListMode::Deny,
        };
        if let Some(p) = &export_path {
            config.scrape_exports.enable_scrape_exports = true;
            config.scrape_exports.path = p.clone();
        }
        let mut observe_config = config.clone();
        observe_config.protocol.max_response_peers = 1_000_000;
        observe_config.statistics.peer_clients = false;
        let (sender, receiver) = unbounded();
        Self {
            config,
            observe_config,
            maps: TorrentMaps::default(),
            rng: SmallRng::seed_from_u64(case.rng_seed),
            sender,
            receiver,
            statistics: Default::default(),
            access_list: Arc::new(AccessListArcSwap::default()),
            export_path,
        }
    }

    pub fn observe(&mut self, hash: Hash20, is_v4: bool) -> Result<BTreeSet<PKey>, Violation> {
        let src = if is_v4 {
            IpAddr::V4(std::net::Ipv4Addr::new(10, 9, 9, 9))
        } else {
            "2001:db8::9:9:9".parse().unwrap()
        };
        let request = AnnounceRequest {
            connection_id: ConnectionId::new(0),
            action_placeholder: Default::default(),
            transaction_id: TransactionId::new(-7),
            info_hash: InfoHash(hash),
            peer_id: PeerId([0xEE; 20]),
            bytes_downloaded: NumberOfBytes::new(0),
            bytes_left: NumberOfBytes::new(1),
            bytes_uploaded: NumberOfBytes::new(0),
            event: AnnounceEvent::Stopped,
            ip_address: Ipv4AddrBytes([0; 4]),
            key: UdpPeerKey::new(0),
            peers_wanted: NumberOfPeers::new(0),
            port: Port::new(NonZeroU16::new(9).unwrap()),
        };
        let resp = self.maps.announce(
            &self.observe_config,
            &self.sender,
            &mut self.rng,
            &request,
            CanonicalSocketAddr::new(SocketAddr::new(src, 4444)),
            ValidUntil::new_raw(SecondsSinceServerStart::new_raw(0)),
        );
        let mut out = BTreeSet::new();
        match resp {
            Response::AnnounceIpv4(r) if is_v4 => {
                for p in r.peers {
                    let ip = IpAddr::V4(p.ip_address.into());
                    if !out.insert(PKey {
                        ip,
                        port: p.port.0.get(),
                    }) {
                        vfail!("observe-duplicate", "observer saw a duplicate peer {ip}");
                    }
                }
            }
            Response::AnnounceIpv6(r) if !is_v4 => {
                for p in r.peers {
                    let ip = IpAddr::V6(p.ip_address.into());
                    if !out.insert(PKey {
                        ip,
                        port: p.port.0.get(),
                    }) {
                        vfail!("observe-duplicate", "observer saw a duplicate peer {ip}");
                    }
                }
            }
            other => vfail!(
                "observe-wrong-variant",
                "observer announce returned {:?}",
                other
            ),
        }
        Ok(out)
    }
}

// `PKey` clashes between models and udp protocol; alias the protocol one
use aquatic_udp_protocol::PeerKey as UdpPeerKey;

fn peers_of_response(resp: &Response, want_v4: bool) -> Result<(i32, i32, i32, i32, Vec<PKey>), Violation> {
    match resp {
        Response::AnnounceIpv4(r) if want_v4 => Ok((
            r.fixed.transaction_id.0.get(),
            r.fixed.announce_interval.0.get(),
            r.fixed.seeders.0.get(),
            r.fixed.leechers.0.get(),
            r.peers
                .iter()
                .map(|p| PKey {
                    ip: IpAddr::V4(p.ip_address.into()),
                    port: p.port.0.get(),
                })
                .collect(),
        )),
        Response::AnnounceIpv6(r) if !want_v4 => Ok((
            r.fixed.transaction_id.0.get(),
            r.fixed.announce_interval.0.get(),
            r.fixed.seeders.0.get(),
            r.fixed.leechers.0.get(),
            r.peers
                .iter()
                .map(|p| PKey {
                    ip: IpAddr::V6(p.ip_address.into()),
                    port: p.port.0.get(),
                })
                .collect(),
        )),
        other => Err(Violation::new(
            "announce-wrong-variant",
            format!(
                "announce from an {} source answered with {:?}",
                if want_v4 { "IPv4" } else { "IPv6" },
                other
            ),
        )),
    }
}

thread_local! {
    static TMPDIR: std::cell::RefCell<Option<tempfile::TempDir>> = const { std::cell::RefCell::new(None) };
}

pub fn thread_tmp_path(name: &str) -> PathBuf {
    TMPDIR.with(|t| {
        let mut t = t.borrow_mut();
        if t.is_none() {
            *t = Some(
                tempfile::Builder::new()
                    .prefix("vcheck-")
                    .tempdir_in("/dev/shm")
                    .or_else(|_| tempfile::tempdir())
                    .expect("tempdir"),
            );
        }
        t.as_ref().unwrap().path().join(name)
    })
}

/// Execute a history against the real storage and the model, comparing after every step.
pub fn run_udp_case(case: &UdpCase, oracles: Oracles) -> CaseResult {
    let mut out = Outcome::default();
    let export_path = if oracles.exports {
        let p = thread_tmp_path("export.txt");
        let _ = std::fs::remove_file(&p);
        let _ = std::fs::remove_file(p.with_extension("tmp"));
        Some(p)
    } else {
        None
    };
    let mut h = UdpHarness::new(case, export_path.clone());
    let mut model = SwarmModel::default();
    let mut now: u64 = 0;
    // shadow of the documented representation rule, for labels only
    let mut large: BTreeMap<(bool, Hash20), bool> = BTreeMap::new();
    // fold of the PeerAdded / PeerRemoved stream by the statistics worker's rule
    let mut tallies: BTreeMap<Hash20, usize> = BTreeMap::new();
    let mut listed: BTreeSet<Hash20> = BTreeSet::new();
    let mode = case.access_mode % 3;
    let allowed = |listed: &BTreeSet<Hash20>, hsh: &Hash20| match mode {
        0 => true,
        1 => listed.contains(hsh),
        _ => !listed.contains(hsh),
    };
    let mut last_export: Option<BTreeSet<String>> = None;

    for (step, op) in case.ops.iter().enumerate() {
        match op {
            UdpOp::Announce {
                t,
                fam,
                ip,
                port,
                pid,
                event,
                left,
                numwant,
                ttl,
                req_ip,
                tid,
            } => {
                let hash = torrent_hash(*t % NUM_TORRENTS);
                // the socket worker gates announces by the access list; forbidden ones never
                // reach storage
                if oracles.access_list && !allowed(&listed, &hash) {
                    out.label("announce-forbidden-skipped");
                    continue;
                }
                let src = src_ip(*fam, *ip);
                let is_v4 = canonical_ip(src).is_ipv4();
                let stopped = *event % 4 == 3;
                let request = AnnounceRequest {
                    connection_id: ConnectionId::new(1),
                    action_placeholder: Default::default(),
                    transaction_id: TransactionId::new(*tid),
                    info_hash: InfoHash(hash),
                    peer_id: PeerId(peer_id_for(*pid)),
                    bytes_downloaded: NumberOfBytes::new(0),
                    bytes_left: NumberOfBytes::new(*left),
                    bytes_uploaded: NumberOfBytes::new(0),
                    event: event_of(*event),
                    ip_address: Ipv4AddrBytes(*req_ip),
                    key: UdpPeerKey::new(0),
                    peers_wanted: NumberOfPeers::new(*numwant),
                    port: Port::new(NonZeroU16::new(port_of(*port)).unwrap()),
                };
                let deadline = now + *ttl as u64;
                let size_before = model.size(is_v4, &hash);
                let exp = model.announce(
                    hash,
                    src,
                    port_of(*port),
                    stopped,
                    *left == 0,
                    deadline,
                    peer_id_for(*pid),
                );
                let resp = h.maps.announce(
                    &h.config,
                    &h.sender,
                    &mut h.rng,
                    &request,
                    CanonicalSocketAddr::new(SocketAddr::new(src, 50_000 + *ip as u16)),
                    ValidUntil::new_raw(SecondsSinceServerStart::new_raw(deadline as u32)),
                );
                let (rtid, interval, seeders, leechers, peers) = peers_of_response(&resp, is_v4)?;
                out.checks += 5;
                vensure!(
                    rtid == *tid,
                    "announce-transaction-id",
                    "step {step}: transaction id {rtid} != request's {tid}"
                );
                vensure!(
                    interval == h.config.protocol.peer_announce_interval,
                    "announce-interval",
                    "step {step}: interval {interval}"
                );
                vensure!(
                    seeders as i64 == exp.seeders as i64 && leechers as i64 == exp.leechers as i64,
                    "announce-counts",
                    "step {step}: announce reply seeders/leechers {seeders}/{leechers}, reference {}/{} (excluding announcer) for {:?}",
                    exp.seeders,
                    exp.leechers,
                    op
                );
                let limit = if *numwant <= 0 {
                    case.max_response_peers
                } else {
                    (*numwant as usize).min(case.max_response_peers)
                };
                let requester = PKey {
                    ip: canonical_ip(src),
                    port: port_of(*port),
                };
                if let Err((kind, msg)) =
                    check_peer_list(&peers, &exp.others, Some(&requester), limit, false)
                {
                    return Err(Violation::new(&kind, format!("step {step}: {msg} ({:?})", op)));
                }
                // labels (shadow representation)
                let lk = (is_v4, hash);
                let is_large = large.get(&lk).copied().unwrap_or(false);
                let others = exp.others.len();
                if !is_large && others == 2 && !stopped {
                    large.insert(lk, true);
                    out.label("inline->heap");
                } else if is_large && stopped && others <= 2 {
                    large.insert(lk, false);
                    out.label("heap->inline-by-stop");
                }
                if let Some(prev) = exp.previous {
                    if stopped {
                        out.label("stop-existing");
                    } else {
                        out.label("reannounce");
                        if prev.seeder != (*left == 0) {
                            out.label("seeder-flag-flip");
                        }
                        if prev.peer_id != peer_id_for(*pid) {
                            out.label("peer-id-change");
                        }
                    }
                }
                if *fam % 3 == 2 {
                    out.label("mapped-source");
                }
                if others > limit {
                    out.label("swarm>limit");
                }
                if others > 255 {
                    out.label("swarm>255");
                }
                if exp.seeders > 255 {
                    out.label("seeders>255");
                }
                let _ = size_before;
            }
            UdpOp::Scrape { fam, hashes, tid } => {
                let src = src_ip(*fam, 0);
                let is_v4 = canonical_ip(src).is_ipv4();
                let req = ScrapeRequest {
                    connection_id: ConnectionId::new(1),
                    transaction_id: TransactionId::new(*tid),
                    info_hashes: hashes.iter().map(|t| InfoHash(torrent_hash(*t))).collect(),
                };
                let resp = h
                    .maps
                    .scrape(req, CanonicalSocketAddr::new(SocketAddr::new(src, 50_000)));
                out.checks += 1 + hashes.len() as u64;
                vensure!(
                    resp.transaction_id.0.get() == *tid,
                    "scrape-transaction-id",
                    "step {step}: scrape transaction id"
                );
                vensure!(
                    resp.torrent_stats.len() == hashes.len(),
                    "scrape-length",
                    "step {step}: {} stats for {} hashes",
                    resp.torrent_stats.len(),
                    hashes.len()
                );
                for (i, t) in hashes.iter().enumerate() {
                    let (s, l) = model.scrape(is_v4, &torrent_hash(*t));
                    let st = &resp.torrent_stats[i];
                    vensure!(
                        st.seeders.0.get() as i64 == s as i64 && st.leechers.0.get() as i64 == l as i64,
                        "scrape-counts",
                        "step {step}: scrape entry {i} (torrent {t}, {}) = {}/{}, reference {s}/{l}",
                        if is_v4 { "v4" } else { "v6" },
                        st.seeders.0.get(),
                        st.leechers.0.get()
                    );
                }
            }
            UdpOp::Clean { dt, export } => {
                now += *dt as u64;
                let before: Vec<usize> = (0..NUM_TORRENTS)
                    .flat_map(|t| [model.size(true, &torrent_hash(t)), model.size(false, &torrent_hash(t))])
                    .collect();
                let removed = model.clean(now);
                if oracles.access_list {
                    let n = model.torrents.len();
                    model.retain_torrents(|hsh| allowed(&listed, hsh));
                    if model.torrents.len() < n {
                        out.label("forbidden-torrent-cleaned");
                    }
                }
                let do_export = *export && oracles.exports;
                h.maps.clean_and_update_statistics(
                    &h.config,
                    &h.statistics,
                    &h.sender,
                    &h.access_list,
                    SecondsSinceServerStart::new_raw(now as u32),
                    do_export,
                );
                // labels
                let mut i = 0;
                for t in 0..NUM_TORRENTS {
                    for f in [true, false] {
                        let lk = (f, torrent_hash(t));
                        let after = model.size(f, &lk.1);
                        if large.get(&lk).copied().unwrap_or(false) && before[i] >= 3 && after <= 2 {
                            large.insert(lk, false);
                            out.label("heap->inline-by-clean");
                        }
                        i += 1;
                    }
                }
                if !removed.is_empty() {
                    out.label("clean-expired-some");
                }
                if removed.iter().any(|(_, _, e)| e.deadline == now) {
                    out.label("clean-at-deadline");
                }
                if removed.iter().any(|(_, _, e)| e.deadline + 1 == now) {
                    out.label("clean-one-after-deadline");
                }
                if model.torrents.values().any(|t| t.values().any(|e| e.deadline == now + 1)) {
                    out.label("clean-one-before-deadline");
                }
                for (tk, _, _) in &removed {
                    let left = model.size(tk.0, &tk.1);
                    out.label(if large.get(tk).copied().unwrap_or(false) || left > 4 {
                        "expired-in-heap-map"
                    } else {
                        "expired-in-inline-map"
                    });
                }
                if oracles.stats_totals {
                    let got4 = (
                        h.statistics.ipv4.torrents.load(Ordering::Relaxed),
                        h.statistics.ipv4.peers.load(Ordering::Relaxed),
                    );
                    let got6 = (
                        h.statistics.ipv6.torrents.load(Ordering::Relaxed),
                        h.statistics.ipv6.peers.load(Ordering::Relaxed),
                    );
                    out.checks += 2;
                    vensure!(
                        got4 == model.totals(true) && got6 == model.totals(false),
                        "stats-totals",
                        "step {step}: after clean(now={now}) reported (torrents, peers) v4 {:?} v6 {:?}, stored v4 {:?} v6 {:?}",
                        got4,
                        got6,
                        model.totals(true),
                        model.totals(false)
                    );
                }
                if do_export {
                    let p = export_path.as_ref().unwrap();
                    let text = std::fs::read_to_string(p).map_err(|e| {
                        Violation::new("export-missing", format!("step {step}: export file unreadable: {e}"))
                    })?;
                    vensure!(
                        text.is_empty() || text.ends_with('\n'),
                        "export-partial",
                        "step {step}: export does not end in newline"
                    );
                    let got: Vec<String> = text.lines().map(|s| s.to_string()).collect();
                    let got_set: BTreeSet<String> = got.iter().cloned().collect();
                    vensure!(
                        got_set.len() == got.len(),
                        "export-duplicate-line",
                        "step {step}: duplicate line in export {:?}",
                        got
                    );
                    let mut want = BTreeSet::new();
                    for ((f, hsh), m) in model.torrents.iter() {
                        let s = m.values().filter(|e| e.seeder).count();
                        want.insert(format!(
                            "{} {} {} {}",
                            if *f { 4 } else { 6 },
                            hex(hsh),
                            s,
                            m.len() - s
                        ));
                    }
                    // the export is written before forbidden torrents are removed (documented
                    // in ScrapeExportConfig); only compare when no access list is in play
                    out.checks += 1;
                    vensure!(
                        got_set == want,
                        "export-content",
                        "step {step}: export lines {:?}, stored {:?}",
                        got_set,
                        want
                    );
                    out.label("export");
                    last_export = Some(got_set);
                }
            }
            UdpOp::Observe { t, fam } => {
                let hash = torrent_hash(*t % NUM_TORRENTS);
                let is_v4 = *fam % 2 == 0;
                let got = h.observe(hash, is_v4)?;
                let want = model.keys(is_v4, &hash);
                out.checks += 1;
                vensure!(
                    got == want,
                    "observe-set",
                    "step {step}: peers the tracker can hand out for torrent {t} ({}) = {:?}, reference {:?}",
                    if is_v4 { "v4" } else { "v6" },
                    got,
                    want
                );
                let lk = (is_v4, hash);
                if large.get(&lk).copied().unwrap_or(false) && want.len() <= 2 {
                    large.insert(lk, false);
                }
            }
            UdpOp::SetAccessList { listed: l } => {
                if oracles.access_list {
                    listed = l.iter().map(|t| torrent_hash(*t % NUM_TORRENTS)).collect();
                    let mut al = AccessList::default();
                    for hsh in &listed {
                        al.insert_from_line(&hex(hsh)).unwrap();
                    }
                    h.access_list.store(Arc::new(al));
                    out.label("access-list-swap");
                }
            }
        }

        // fold statistics messages
        while let Ok(m) = h.receiver.try_recv() {
            match m {
                StatisticsMessage::PeerAdded(id) => {
                    *tallies.entry(id.0).or_default() += 1;
                }
                StatisticsMessage::PeerRemoved(id) => {
                    if let Some(c) = tallies.get_mut(&id.0) {
                        *c -= 1;
                        if *c == 0 {
                            tallies.remove(&id.0);
                        }
                    }
                }
                _ => {}
            }
        }
        if oracles.client_tallies && case.peer_clients && matches!(op, UdpOp::Clean { .. }) {
            let mut want: BTreeMap<Hash20, usize> = BTreeMap::new();
            for m in model.torrents.values() {
                for e in m.values() {
                    *want.entry(e.peer_id).or_default() += 1;
                }
            }
            out.checks += 1;
            vensure!(
                tallies == want,
                "client-tallies",
                "step {step}: per-peer-id tallies from the PeerAdded/PeerRemoved stream {:?}, stored peers per id {:?}",
                tallies.iter().map(|(k, v)| (k[19], *v)).collect::<Vec<_>>(),
                want.iter().map(|(k, v)| (k[19], *v)).collect::<Vec<_>>()
            );
        }
    }

    // final observation of every torrent in both families
    for t in 0..NUM_TORRENTS {
        for is_v4 in [true, false] {
            let hash = torrent_hash(t);
            let got = h.observe(hash, is_v4)?;
            let want = model.keys(is_v4, &hash);
            out.checks += 1;
            vensure!(
                got == want,
                "observe-set",
                "final: peers the tracker can hand out for torrent {t} ({}) = {:?}, reference {:?}",
                if is_v4 { "v4" } else { "v6" },
                got,
                want
            );
        }
    }
    let _ = last_export;
    Ok(out)
}

pub fn hex(b: &[u8]) -> String {
    let mut s = String::with_capacity(b.len() * 2);
    for x in b {
        s.push_str(&format!("{:02x}", x));
    }
    s
}

// ---------------------------------------------------------------------------
// Generators
// ---------------------------------------------------------------------------

#[derive(Clone, Copy, Debug)]
pub struct GenParams {
    /// per-case knobs (set by udp_case): weight of `stopped`, weight of clean ops, torrents used
    pub stop_w: u32,
    pub clean_w: u32,
    pub torrents: u8,
    pub max_ops: usize,
    pub ips: u8,
    pub ports: u8,
    pub pids: u8,
    pub exports: bool,
    pub access_list: bool,
    pub max_ttl: u32,
}

pub fn announce_op(p: GenParams) -> impl Strategy<Value = UdpOp> + Clone {
    (
        (0..p.torrents.clamp(1, NUM_TORRENTS), 0u8..3, 0..p.ips, 0..p.ports, 0..p.pids),
        prop_oneof![3 => Just(0u8), 1 => Just(1u8), 3 => Just(2u8), p.stop_w.max(1) => Just(3u8)],
        prop_oneof![
            4 => Just(0i64),
            4 => Just(1i64),
            1 => Just(i64::MAX),
            1 => Just(-1i64),
            1 => Just(i64::MIN),
            1 => any::<i64>()
        ],
        prop_oneof![
            1 => Just(i32::MIN),
            1 => Just(-1),
            3 => Just(0),
            1 => Just(1),
            1 => Just(2),
            1 => Just(3),
            1 => Just(5),
            1 => Just(100),
            1 => Just(i32::MAX),
            1 => any::<i32>()
        ],
        0..=p.max_ttl,
        prop_oneof![
            2 => Just([0u8; 4]),
            1 => Just([255u8; 4]),
            1 => Just([10, 0, 1, 1]),
            1 => any::<[u8; 4]>()
        ],
        any::<i32>(),
    )
        .prop_map(
            |((t, fam, ip, port, pid), event, left, numwant, ttl, req_ip, tid)| UdpOp::Announce {
                t,
                fam,
                ip,
                port,
                pid,
                event,
                left,
                numwant,
                ttl,
                req_ip,
                tid,
            },
        )
}

pub fn udp_op(p: GenParams) -> BoxedStrategy<UdpOp> {
    let scrape = (
        0u8..3,
        proptest::collection::vec(0u8..(NUM_TORRENTS + 2), 1..6),
        any::<i32>(),
    )
        .prop_map(|(fam, hashes, tid)| UdpOp::Scrape { fam, hashes, tid });
    let exports = p.exports;
    let clean = (
        prop_oneof![3 => Just(0u32), 3 => Just(1u32), 2 => 2u32..6],
        any::<bool>(),
    )
        .prop_map(move |(dt, e)| UdpOp::Clean {
            dt,
            export: e && exports,
        });
    let observe = (0..NUM_TORRENTS, 0u8..2).prop_map(|(t, fam)| UdpOp::Observe { t, fam });
    if p.access_list {
        let set = proptest::collection::vec(0..NUM_TORRENTS, 0..4)
            .prop_map(|listed| UdpOp::SetAccessList { listed });
        prop_oneof![
            12 => announce_op(p),
            2 => scrape,
            p.clean_w.max(1) => clean,
            1 => observe,
            2 => set
        ]
        .boxed()
    } else {
        prop_oneof![
            12 => announce_op(p),
            2 => scrape,
            p.clean_w.max(1) => clean,
            1 => observe
        ]
        .boxed()
    }
}

/// One torrent, a key domain of ips x ports (hundreds to thousands of keys), long histories with
/// long-lived entries: swarms beyond 255 peers and 255 seeders per family, replies limited by
/// max_response_peers far below the swarm size.
pub fn udp_big_swarm(p: GenParams, peer_clients: bool) -> BoxedStrategy<UdpCase> {
    let q = GenParams { torrents: 1, stop_w: 1, clean_w: 1, ..p };
    (
        prop_oneof![Just(1usize), Just(30usize), Just(100usize), Just(400usize)],
        any::<u64>(),
        any::<bool>(),
        proptest::collection::vec(udp_op(q), p.max_ops / 2..p.max_ops),
    )
        .prop_map(move |(max_response_peers, rng_seed, histograms, ops)| UdpCase { max_response_peers, rng_seed, peer_clients, histograms, access_mode: 0, ops })
        .boxed()
}

pub fn udp_case(p: GenParams, peer_clients: bool) -> BoxedStrategy<UdpCase> {
    // key-domain size is chosen per case: small domains make re-announces, stops of existing
    // keys and shrinking below the inline capacity frequent
    (
        prop_oneof![Just(1u8), Just(2u8), Just(p.ips.max(1))],
        prop_oneof![Just(1u8), Just(2u8), Just(3u8), Just(p.ports.max(1))],
        prop_oneof![Just(1u32), Just(3u32)],
        prop_oneof![Just(1u32), Just(3u32)],
        prop_oneof![Just(1u8), Just(2u8), Just(NUM_TORRENTS)],
    )
        .prop_flat_map(move |(ips, ports, stop_w, clean_w, torrents)| {
            let q = GenParams {
                ips: ips.min(p.ips.max(1)),
                ports: ports.min(p.ports.max(1)),
                stop_w,
                clean_w,
                torrents,
                ..p
            };
            (
                prop_oneof![
                    Just(0usize),
                    Just(1usize),
                    Just(2usize),
                    Just(3usize),
                    Just(5usize),
                    Just(30usize),
                    Just(100usize)
                ],
                any::<u64>(),
                any::<bool>(),
                if p.access_list { 0u8..3 } else { 0u8..1 },
                proptest::collection::vec(udp_op(q), 0..p.max_ops),
            )
        })
        .prop_map(move |(max_response_peers, rng_seed, histograms, access_mode, ops)| UdpCase {
            max_response_peers,
            rng_seed,
            peer_clients,
            histograms,
            access_mode,
            ops,
        })
        .boxed()
}
